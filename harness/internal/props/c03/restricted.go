package c03

import (
	"fmt"
	"strings"
)

// ---------------------------------------------------------------------------------------
// Family "restrict": every kind of expression in every position that only accepts a restricted form
// (parameter defaults, const initialisers, case labels, map keys, import paths and aliases, assignment
// targets with every assignment operator, operands of in / not in, defer / go operands, range sources,
// pipe stages, ...). Whatever is put there, parse / compile / Eval must answer with a value or an error.

type exprKind struct {
	Name string
	Text string
}

var exprKinds = []exprKind{
	// literals of every kind
	{"int", "1"}, {"int-0", "0"}, {"int-big", "9223372036854775807"}, {"int-hex", "0x1f"}, {"int-oct", "017"},
	{"float", "1.5"}, {"float-0", "0.0"}, {"str", `"s"`}, {"str-empty", `""`}, {"sstr", `'t'`}, {"raw", "`r`"},
	{"template", `'a{x}b'`}, {"template-call", `'{len(x)}'`}, {"true", "true"}, {"false", "false"}, {"nil", "nil"},
	// prefix operators on every literal kind (also where the operand has the wrong type)
	{"neg-int", "-1"}, {"neg-float", "-1.5"}, {"neg-str", `-"s"`}, {"neg-true", "-true"}, {"neg-nil", "-nil"}, {"neg-list", "-[1]"}, {"neg-ident", "-x"},
	{"not-true", "!true"}, {"not-false", "!false"}, {"not-nil", "!nil"}, {"not-int", "!0"}, {"not-int-1", "!1"}, {"not-float", "!1.5"}, {"not-str", `!""`}, {"not-str-s", `!"s"`}, {"not-list", "![]"}, {"not-ident", "!x"}, {"not-template", `!'{x}'`},
	{"plus-int", "+1"}, {"plus-str", `+"s"`}, {"not-kw", "not true"}, {"not-kw-nil", "not nil"},
	// nested prefix, parenthesised
	{"neg-neg", "- -1"}, {"not-not", "!!true"}, {"not-not-nil", "!!nil"}, {"not-neg", "!-1"}, {"neg-not", "-!true"}, {"neg-not-nil", "-!nil"}, {"not-neg-str", `!-"s"`},
	{"paren-int", "(1)"}, {"paren-neg", "(-1)"}, {"neg-paren", "-(1)"}, {"not-paren-nil", "!(nil)"}, {"paren-not-int", "(!0)"}, {"paren-str", `("s")`}, {"paren-paren", "((1))"},
	// binary constant expressions
	{"add", "1 + 2"}, {"concat", `"a" + "b"`}, {"mul-float", "2 * 1.5"}, {"cmp", "1 < 2"}, {"eq-nil", "nil == nil"}, {"and", "true && false"}, {"or-nil", "nil || 1"}, {"shift", "1 << 3"}, {"pow", "2 ** 3"}, {"mod-0", "1 % 0"}, {"div-0", "1 / 0"}, {"mixed", `1 + "s"`},
	// identifiers, attribute and index forms, calls
	{"ident", "x"}, {"ident-undef", "undefined_name"}, {"ident-builtin", "len"}, {"ident-module", "math"}, {"underscore", "_"},
	{"attr", "m.a"}, {"attr-module", "math.pi"}, {"attr-chain", "m.a.b"}, {"index", "x[0]"}, {"index-str", `m["a"]`}, {"slice", "x[1:]"}, {"slice-full", "x[:]"}, {"index-index", "x[0][0]"},
	{"call", "f(1)"}, {"call-builtin", "len(x)"}, {"call-method", "x.copy()"}, {"call-module", "math.abs(-1)"}, {"call-call", "f(1)(2)"}, {"call-noargs", "f()"},
	// containers
	{"list", "[1, 2]"}, {"list-empty", "[]"}, {"list-nested", "[[1], [x]]"}, {"map", `{"a": 1}`}, {"map-empty", "{}"}, {"map-nested", `{"a": {"b": x}}`}, {"set", "{1, 2}"},
	// function literals and other complete constructs
	{"func", "func() { return 1 }"}, {"func-params", "func(a, b=2) { return a }"}, {"func-named", "func g() { }"}, {"func-called", "func() { return 1 }()"},
	{"ternary", "true ? 1 : 2"}, {"ternary-nil", "nil ? x : f"}, {"if-expr", "if true { 1 } else { 2 }"}, {"switch-expr", "switch 1 { case 1: 2 }"},
	{"in", "1 in x"}, {"not-in", "1 not in x"}, {"pipe", "x | len"}, {"range", "range x"}, {"receive", "<-c"}, {"send", "c <- 1"},
	{"assign", "y = 1"}, {"declare", "y := 1"}, {"incr", "x++"}, {"multi", "1, 2"},
	// keywords and punctuation where an expression is expected
	{"kw-if", "if"}, {"kw-func", "func"}, {"kw-return", "return 1"}, {"kw-break", "break"}, {"kw-import", "import math"}, {"kw-const", "const q = 1"}, {"kw-var", "var q = 1"}, {"kw-for", "for { break }"}, {"kw-defer", "defer f(1)"}, {"kw-go", "go f(1)"}, {"kw-in", "in"}, {"kw-struct", "struct"},
	{"empty", ""}, {"comma", ","}, {"colon", ":"}, {"star", "*"}, {"dots", "..."}, {"newline", "\n1"},
}

type restrictPos struct {
	Group string
	Tmpl  string // %E (and %F for a second, independent expression)
}

var restrictPositions = []restrictPos{
	// parameter defaults
	{"param-default", "func pf(a=%E) { return a }; pf()"},
	{"param-default", "func(a=%E) { }"},
	{"param-default", "pg := func(a, b=%E) { return b }; pg(1)"},
	{"param-default", "func pf(a=%E, b=%F) { return [a, b] }; pf()"},
	{"param-default", "func pf(a=1, b=%E) { return b }; pf(2)"},
	{"param-default", "func outer() { return func(p=%E) { return p } }; outer()()"},
	{"param-default", "func pf(a = %E\n) { return a }"},
	{"param-name", "func pf(%E) { }"},
	{"param-name", "func pf(a, %E=1) { }"},
	{"func-name", "func %E() { }"},
	// const / var initialisers and names
	{"const-init", "const k = %E; k"},
	{"const-init", "func h() { const k = %E; return k }; h()"},
	{"const-name", "const %E = 1"},
	{"var-init", "var v = %E; v"},
	{"var-name", "var %E = 1"},
	// case labels and switch subjects
	{"case-label", "switch 1 { case %E: 1 }"},
	{"case-label", "switch x { case 1, %E: 1\n default: 2 }"},
	{"case-label", "switch 1 { case %E, %F: 1 }"},
	{"case-label", "switch nil {\ncase %E:\n}"},
	{"switch-subject", "switch %E { case 1: 2\n default: 3 }"},
	{"case-body", "switch 1 { case 1: %E }"},
	{"default-body", "switch 1 { default: %E }"},
	// map keys, values, set members, list elements
	{"map-key", "{%E: 1}"},
	{"map-key", "y := {\"a\": 1, %E: 2}; y"},
	{"map-key", "{%E: %F}"},
	{"map-value", "{\"k\": %E}"},
	{"set-member", "{%E}"},
	{"set-member", "{%E, %F}"},
	{"list-element", "[%E, %F]"},
	// import paths and aliases
	{"import-path", "import %E"},
	{"import-alias", "import math as %E"},
	{"from-path", "from %E import abs"},
	{"from-name", "from math import %E"},
	{"from-alias", "from math import abs as %E"},
	{"from-names", "from math import (abs, %E)"},
	// assignment targets with every assignment operator
	{"assign-target", "%E = 1"},
	{"assign-target", "%E := 1"},
	{"assign-target", "%E += 1"},
	{"assign-target", "%E -= 1"},
	{"assign-target", "%E *= 2"},
	{"assign-target", "%E /= 2"},
	{"assign-target", "%E++"},
	{"assign-target", "%E--"},
	{"assign-target", "%E, y = 1, 2"},
	{"assign-target", "y, %E := [1, 2]"},
	{"assign-target", "%E, %F = [1, 2]"},
	{"assign-target", "%E.a = 1"},
	{"assign-target", "%E[0] = 1"},
	{"assign-target", "%E[0] += 1"},
	{"assign-target", "%E.a += 1"},
	{"assign-target", "x[%E] = 1"},
	{"assign-target", "m[%E] += 1"},
	{"assign-value", "y := %E; y"},
	{"assign-value", "x[0] = %E"},
	{"assign-value", "y, z := %E"},
	// operands of in / not in
	{"in-operand", "%E in %F"},
	{"in-operand", "%E not in %F"},
	{"in-operand", "1 in %E"},
	{"in-operand", "%E in x"},
	{"in-operand", "%E not in m"},
	// defer / go operands
	{"defer-operand", "func() { defer %E }()"},
	{"defer-operand", "func() { defer %E() }()"},
	{"defer-operand", "func() { defer %E(%F) }()"},
	{"defer-operand", "defer %E"},
	{"go-operand", "go %E"},
	{"go-operand", "go %E()"},
	{"go-operand", "func() { go %E(%F) }()"},
	// range / loop sources
	{"range-source", "for i := range %E { break }"},
	{"range-source", "for i, v := range %E { break }"},
	{"range-source", "for range %E { break }"},
	{"range-source", "for v in %E { break }"},
	{"range-var", "for %E := range x { break }"},
	{"range-var", "for i, %E := range x { break }"},
	{"for-cond", "for %E { break }"},
	{"for-clauses", "for i := %E; i < 1; i++ { break }"},
	{"for-clauses", "for i := 0; %E; i++ { break }"},
	{"for-clauses", "for i := 0; i < 1; %E { break }"},
	// pipe stages
	{"pipe-stage", "%E | %F"},
	{"pipe-stage", "1 | %E"},
	{"pipe-stage", "%E | len"},
	{"pipe-stage", "x | %E | len"},
	// other operand positions
	{"callee", "%E(1)"},
	{"call-arg", "f(%E)"},
	{"call-arg", "len(%E, %F)"},
	{"index", "x[%E]"},
	{"slice-bound", "x[%E:%F]"},
	{"slice-bound", "x[:%E]"},
	{"attr-base", "%E.a"},
	{"attr-name", "m.%E"},
	{"template-part", "'a{%E}b'"},
	{"if-cond", "if %E { 1 } else { 2 }"},
	{"ternary", "%E ? %F : %E"},
	{"return-value", "func() { return %E }()"},
	{"send", "c <- %E"},
	{"send", "%E <- 1"},
	{"receive", "<-%E"},
	{"prefix", "!%E"},
	{"prefix", "-%E"},
	{"prefix", "+%E"},
	{"binary", "%E + %F"},
	{"binary", "%E && %F"},
	{"binary", "%E == %F"},
	{"binary", "%E ** %F"},
	{"callback", "try(%E, %F)"},
	{"callback", "spawn(%E).wait()"},
	{"callback", "x.map(%E)"},
	{"callback", "sorted(x, %E)"},
	{"statement", "%E"},
	{"statement", "%E; %F"},
	{"block", "{ %E }"},
	{"struct", "struct { %E }"},
}

const restrictPrelude = "x := [1, 2, 3]; m := {\"a\": {\"b\": 1}}; func f(a=0) { return f }; c := chan(2); c <- 0\n"

func (p restrictPos) two() bool { return strings.Contains(p.Tmpl, "%F") }

// genRestrict: A = position, B = expression kind for %E, C = expression kind for %F.
func genRestrict(s spec) genOut {
	p := restrictPositions[s.A%len(restrictPositions)]
	e := exprKinds[s.B%len(exprKinds)]
	f := exprKinds[s.C%len(exprKinds)]
	src := strings.ReplaceAll(p.Tmpl, "%E", e.Text)
	src = strings.ReplaceAll(src, "%F", f.Text)
	class := fmt.Sprintf("restrict:%s#%d:%s", p.Group, s.A%len(restrictPositions), e.Name)
	if p.two() {
		class += "," + f.Name
	}
	// import statements cannot follow the prelude's declarations on one line: keep them apart
	return genOut{Src: restrictPrelude + src + "\n", Class: class}
}

// ---------------------------------------------------------------------------------------
// Family "lex": every position inside a literal crossed with a representative of every character class.

type lexChar struct {
	Name string
	Text string // raw bytes (may be invalid UTF-8, may be empty = end of input)
}

var lexChars = []lexChar{
	// ASCII letters that are escapes, and ones that are not
	{"esc-a", "a"}, {"esc-b", "b"}, {"esc-e", "e"}, {"esc-f", "f"}, {"esc-n", "n"}, {"esc-r", "r"}, {"esc-t", "t"}, {"esc-v", "v"}, {"esc-x", "x"}, {"esc-u", "u"}, {"esc-U", "U"},
	{"letter-c", "c"}, {"letter-d", "d"}, {"letter-g", "g"}, {"letter-q", "q"}, {"letter-z", "z"}, {"letter-A", "A"}, {"letter-N", "N"}, {"letter-X", "X"}, {"letter-Z", "Z"}, {"underscore", "_"},
	// digits
	{"digit-0", "0"}, {"digit-1", "1"}, {"digit-3", "3"}, {"digit-7", "7"}, {"digit-8", "8"}, {"digit-9", "9"},
	// ASCII punctuation
	{"backslash", "\\"}, {"dquote", "\""}, {"squote", "'"}, {"backtick", "`"}, {"lbrace", "{"}, {"rbrace", "}"}, {"dollar", "$"}, {"space", " "}, {"dot", "."}, {"plus", "+"}, {"minus", "-"}, {"slash", "/"}, {"hash", "#"}, {"tilde", "~"},
	// non-ASCII letters and symbols of 2, 3 and 4 UTF-8 bytes, and the edges of each length
	{"u2-e-acute", "é"}, {"u2-U-umlaut", "Ü"}, {"u2-first", "\u0080"}, {"u2-nbsp", "\u00a0"}, {"u2-last", "\u07ff"}, {"u2-greek", "λ"},
	{"u3-euro", "€"}, {"u3-cjk", "世"}, {"u3-first", "\u0800"}, {"u3-linesep", "\u2028"}, {"u3-bom", "\ufeff"}, {"u3-replacement", "\ufffd"}, {"u3-last", "\uffff"}, {"u3-combining", "\u0301"},
	{"u4-emoji", "😀"}, {"u4-first", "\U00010000"}, {"u4-math", "𝒙"}, {"u4-last", "\U0010ffff"},
	// invalid UTF-8
	{"bad-ff", "\xff"}, {"bad-c0", "\xc0"}, {"bad-80", "\x80"}, {"bad-truncated-2", "\xc3"}, {"bad-truncated-3", "\xe2\x82"}, {"bad-surrogate", "\xed\xa0\x80"}, {"bad-too-big", "\xf4\x90\x80\x80"}, {"bad-overlong", "\xc0\xaf"}, {"bad-f8", "\xf8\x88\x80\x80\x80"},
	// control characters
	{"ctl-nul", "\x00"}, {"ctl-01", "\x01"}, {"ctl-bel", "\x07"}, {"ctl-tab", "\t"}, {"ctl-lf", "\n"}, {"ctl-cr", "\r"}, {"ctl-crlf", "\r\n"}, {"ctl-vt", "\x0b"}, {"ctl-esc", "\x1b"}, {"ctl-del", "\x7f"},
	// end of input
	{"eof", ""},
}

type lexCtx struct {
	Group string
	Pre   string // text before the character
	Post  string // text after it ("" with Group *-open = the literal is not terminated)
}

var lexContexts = func() []lexCtx {
	var out []lexCtx
	add := func(group, pre, post string) { out = append(out, lexCtx{group, pre, post}) }
	// escapes in the three kinds of string, at the start / in the middle / at the end / unterminated
	partial := []string{`\`, `\x`, `\x4`, `\u`, `\u0`, `\u00`, `\u00e`, `\U`, `\U0001F60`, `\0`, `\01`, `\1`, `\12`, `\7`, `\\`, `a\`, `\n\`}
	for _, q := range []string{`"`, `'`, "`"} {
		name := map[string]string{`"`: "dq", `'`: "sq", "`": "bt"}[q]
		for _, e := range partial {
			add("escape-"+name, q+e, q)
			add("escape-"+name, q+"ab"+e, "cd"+q)
			add("escape-"+name+"-open", q+e, "")
			add("escape-"+name+"-assign", "s := "+q+e, "xy"+q+"; s")
		}
		add("char-"+name, q, q)
		add("char-"+name, q+"ab", "cd"+q)
		add("char-"+name+"-open", q+"ab", "")
	}
	// template strings: in the text part, next to and inside the {} part
	for _, e := range []string{``, `\`, `\x`, `\u00`} {
		add("template-text", `'a{x}`+e, `b'`)
		add("template-text", `'`+e, `{x}'`)
		add("template-brace", `'\{`+e, `'`)
		add("template-brace", `'{`+e, `}'`)
		add("template-expr", `'{x`+e, `}'`)
		add("template-expr", `'{x +`+e, `1}'`)
		add("template-inner-string", `'{"a`+e, `"}'`)
		add("template-inner-string", `'{ f("`+e, `") }'`)
		add("template-open", `'a{`+e, ``)
		add("template-open", `'a{x}`+e, ``)
	}
	// numeric literals: after every prefix, inside and after the digits
	for _, pfx := range []string{"0x", "0X", "0b", "0B", "0o", "0O", "0", "00", "07", "08", "1", "12", "1.", "1.5", "0.", ".", ".5", "1e", "1e+", "1E-", "1e5", "1.5e", "0_", "1_", "1_0", "0x_", "0x1f", "0b10", "9223372036854775807", "9223372036854775808", "0x7fffffffffffffff", "1.7976931348623157e308", "-", "-0x", "- "} {
		add("number", pfx, "")
		add("number", pfx, "1")
		add("number-assign", "y := "+pfx, "; y")
		add("number-operand", "1 + "+pfx, " + 2")
	}
	// identifiers: as the first, a middle and the last character, and where a name is required
	add("ident", "", "")
	add("ident", "", "1")
	add("ident", "", "abc := 1")
	add("ident", "ab", "cd := 1")
	add("ident", "ab", " := 1")
	add("ident", "_", "")
	add("ident-attr", "x.", "")
	add("ident-attr", "x.a", "b()")
	add("ident-func", "func ", "() { }")
	add("ident-func", "func g", "(p) { }")
	add("ident-param", "func g(", ") { }")
	add("ident-param", "func g(a", "=1) { }")
	add("ident-import", "import ", "")
	add("ident-import", "import math as ", "")
	add("ident-import", "from math import a", "bs")
	add("ident-key", "{", ": 1}")
	add("ident-call", "", "(1)")
	add("ident-keyword", "i", "f true { }")
	add("ident-keyword", "fun", "c() { }")
	add("ident-keyword", "tru", "e")
	// comments
	add("comment", "// a", "b\n1")
	add("comment", "# a", "")
	add("comment", "/* a", "b */ 1")
	add("comment", "/* a", "")
	add("comment", "/", "* x */")
	// between tokens
	add("between", "1 +", "2")
	add("between", "x :=", "1")
	add("between", "f(", ")")
	add("between", "[1,", "2]")
	add("between", "x", ".y")
	return out
}()

// genLex: A = context, B = character.
func genLex(s spec) genOut {
	c := lexContexts[s.A%len(lexContexts)]
	ch := lexChars[s.B%len(lexChars)]
	return genOut{Src: c.Pre + ch.Text + c.Post, Class: fmt.Sprintf("lex:%s#%d:%s", c.Group, s.A%len(lexContexts), ch.Name)}
}

// ---------------------------------------------------------------------------------------
// Family "clauses": statement headers with every combination of present, absent and unusual clauses
// (three-clause, condition and range loops with 0..3 semicolons; switch subjects; parameter lists). Every
// body leaves its loop, so an accepted form terminates.

type clauseSrc struct {
	Src   string
	Class string
}

var clauseSources = func() []clauseSrc {
	var out []clauseSrc
	const prelude = "n := 0; i := 0; j := 0; f := func() { return 1 }; x := [1, 2]\n"
	name := func(s string) string {
		if s == "" {
			return "none"
		}
		return s
	}
	inits := []string{"", "i := 0", "i = 0", "i", "var k = 0", "i, j := 0, 1", "f()", "i++", "const c = 1", "func g() { }"}
	conds := []string{"", "i < 3", "true", "i", "k := 1", "f() == 1", "nil"}
	posts := []string{"", "i++", "i += 1", "i = i + 1", "f()", "i", "k := 2", "i, j = j, i", "i--", "break"}
	seps := []string{";", "; ;", " "}
	bodies := []string{"{ break }", "{ n++; if n > 3 { break }; continue }"}
	for _, in := range inits {
		for s1, sep1 := range seps {
			for _, c := range conds {
				for s2, sep2 := range seps {
					for _, p := range posts {
						for b, body := range bodies {
							out = append(out, clauseSrc{
								Src:   prelude + "for " + in + sep1 + " " + c + sep2 + " " + p + " " + body + "\n[n, i, j]",
								Class: fmt.Sprintf("clauses:for3:init=%s:sep%d:cond=%s:sep%d:post=%s:body%d", name(in), s1, name(c), s2, name(p), b),
							})
						}
					}
				}
			}
		}
	}
	vars := []string{"", "i :=", "i, v :=", "i, v, w :=", "_, v :=", "i =", "i, v =", "var i =", "i, i :=", "x, x :="}
	iters := []string{"x", "[1, 2]", "3", `"ab"`, "{}", `{"a": 1}`, "nil", "f", "f()", "", "range x", "x, x", "-2", "1.5"}
	for _, v := range vars {
		for _, it := range iters {
			for b, body := range bodies {
				out = append(out, clauseSrc{
					Src:   prelude + "for " + v + " range " + it + " " + body + "\n[n, i, j]",
					Class: fmt.Sprintf("clauses:range:vars=%s:iter=%s:body%d", name(v), name(it), b),
				})
				out = append(out, clauseSrc{
					Src:   prelude + "for " + strings.TrimSuffix(strings.TrimSuffix(v, ":="), "=") + " in " + it + " " + body + "\n[n, i, j]",
					Class: fmt.Sprintf("clauses:in:vars=%s:iter=%s:body%d", name(v), name(it), b),
				})
			}
		}
	}
	subjects := []string{"", "i", "i;", "i; j", "k := 1", "k := 1; k", "f()", "nil", "x", "true"}
	cases := []string{"", "case 0:", "case 0: 1", "default:", "default: 2", "case 0: 1\ndefault: 2", "default: 2\ncase 0: 1", "default:\ndefault:", "case:", "case 0, 1, : 1", "case 0: break", "case i: continue"}
	for _, s := range subjects {
		for _, c := range cases {
			out = append(out, clauseSrc{
				Src:   prelude + "r := switch " + s + " {\n" + c + "\n}\n[r, n]",
				Class: fmt.Sprintf("clauses:switch:subject=%s:cases=%s", name(s), name(strings.ReplaceAll(c, "\n", "|"))),
			})
			out = append(out, clauseSrc{
				Src:   prelude + "for n < 2 { n++; switch " + s + " {\n" + c + "\n} }\nn",
				Class: fmt.Sprintf("clauses:switch-in-loop:subject=%s:cases=%s", name(s), name(strings.ReplaceAll(c, "\n", "|"))),
			})
		}
	}
	params := []string{"", "a", "a,", "a, b", "a=1", "a=1, b", "a, b=2", "a=1, b=2,", "a, a", "a=", "=1", "a b", "a, ...b", "a=nil", "a=[1]", "a=f()", "a=-1", `a="s"`, "a=1.5", "a=true", "a=x", "a=a"}
	args := []string{"", "1", "1, 2", "1,", ",", "1, 2, 3", "a=1"}
	for _, p := range params {
		for _, a := range args {
			out = append(out, clauseSrc{
				Src:   prelude + "func g(" + p + ") { return 7 }\ng(" + a + ")",
				Class: fmt.Sprintf("clauses:func:params=%s:args=%s", name(p), name(a)),
			})
			out = append(out, clauseSrc{
				Src:   prelude + "h := func(" + p + ") { return 7 }\ntry(func() { return h(" + a + ") }, 0)",
				Class: fmt.Sprintf("clauses:funclit:params=%s:args=%s", name(p), name(a)),
			})
		}
	}
	// every prefix of a few multi-line samples (tab-indented, space-indented, CRLF, multi-byte): the input ends
	// in the middle of every construct, and the error is rendered with FriendlyErrorMessage
	samples := map[string]string{
		"tabs": "func total(items, scale=2) {\n\tsum := 0\n\tfor i, v := range items {\n\t\tif v > 1 {\n\t\t\tsum += v * scale\n\t\t}\n\t}\n\treturn [sum,\n\t\tlen(items),\n\t]\n}\nm := {\n\ta: 1,\n\t\"b\": total([1, 2,\n\t\t3]),\n}\n\tprint(m[\"b\"],\n\t\t'v={m.a}',\n\t)\nswitch m.a {\n\tcase 1,\n\t\t2:\n\t\tm.a++\n\tdefault:\n}\n\tm | keys\n",
		"crlf": "x := [1,\r\n\t2,\r\n\t3]\r\ny := {\"k\": x,\r\n\t\"日本\": 'é{x[0]}',\r\n}\r\nfunc f(a,\r\n\tb=1) {\r\n\treturn a +\r\n\t\tb\r\n}\r\nf(1,\r\n\t2)\r\n",
	}
	samples["spaces"] = strings.ReplaceAll(samples["tabs"], "\t", "    ")
	samples["mixed"] = strings.ReplaceAll(samples["tabs"], "\n\t", "\n \t ")
	for _, name := range []string{"tabs", "crlf", "spaces", "mixed"} {
		text := samples[name]
		for cut := 0; cut <= len(text); cut++ {
			out = append(out, clauseSrc{Src: text[:cut], Class: fmt.Sprintf("clauses:cut:%s:%d", name, cut)})
		}
	}
	return out
}()

// genClauses: A = index into clauseSources.
func genClauses(s spec) genOut {
	c := clauseSources[s.A%len(clauseSources)]
	return genOut{Src: c.Src, Class: c.Class}
}
