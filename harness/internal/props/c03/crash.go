package c03

import (
	"sort"
	"strings"
)

const risorPrefix = "github.com/risor-io/risor/"
const risorRoot = "github.com/risor-io/risor."

// funcName extracts the function from one "function line" of a Go stack trace
// (`pkg.(*T).method(0x…, …)` or `pkg.f(...)`), without arguments; "" when the line is not one.
func funcName(line string) string {
	if line == "" || line[0] == '\t' || line[0] == ' ' {
		return ""
	}
	if strings.HasPrefix(line, "created by ") {
		line = strings.TrimPrefix(line, "created by ")
		if i := strings.Index(line, " in goroutine"); i >= 0 {
			line = line[:i]
		}
		return line
	}
	i := strings.LastIndexByte(line, '(')
	if i <= 0 {
		return ""
	}
	// pkg.(*T).m(args): the last '(' opens the arguments
	return line[:i]
}

func short(fn string) string {
	if strings.HasPrefix(fn, risorRoot) {
		return "risor." + strings.TrimPrefix(fn, risorRoot)
	}
	return strings.TrimPrefix(fn, risorPrefix)
}

func isRisor(fn string) bool {
	return strings.HasPrefix(fn, risorPrefix) || strings.HasPrefix(fn, risorRoot)
}

// panicSite returns the innermost risor function below the panic in a debug.Stack() dump taken in
// the deferred function that recovered it (function name only: no line numbers, no addresses).
func panicSite(stack string) string {
	lines := strings.Split(stack, "\n")
	start := -1
	for i, l := range lines {
		if strings.HasPrefix(l, "panic(") {
			start = i
			break
		}
	}
	if start < 0 {
		start = 0
	}
	first := ""
	for _, l := range lines[start+1:] {
		fn := funcName(l)
		if fn == "" {
			continue
		}
		if first == "" && !strings.HasPrefix(fn, "runtime.") {
			first = fn
		}
		if isRisor(fn) {
			return stripClosure(short(fn))
		}
	}
	if first != "" {
		return "outside-risor:" + first
	}
	return "unknown"
}

// fatalInfo is what the driver extracts from the stderr of a dead worker.
type fatalInfo struct {
	Line      string   // "fatal error: stack overflow", "panic: …", "SIGSEGV…"
	Kind      string   // stack-overflow | concurrent-map-writes | … | uncaught-panic | unknown
	Frames    []string // functions of the crashing goroutine, innermost first (args stripped)
	Repeating []string // functions that occur >= 2 times among the innermost frames (sorted)
	Innermost string   // innermost risor function
	Marker    string   // one of the worker's own markers (watchdog, memory guard) or ""
}

func parseFatal(stderr string) fatalInfo {
	var fi fatalInfo
	for _, m := range []string{markerOOM, markerHang} {
		if strings.Contains(stderr, m) {
			fi.Marker = m
		}
	}
	lines := strings.Split(stderr, "\n")
	at := -1
	for i, l := range lines {
		if strings.HasPrefix(l, "fatal error:") || strings.HasPrefix(l, "panic:") || strings.HasPrefix(l, "SIGSEGV") ||
			strings.HasPrefix(l, "unexpected fault address") || strings.HasPrefix(l, "SIGBUS") || strings.HasPrefix(l, "SIGQUIT") {
			fi.Line = l
			at = i
			break
		}
	}
	if at < 0 {
		fi.Kind = "unknown"
		return fi
	}
	switch {
	case strings.Contains(fi.Line, "stack overflow"):
		fi.Kind = "stack-overflow"
	case strings.Contains(fi.Line, "concurrent map"):
		fi.Kind = "concurrent-map-access"
	case strings.Contains(fi.Line, "all goroutines are asleep"):
		fi.Kind = "deadlock"
	case strings.Contains(fi.Line, "out of memory") || strings.Contains(fi.Line, "cannot allocate"):
		fi.Kind = "out-of-memory"
	case strings.HasPrefix(fi.Line, "panic:"):
		fi.Kind = "uncaught-panic"
	case strings.HasPrefix(fi.Line, "SIGQUIT"):
		fi.Kind = "sigquit"
	case strings.HasPrefix(fi.Line, "fatal error:"):
		fi.Kind = strings.ReplaceAll(strings.TrimSpace(strings.TrimPrefix(fi.Line, "fatal error:")), " ", "-")
	default:
		fi.Kind = "signal"
	}
	// the first goroutine block after the fatal line is the crashing goroutine ("runtime stack:" is the
	// system stack of the thread and is skipped)
	g := -1
	for i := at + 1; i < len(lines); i++ {
		if strings.HasPrefix(lines[i], "goroutine ") && strings.HasSuffix(lines[i], ":") {
			g = i
			break
		}
	}
	if g < 0 {
		return fi
	}
	elided := false
	for i := g + 1; i < len(lines); i++ {
		l := lines[i]
		if l == "" {
			break
		}
		if strings.HasPrefix(l, "...") && strings.Contains(l, "frames elided") {
			elided = true
			continue
		}
		fn := funcName(l)
		if fn == "" || strings.HasPrefix(fn, "runtime.") || fn == "panic" {
			continue
		}
		if !elided {
			fi.Frames = append(fi.Frames, fn)
		}
		if fi.Innermost == "" && isRisor(fn) {
			fi.Innermost = short(fn)
		}
	}
	count := map[string]int{}
	top := fi.Frames
	if len(top) > 48 {
		top = top[:48] // the runtime prints the innermost 50 frames; the last ones may be cut mid-cycle
	}
	for _, f := range top {
		count[f]++
	}
	for f, n := range count {
		if n >= 2 {
			fi.Repeating = append(fi.Repeating, f)
		}
	}
	sort.Strings(fi.Repeating)
	return fi
}

// recursionClass names the repeating part of an exhausted native stack.
//   - only parser functions            -> "parser-recursion"      (recursive descent without a depth limit)
//   - only compiler functions          -> "compiler-recursion"
//   - otherwise the repeating risor functions, outside package vm if there are any (the interpreter
//     loop shows up between any two native frames that call back into script code)
func recursionClass(rep []string) string {
	var ris, nonVM, other []string
	for _, f := range rep {
		if isRisor(f) {
			s := short(f)
			ris = append(ris, s)
			if !strings.HasPrefix(s, "vm.") {
				nonVM = append(nonVM, s)
			}
		} else {
			other = append(other, f)
		}
	}
	all := func(pfx string) bool {
		if len(ris) == 0 {
			return false
		}
		for _, s := range ris {
			if !strings.HasPrefix(s, pfx) {
				return false
			}
		}
		return true
	}
	switch {
	case all("parser."):
		return "parser-recursion"
	case all("compiler."):
		return "compiler-recursion"
	case all("ast."):
		return "ast-recursion"
	case len(nonVM) > 0:
		return strings.Join(collapse(nonVM), "+") + "-recursion"
	case len(ris) > 0:
		return "vm-call-recursion"
	case len(other) > 0:
		// no risor function repeats (the cycle runs inside a library): name the packages
		seen := map[string]bool{}
		var pkgs []string
		for _, f := range other {
			pkg := f
			if i := strings.LastIndex(f, "/"); i >= 0 {
				if j := strings.Index(f[i:], "."); j >= 0 {
					pkg = f[:i+j]
				}
			} else if j := strings.Index(f, "."); j >= 0 {
				pkg = f[:j]
			}
			if !seen[pkg] {
				seen[pkg] = true
				pkgs = append(pkgs, pkg)
			}
		}
		sort.Strings(pkgs)
		return strings.Join(pkgs, "+") + "-recursion"
	}
	return "no-repeating-frames"
}

// dropReceiver turns pkg.(*T).m and pkg.T.m into pkg.m: the same natively recursive operation on
// lists and on maps is one defect class (which of the two repeats depends on the shape of the cycle).
func dropReceiver(f string) string {
	i := strings.Index(f, ".(")
	if i < 0 {
		return f
	}
	j := strings.Index(f[i:], ").")
	if j < 0 {
		return f
	}
	return f[:i] + "." + f[i+j+2:]
}

// receiverOf returns pkg.T of a method pkg.(*T).m ("" for plain functions).
func receiverOf(f string) string {
	i := strings.Index(f, ".(")
	if i < 0 {
		return ""
	}
	j := strings.Index(f[i:], ").")
	if j < 0 {
		return ""
	}
	return f[:i] + "." + strings.Trim(f[i+2:i+j], "*")
}

// stripClosure drops the ".func1.2" suffixes of closures.
func stripClosure(f string) string {
	for {
		i := strings.LastIndex(f, ".func")
		if i < 0 {
			return f
		}
		if strings.Trim(f[i+5:], "0123456789.") != "" {
			return f
		}
		f = f[:i]
	}
}

// collapse drops closures' suffixes (".func1"), receivers and duplicates; sorted.
func collapse(fs []string) []string {
	seen := map[string]bool{}
	var out []string
	for _, f := range fs {
		f = dropReceiver(f)
		for {
			i := strings.LastIndex(f, ".func")
			if i < 0 {
				break
			}
			rest := f[i+5:]
			if strings.Trim(rest, "0123456789.") != "" {
				break
			}
			f = f[:i]
		}
		if !seen[f] {
			seen[f] = true
			out = append(out, f)
		}
	}
	sort.Strings(out)
	if len(out) > 6 {
		out = append(out[:6], "…")
	}
	return out
}
