package c03

import (
	"context"
	"fmt"
	goast "go/ast"
	goparser "go/parser"
	gotoken "go/token"
	"os"
	"path/filepath"
	"runtime/debug"
	"sort"
	"strconv"
	"strings"
	"time"

	"github.com/risor-io/risor"
	"github.com/risor-io/risor/object"
	ros "github.com/risor-io/risor/os"
)

// ---------------------------------------------------------------------------------------
// "Nasty" and plain values that scripts apply every builtin and method to.

type value struct {
	ID     string
	Setup  string // statements that build it ("" for literals); %D is replaced by the depth
	Expr   string
	Class  string // cyclic | deep | plain
	Benign string // expression that replaces it in the control variant of a crashed script
}

var values = []value{
	// cyclic data
	{ID: "cyc-list", Setup: `cl := [1]; cl.append(cl)`, Expr: "cl", Class: "cyclic", Benign: "[1, [1]]"},
	{ID: "cyc-map", Setup: `cm := {"a": 1}; cm["self"] = cm`, Expr: "cm", Class: "cyclic", Benign: `{"a": 1, "self": {"a": 1}}`},
	{ID: "cyc-map-in-list", Setup: `xl := [1]; xm := {"l": xl}; xl.append(xm)`, Expr: "xm", Class: "cyclic", Benign: `{"l": [1, {"l": [1]}]}`},
	{ID: "cyc-two-lists", Setup: `ca := [1]; cb := [ca]; ca.append(cb)`, Expr: "ca", Class: "cyclic", Benign: "[1, [[1]]]"},
	// deep data (depth chosen by the plan)
	{ID: "deep-list", Setup: `dl := []; for dli := range %D { dl = [dl] }`, Expr: "dl", Class: "deep", Benign: "[[[]]]"},
	{ID: "deep-map", Setup: `dm := {}; for dmi := range %D { dm = {"k": dm} }`, Expr: "dm", Class: "deep", Benign: `{"k": {"k": {}}}`},
	// containers
	{ID: "list", Expr: `[3, 1, 2]`},
	{ID: "list-empty", Expr: `[]`},
	{ID: "list-mixed", Expr: `[[1, 2], ["a"], {"k": nil}, 1.5, nil, true]`},
	{ID: "list-big", Setup: `bl := []; for bli := range 5000 { bl.append(bli) }`, Expr: "bl"},
	{ID: "map", Expr: `{"a": 1, "b": [1, 2]}`},
	{ID: "map-empty", Expr: `{}`},
	{ID: "set", Expr: `{1, 2}`},
	{ID: "set-empty", Expr: `set()`},
	// strings
	{ID: "str", Expr: `"abc"`},
	{ID: "str-empty", Expr: `""`},
	{ID: "str-format", Expr: `"%v %s %d %q %x %5.2f %T %%"`},
	{ID: "str-bad-utf8", Expr: `string(byte_slice([255, 254, 0, 128]))`},
	{ID: "str-long", Setup: `lstr := strings.repeat("ab", 10000)`, Expr: "lstr"},
	{ID: "str-unicode", Expr: `"héllo, 世界 🎉"`},
	{ID: "str-json", Expr: `"{\"a\": [1, {\"b\": null}]}"`},
	{ID: "str-json-bad", Expr: `"[1, {"`},
	{ID: "str-number", Expr: `"0"`},
	{ID: "str-codec", Expr: `"json"`},
	{ID: "str-regex", Expr: `"(a+)(b*"`},
	{ID: "str-layout", Expr: `"2006-01-02"`},
	// numbers
	{ID: "int-0", Expr: `0`},
	{ID: "int-1", Expr: `1`},
	{ID: "int-neg", Expr: `-1`},
	{ID: "int-3", Expr: `3`},
	{ID: "int-max", Expr: `9223372036854775807`},
	{ID: "int-min", Expr: `(-9223372036854775807 - 1)`},
	{ID: "float", Expr: `1.5`},
	{ID: "float-huge", Expr: `float("1e308")`},
	{ID: "float-inf", Expr: `math.inf()`},
	{ID: "float-neginf", Expr: `(-math.inf())`},
	{ID: "float-nan", Expr: `(math.inf() - math.inf())`},
	{ID: "byte", Expr: `byte(255)`},
	{ID: "bool", Expr: `true`},
	{ID: "nil", Expr: `nil`},
	// byte containers
	{ID: "byte-slice", Expr: `byte_slice([0, 255, 65])`},
	{ID: "buffer", Expr: `buffer("abc")`},
	{ID: "float-slice", Expr: `float_slice([1.5, 2.5])`},
	// channels and threads
	{ID: "chan-closed", Setup: `cc := chan(1); close(cc)`, Expr: "cc"},
	{ID: "chan-open", Setup: `oc := chan(1)`, Expr: "oc"},
	{ID: "thread", Setup: `th := spawn(func() { return 1 })`, Expr: "th"},
	// modules, builtins, functions
	{ID: "module", Expr: `math`},
	{ID: "builtin", Expr: `len`},
	{ID: "bound-method", Expr: `[1].append`},
	{ID: "func-id", Setup: `idf := func(a) { return a }`, Expr: "idf"},
	{ID: "func-0", Setup: `k1 := func() { return 1 }`, Expr: "k1"},
	{ID: "func-2", Setup: `lt := func(a, b=2) { return a < b }`, Expr: "lt"},
	{ID: "func-rec", Setup: `func rf(x) { return rf(x) }`, Expr: "rf"},
	{ID: "func-err", Setup: `func bad(x) { error("bad %v", x) }`, Expr: "bad"},
	// errors, iterators, misc objects
	{ID: "error", Setup: `ev := try(func() { error("boom") }, func(e) { return e })`, Expr: "ev"},
	{ID: "error-new", Expr: `errors.new("boom")`},
	{ID: "iter", Expr: `iter([1, 2, 3])`},
	{ID: "iter-done", Setup: `di := iter([1]); di.next(); di.next()`, Expr: "di"},
	{ID: "int-iter", Expr: `iter(3)`},
	{ID: "time", Expr: `time.now()`},
	{ID: "regexp", Expr: `regexp.compile("a+")`},
	{ID: "file", Expr: `os.stdout`},
}

func valueByID(id string) *value {
	for i := range values {
		if values[i].ID == id {
			return &values[i]
		}
	}
	return nil
}

func (v *value) setup(depth int) string {
	return strings.ReplaceAll(v.Setup, "%D", strconv.Itoa(depth))
}

// ---------------------------------------------------------------------------------------
// Live enumeration of what scripts can call

type callable struct {
	Kind string `json:"kind"` // global | module | method
	Expr string `json:"expr"` // "len", "strings.repeat", "" for methods (Recv + Name)
	Recv string `json:"recv,omitempty"`
	Name string `json:"name,omitempty"`
}

func (c callable) key() string {
	if c.Kind == "method" {
		return "method:" + c.Recv + "." + c.Name
	}
	return c.Kind + ":" + c.Expr
}

type enumOut struct {
	Globals     []string            `json:"globals"`      // every top-level global that is not a module
	Modules     map[string][]string `json:"modules"`      // module -> attribute names
	MethodNames []string            `json:"method_names"` // union of the case literals of all GetAttr methods in the repository
	Methods     map[string][]string `json:"methods"`      // value id -> attribute names answering GetAttr
	Problems    []string            `json:"problems,omitempty"`
	SourceScan  bool                `json:"source_scan"`
}

func repoDir() string {
	if bi, ok := debug.ReadBuildInfo(); ok {
		for _, d := range bi.Deps {
			if d.Path == "github.com/risor-io/risor" && d.Replace != nil && filepath.IsAbs(d.Replace.Path) {
				return d.Replace.Path
			}
		}
	}
	if v := os.Getenv("VERIF_REPO"); v != "" {
		return v
	}
	return "/repo"
}

// attrNamesFromSource collects the string literals of case clauses inside every GetAttr method of the
// repository's object and module packages.
func attrNamesFromSource() ([]string, error) {
	root := repoDir()
	var files []string
	for _, pat := range []string{"object/*.go", "modules/*/*.go", "builtins/*.go"} {
		m, _ := filepath.Glob(filepath.Join(root, pat))
		files = append(files, m...)
	}
	set := map[string]bool{}
	found := 0
	for _, f := range files {
		if strings.HasSuffix(f, "_test.go") {
			continue
		}
		fset := gotoken.NewFileSet()
		pf, err := goparser.ParseFile(fset, f, nil, 0)
		if err != nil {
			continue
		}
		for _, d := range pf.Decls {
			fd, ok := d.(*goast.FuncDecl)
			if !ok || fd.Name.Name != "GetAttr" || fd.Recv == nil || fd.Body == nil {
				continue
			}
			found++
			goast.Inspect(fd.Body, func(n goast.Node) bool {
				cc, ok := n.(*goast.CaseClause)
				if !ok {
					return true
				}
				for _, e := range cc.List {
					if bl, ok := e.(*goast.BasicLit); ok && bl.Kind == gotoken.STRING {
						if sv, err := strconv.Unquote(bl.Value); err == nil {
							set[sv] = true
						}
					}
				}
				return true
			})
		}
	}
	if found == 0 {
		return nil, fmt.Errorf("no GetAttr methods found under %s", root)
	}
	out := make([]string, 0, len(set))
	for n := range set {
		out = append(out, n)
	}
	sort.Strings(out)
	return out, nil
}

// fallback probe list when the repository source cannot be scanned
var fallbackAttrNames = strings.Fields(`append clear copy count each extend filter index insert map pop remove reverse sort keys values items get
 setdefault update add difference intersection union contains has_prefix has_suffix fields join last_index replace_all split to_lower to_upper
 trim trim_prefix trim_space trim_suffix contains_any contains_rune clone equals index_any index_byte index_rune repeat replace
 next entry key value close wait spawn message error is raised code read write seek name stat format unix before after utc
 match find find_all find_submatch split_n len cap string bytes read_string write_string reset truncate`)

func evalValue(v *value, depth int) (obj object.Object, err error) {
	defer func() {
		if r := recover(); r != nil {
			err = fmt.Errorf("go panic while building %s: %v", v.ID, r)
		}
	}()
	ctx, cancel := context.WithTimeout(context.Background(), 10*time.Second)
	defer cancel()
	vos := ros.NewVirtualOS(ctx)
	src := v.setup(depth) + "\n" + v.Expr
	return risor.Eval(ctx, src, risor.WithOS(vos), risor.WithoutGlobals(removedGlobals...), risor.WithConcurrency())
}

func enumerate() *enumOut {
	e := &enumOut{Modules: map[string][]string{}, Methods: map[string][]string{}}
	defer func() {
		if r := recover(); r != nil {
			e.Problems = append(e.Problems, fmt.Sprintf("go panic during enumeration: %v\n%s", r, debug.Stack()))
		}
	}()
	cfg := risor.NewConfig(risor.WithoutGlobals(removedGlobals...), risor.WithConcurrency())
	globals := cfg.Globals()
	names := make([]string, 0, len(globals))
	for n := range globals {
		names = append(names, n)
	}
	sort.Strings(names)
	for _, n := range names {
		if m, ok := globals[n].(*object.Module); ok {
			e.Modules[n] = m.VerifAttrNames()
			continue
		}
		e.Globals = append(e.Globals, n)
	}
	if src, err := attrNamesFromSource(); err == nil {
		e.MethodNames = src
		e.SourceScan = true
	} else {
		e.Problems = append(e.Problems, "source scan failed, fixed probe list used: "+err.Error())
		e.MethodNames = append([]string{}, fallbackAttrNames...)
		sort.Strings(e.MethodNames)
	}
	for i := range values {
		v := &values[i]
		obj, err := evalValue(v, 3)
		if err != nil || obj == nil {
			e.Problems = append(e.Problems, fmt.Sprintf("value %s cannot be built: %v", v.ID, err))
			continue
		}
		var ms []string
		for _, n := range e.MethodNames {
			if _, ok := obj.GetAttr(n); ok {
				ms = append(ms, n)
			}
		}
		e.Methods[v.ID] = ms
	}
	return e
}

func (e *enumOut) callables() []callable {
	var cs []callable
	for _, g := range e.Globals {
		cs = append(cs, callable{Kind: "global", Expr: g})
	}
	mods := make([]string, 0, len(e.Modules))
	for m := range e.Modules {
		mods = append(mods, m)
	}
	sort.Strings(mods)
	for _, m := range mods {
		for _, a := range e.Modules[m] {
			cs = append(cs, callable{Kind: "module", Expr: m + "." + a})
		}
	}
	for i := range values {
		for _, n := range e.Methods[values[i].ID] {
			cs = append(cs, callable{Kind: "method", Recv: values[i].ID, Name: n})
		}
	}
	return cs
}

// ---------------------------------------------------------------------------------------
// Script rendering

type scriptSpec struct {
	Call    *callable `json:"call,omitempty"`
	Op      string    `json:"op,omitempty"` // operation template with $a $b $c
	Args    []string  `json:"args"`         // value ids
	Depth   int       `json:"depth"`
	Variant int       `json:"variant"`           // 0 direct, 1 wrapped in try
	Control string    `json:"control,omitempty"` // "" | "all": cyclic and deep values replaced | "deep": deep values replaced
}

// render builds the script text. In a control variant every cyclic / deep value is replaced by a
// small acyclic value of the same type.
func (s *scriptSpec) render() (src, class, inputClass string) {
	var setups []string
	seen := map[string]bool{}
	classes := map[string]bool{}
	use := func(id string) string {
		v := valueByID(id)
		if v == nil {
			return "nil"
		}
		if v.Class != "" && v.Class != "plain" {
			classes[v.Class] = true
			if s.Control == "all" || s.Control == "deep" && v.Class == "deep" {
				return v.Benign
			}
		}
		if v.Setup != "" && !seen[id] {
			seen[id] = true
			setups = append(setups, v.setup(s.Depth))
		}
		return v.Expr
	}
	var expr, what string
	if s.Call != nil {
		var callee string
		if s.Call.Kind == "method" {
			callee = "(" + use(s.Call.Recv) + ")." + s.Call.Name
		} else {
			callee = s.Call.Expr
		}
		args := make([]string, len(s.Args))
		for i, a := range s.Args {
			args[i] = use(a)
		}
		expr = callee + "(" + strings.Join(args, ", ") + ")"
		what = s.Call.key()
	} else {
		expr = s.Op
		for i, ph := range []string{"$a", "$b", "$c"} {
			if strings.Contains(expr, ph) {
				id := "nil"
				if i < len(s.Args) {
					id = s.Args[i]
				}
				expr = strings.ReplaceAll(expr, ph, use(id))
			}
		}
		what = "op:" + s.Op
	}
	if s.Variant == 1 {
		expr = "try(func() { return " + expr + " }, func(e) { return e })"
	}
	src = strings.Join(setups, "\n")
	if src != "" {
		src += "\n"
	}
	src += expr + "\n"
	class = what + "(" + strings.Join(s.Args, ",") + ")"
	if s.Variant == 1 {
		class += "/try"
	}
	var cl []string
	for _, k := range []string{"cyclic", "deep"} {
		if classes[k] {
			cl = append(cl, k)
		}
	}
	switch {
	case len(cl) == 0:
		inputClass = "plain-data"
	default:
		inputClass = strings.Join(cl, "+") + "-data"
	}
	if s.Control != "" {
		inputClass = "control"
	}
	return
}

// operation templates: every operator and statement form applied to values ($a, $b, $c)
var opTemplates = []string{
	"$a == $b", "$a != $b", "$a < $b", "$a <= $b", "$a > $b", "$a >= $b",
	"$a in $b", "$a not in $b",
	"$a + $b", "$a - $b", "$a * $b", "$a / $b", "$a % $b", "$a ** $b", "$a << $b", "$a >> $b", "$a & $b",
	"$a && $b", "$a || $b", "$a ? $b : $a",
	"$a[$b]", "$a[$b:]", "$a[:$b]", "$a[$b:$c]",
	"va := $a; va[$b] = $c; va", "va := $a; va.attr = $b; va", "va := $a; va += $b; va", "va := $a; va *= $b; va", "va := $a; va++; va",
	"-$a", "!$a", "$a.no_such_attr",
	"'{$a} and {$b}'",
	"{$a: $b}", "{$a, $b}", "[$a, $b] == [$b, $a]", "{\"k\": $a} == {\"k\": $b}", "[$a] < [$b]",
	"sorted([$a, $b])", "sorted([$a, $b, $a], $c)", "[$a, $b].sort()",
	"n := 0; for i, x := range $a { n++; if n > 50 { break } }; n",
	"n := 0; for x := range $a { n++; if n > 50 { break } }; n",
	"$a($b)", "$a($b, $c)", "$a | $b", "$b | $a | $c",
	"switch $a { case $b: 1\n case $c: 2\n default: 3 }",
	"x, y := $a; [x, y]", "x, y = [$a, $b]; x",
	"func f(p, q=$b) { return [p, q] }; f($a)", "func g(p) { return func() { return p } }; g($a)()",
	"defer func() { print($a) }(); $b",
	"try(func() { error($a) }, func(e) { return [e, e.message(), string(e), e == $b] })",
	"try(func() { error(\"%v %s %d\", $a, $b, $c) }, func(e) { return string(e) })",
	"error($a)",
	"$a.each($b)", "[$a, $b].map($c)", "[$a, $b].filter($c)", "[$a, $b].each(func(x) { return x == $c })",
	"string($a) + string($b)", "print($a, $b)", "printf(\"%v %s %d %q %T\\n\", $a, $b, $c, $a, $b)", "sprintf(\"%v|%s|%d|%x|%5.1f\", $a, $b, $c, $a, $b)",
	"json.marshal([$a, $b])", "json.marshal({\"k\": $a})", "encode($a, \"json\")", "encode([$a, $b], $c)", "decode(encode($a, \"json\"), \"json\")",
	"$a.copy() == $a", "hash(string($a))", "keys($a)", "len($a)", "type($a)", "bool($a)", "list($a)", "set($a)", "map($a)",
	"m := {}; m[$a] = $b; m[$a]", "s := set(); s.add($a); s.add($b); $a in s", "delete($a, $b)",
	"go $a($b)", "c := chan(2); c <- $a; c <- $b; [<-c, <-c]", "$a <- $b", "<-$a",
	"l := [$a, $b]; l.append(l); l.index($c)", "l := [$a]; l.extend([$b, l]); l.count($c)", "m := {\"k\": $a}; m[\"m\"] = m; m.get($b)",
	"spawn($a, $b).wait()", "th := spawn(func() { return $a }); th.wait() == $b",
	"assert($a, $b)", "cat := try(func() { return $a + $b }, func(e) { return $c }); cat",
}

// controlOf returns the control variant of a script (nasty values replaced by benign ones).
func controlOf(s scriptSpec, kind string) scriptSpec {
	s.Control = kind
	return s
}

// ---------------------------------------------------------------------------------------
// Special scripts: recursion of every kind, recovery after overflow, threads sharing containers

type special struct {
	Name       string
	Src        string
	InputClass string
	Conc       bool
	DeadlineMS int
	Call       bool // also risor.Call the functions it declares
}

func specialScripts(thorough bool) []special {
	var out []special
	add := func(name, icls, src string) { out = append(out, special{Name: name, Src: src, InputClass: icls}) }
	rec := "unbounded-recursion"
	add("recursion-direct", rec, `func f() { f() }; f()`)
	add("recursion-return", rec, `func f(n) { return f(n + 1) }; f(0)`)
	add("recursion-args", rec, `func f(a, b, c, d) { return f(b, c, d, a) + 1 }; f(1, 2, 3, 4)`)
	add("recursion-mutual", rec, `func a() { return b() }; func b() { return a() }; a()`)
	add("recursion-closure", rec, `f := nil; f = func() { return f() }; f()`)
	add("recursion-locals", rec, `func f(n) { a := n; b := [a]; c := {"k": b}; return f(n + 1) }; f(0)`)
	add("recursion-list-map", rec, `func f(x) { return [1].map(f) }; f(1)`)
	add("recursion-list-each", rec, `func f(x) { [1].each(f) }; f(1)`)
	add("recursion-list-filter", rec, `func f(x) { return [1].filter(f) }; f(1)`)
	add("recursion-sorted-cmp", rec, `func c(a, b) { sorted([2, 1], c); return a < b }; sorted([2, 1], c)`)
	add("recursion-sort-method-cmp", rec, `func c(a, b) { [2, 1].sort(c); return a < b }; [2, 1].sort(c)`)
	add("recursion-try-body", rec, `func f() { return try(f) }; f()`)
	add("recursion-try-handler", rec, `func f(e) { return try(func() { error("x") }, f) }; f(1)`)
	add("recursion-call-builtin", rec, `func f() { return call(f) }; f()`)
	add("recursion-defer", rec, `func f() { defer f() }; f()`)
	add("recursion-defer-closure", rec, `func f() { defer func() { f() }() }; f()`)
	add("recursion-template", rec, `func f() { return '{f()}' }; f()`)
	add("recursion-pipe", rec, `func f(x) { return x | f }; f(1)`)
	add("recursion-default-arg", rec, `func f(a=1) { return f() }; f()`)
	add("recursion-partial-go", rec, `func f() { go f() }; f()`)
	add("recursion-each-map", rec, `func f(k) { {"a": 1}.each(f) }; f(1)`)
	add("recursion-set-each", rec, `func f(k) { {1}.each(f) }; f(1)`)
	add("recursion-spawn-args", rec, `func f(x) { return spawn(f, x) }; f(1)`)
	add("recursion-iter-callback", rec, `func f(x) { for y := range [1] { f(y) } }; f(1)`)
	add("recursion-string-fields-func", rec, `func f(x) { return "a b".fields().map(f) }; f(1)`)
	for _, n := range []int{100, 1000, 1020, 1022, 1023, 1024, 1025, 1100, 5000, 100000} {
		add(fmt.Sprintf("recursion-bounded-%d", n), "bounded-recursion", fmt.Sprintf(`func f(n) { if n == 0 { return 0 }; return 1 + f(n - 1) }; f(%d)`, n))
		add(fmt.Sprintf("recursion-bounded-callback-%d", n), "bounded-recursion", fmt.Sprintf(`func f(n) { if n == 0 { return [0] }; return [n].map(func(x) { return f(x - 1) }) }; len(f(%d))`, n))
	}
	add("overflow-then-continue", rec, `func f() { f() }; try(f); func g(n) { if n == 0 { return 0 }; return 1 + g(n - 1) }; g(500)`)
	add("overflow-in-loop", rec, `func f() { f() }; n := 0; for i := range 50 { try(f, func(e) { n++ }) }; n`)
	add("overflow-handler-string", rec, `func f() { f() }; try(f, func(e) { return string(e) })`)
	add("overflow-with-defer", rec, `func f() { defer func() { 1 }(); f() }; f()`)
	add("overflow-operand-stack", "stack-filling", `func f(n) { return [n, [n, [n, [n, [n, [n, [n, [n, f(n + 1)]]]]]]]] }; f(0)`)
	add("overflow-callback-operand-stack", "stack-filling", `func f(n) { return [1, 2, 3, 4, 5, 6, 7, 8].map(func(x) { return [x, x, x, x, f(n + 1)] }) }; f(0)`)
	add("try-around-cyclic-eq", "cyclic-data", `try(func() { l := [1]; l.append(l); return l == l }, func(e) { return "caught" })`)
	add("try-around-cyclic-json", "cyclic-data", `try(func() { m := {}; m["m"] = m; return json.marshal(m) }, func(e) { return "caught" })`)
	add("cyclic-result-list", "cyclic-data", `l := [1]; l.append(l); l`)
	add("cyclic-result-map", "cyclic-data", `m := {"a": 1}; m["self"] = m; m`)
	add("cyclic-result-nested", "cyclic-data", `l := [1]; m := {"l": l}; l.append(m); [m, l]`)
	add("cyclic-error-value", "cyclic-data", `l := [1]; l.append(l); error("%v", l)`)
	add("cyclic-error-arg", "cyclic-data", `l := [1]; l.append(l); error(l)`)
	add("cyclic-closure-default", "cyclic-data", `l := [1]; l.append(l); func f(a=1) { return l }; f`)
	add("cyclic-print", "cyclic-data", `l := [1]; l.append(l); print(l); printf("%v %s\n", l, l); sprintf("%v", l)`)
	add("cyclic-set-attempt", "cyclic-data", `s := {1}; s.add(s)`)
	add("cyclic-map-key-attempt", "cyclic-data", `m := {}; m[m] = m`)
	add("cyclic-function-default", "cyclic-data", `func f(a=f) { return a }; f()`)
	// a list that holds its own bound map method: builtin calls builtin, no script frame in between
	add("cyclic-builtin-callback", "cyclic-data", `l := [0]; m := l.map; l[0] = m; m(m)`)
	add("cyclic-builtin-callback-try", "cyclic-data", `try(func() { l := [0]; m := l.map; l[0] = m; return m(m) }, func(e) { return "caught" })`)
	add("cyclic-builtin-callback-each", "cyclic-data", `l := [0]; e := l.each; l[0] = e; e(e)`)
	add("cyclic-builtin-callback-filter", "cyclic-data", `l := [0]; f := l.filter; l[0] = f; f(f)`)
	// parameters whose declared default is nil, left unfilled at the call
	for i, src := range []string{
		`func f(a, b=1, c=nil) { return [a, b, c] }; f(7, 8)`,
		`func f(a, b=1, c=nil) { return c }; f(7, 8)`,
		`func f(a, b=1, c=nil) { return {"c": c} }; f(7, 8)`,
		`func f(a, b=1, c=nil) { return '{c}' }; f(7, 8)`,
		`func f(a, b=1, c=nil) { return c == nil }; f(7, 8)`,
		`func f(a, b=1, c=nil) { return func() { return c } }; f(7, 8)()`,
		`func f(a, b="x", c=nil, d=nil) { return [c, d] }; f(1, "y")`,
		`func f(a, b=1, c=nil) { return type(c) }; f(7, 8)`,
		`func f(a, b=1, c=nil) { print(c); return string(c) }; f(7, 8)`,
		`f := func(a, b=2.5, c=nil) { return [c].map(func(x) { return x }) }; f(1, 2)`,
		`func f(a, b=1, c=nil) { return sorted([c, c]) }; try(func() { return f(7, 8) }, func(e) { return "caught" })`,
		`func f(a=nil, b=1) { return [a, b] }; [f(3), try(func() { return f() }, func(e) { return "args" })]`,
	} {
		add(fmt.Sprintf("nil-default-unfilled-%d", i), "nil-default", src)
	}
	// iterators whose container changed under them: whatever they yield must be a complete value
	for i, src := range []string{
		`m := {"a": 1, "b": 2, "c": 3}; it := iter(m); it.next(); delete(m, "a"); it.entry()`,
		`m := {"a": 1, "b": 2, "c": 3}; it := iter(m); it.next(); delete(m, "a"); [it.entry().key, it.entry().value]`,
		`m := {"a": 1, "b": 2, "c": 3}; it := iter(m); it.next(); m.clear(); [it.entry(), it.next()]`,
		`m := {"a": 1, "b": 2, "c": 3}; last := 0; for k, v := range m { delete(m, "c"); last = v }; last`,
		`m := {"a": 1, "b": 2, "c": 3}; acc := []; for k, v := range m { delete(m, "b"); delete(m, "c"); acc.append([k, v]) }; acc`,
		`m := {"a": 1, "b": 2}; acc := []; for k := range m { m.pop("b", 0); acc.append(m.get(k)) }; acc`,
		`s := {1, 2, 3}; it := iter(s); it.next(); s.remove(1); [it.entry(), it.next()]`,
		`s := {1, 2, 3}; acc := []; for i, x := range s { s.remove(3); acc.append([i, x]) }; acc`,
		`l := [1, 2, 3]; it := iter(l); it.next(); l.clear(); [it.entry(), it.next()]`,
		`l := [1, 2, 3]; acc := []; for i, x := range l { l.pop(); acc.append([i, x]) }; acc`,
		`x := "héllo"; it := iter(x); it.next(); [it.entry(), it.entry().key, it.entry().value]`,
		`m := {"a": [1]}; it := iter(m); it.next(); e := it.entry(); delete(m, "a"); [e, e.value, it.entry()]`,
		`it := iter({}); [it.next(), it.entry()]`, `it := iter([]); [it.next(), it.entry()]`, `it := iter({"k": nil}); it.next(); it.entry()`,
	} {
		add(fmt.Sprintf("iterator-after-mutation-%d", i), "iterator-after-mutation", src)
	}
	add("sprintf-width", "format-width", `len(sprintf("%2000000d", 1))`)
	add("sprintf-precision", "format-width", `len(sprintf("%.2000000f", 1.5))`)
	add("many-threads", "threads", `ts := []; for i := range 500 { ts.append(spawn(func(x) { return x * 2 }, i)) }; ts.map(func(t) { return t.wait() }) | len`)
	add("thread-error", "threads", `t := spawn(func() { error("in thread") }); try(func() { return t.wait() }, func(e) { return string(e) })`)
	add("thread-index-panic", "threads", `t := spawn(func() { return [][5] }); t.wait()`)
	add("thread-overflow", "threads", `func f() { f() }; t := spawn(f); t.wait()`)
	add("go-overflow", "threads", `func f() { f() }; go f(); time.sleep(0.05)`)
	add("go-error", "threads", `go func() { error("x") }(); time.sleep(0.02)`)
	add("go-nil-call", "threads", `f := nil; go f(); time.sleep(0.02)`)
	add("chan-close-twice", "threads", `c := chan(1); close(c); close(c)`)
	add("chan-send-closed", "threads", `c := chan(1); close(c); c <- 1`)
	add("chan-send-closed-in-thread", "threads", `c := chan(); t := spawn(func() { c <- 1 }); close(c); t.wait()`)
	add("chan-range-closed", "threads", `c := chan(2); c <- 1; c <- 2; close(c); n := 0; for x := range c { n += x }; n`)
	shared := "shared-container-in-threads"
	add("threads-map-set", shared, `m := {}; func w() { for i := range 200000 { m[string(i)] = i } }; t1 := spawn(w); t2 := spawn(w); t1.wait(); t2.wait(); len(m)`)
	add("threads-map-read-write", shared, `m := {"a": 1}; func w() { for i := range 200000 { m[string(i)] = i } }; func r() { n := 0; for i := range 400000 { n += len(m.get("a", 0) == 1 ? "x" : "") }; return n }; t1 := spawn(w); t2 := spawn(r); t1.wait(); t2.wait(); 1`)
	add("threads-map-iterate-write", shared, `m := {"a": 1}; func w() { for i := range 200000 { m[string(i)] = i } }; func r() { n := 0; for j := range 200 { for k, v := range m { n++ } }; return n }; t1 := spawn(w); t2 := spawn(r); t1.wait(); t2.wait(); 1`)
	add("threads-set-add", shared, `s := {0}; func w() { for i := range 200000 { s.add(i) } }; t1 := spawn(w); t2 := spawn(w); t1.wait(); t2.wait(); len(s)`)
	add("threads-list-append", shared, `l := []; func w() { for i := range 200000 { l.append(i) } }; t1 := spawn(w); t2 := spawn(w); t1.wait(); t2.wait(); len(l) > 0`)
	add("threads-list-pop-append", shared, `l := [1, 2, 3]; func w() { for i := range 200000 { l.append(i); l.pop(0) } }; t1 := spawn(w); t2 := spawn(w); t1.wait(); t2.wait(); 1`)
	add("threads-buffer-write", shared, `b := buffer(); func w() { for i := range 100000 { b.write("x") } }; t1 := spawn(w); t2 := spawn(w); t1.wait(); t2.wait(); 1`)
	add("threads-global-assign", shared, `g := 0; func w() { for i := range 200000 { g = g + 1 } }; t1 := spawn(w); t2 := spawn(w); t1.wait(); t2.wait(); g > 0`)
	add("threads-map-delete", shared, `m := {}; func w() { for i := range 100000 { m["k"] = i; delete(m, "k") } }; t1 := spawn(w); t2 := spawn(w); t1.wait(); t2.wait(); 1`)
	// functions that are only declared: risor.Call invokes them (first one without, second with one argument)
	call := func(name, icls, src string) {
		out = append(out, special{Name: name, Src: src, InputClass: icls, Call: true})
	}
	call("call-unset-global", "plain-data", `if false { func f() { return 1 } }`)
	call("call-unset-global-expr", "plain-data", `v := true || func f() { return 1 }`)
	call("call-recursion", rec, `func f() { return f() }`)
	call("call-recursion-callback", rec, `func f() { return [1].map(func(x) { return f() }) }`)
	call("call-operand-overflow", "stack-filling", `func f() { return g(0) }; func g(n) { return [n, [n, [n, [n, [n, [n, [n, [n, g(n + 1)]]]]]]]] }`)
	call("call-error", "plain-data", `func f() { error("boom") }; func g(x) { return x.nope }`)
	call("call-cyclic-result", "cyclic-data", `func f() { l := [1]; l.append(l); return len(l) }; func g(x) { m := {"k": x}; m["m"] = m; return len(m) }`)
	call("call-closure-deep", "plain-data", `func f() { a := 1; return func() { return func() { return a }() }() }; func g(x) { return func() { return func() { return func() { return x } } }()()() }`)
	call("call-arity", "plain-data", `func f(a, b, c) { return a }; func g() { return 1 }`)
	call("call-defer-panic", rec, `func f() { defer func() { f() }(); return 1 }`)
	call("call-spawn", "threads", `func f() { return spawn(func() { return f }).wait() }; func g(x) { t := spawn(g, x); return 1 }`)
	for i := range out {
		out[i].Conc = true
		out[i].DeadlineMS = 1500
		if strings.HasPrefix(out[i].Name, "threads-") || strings.HasPrefix(out[i].Name, "recursion-bounded-") || strings.HasPrefix(out[i].Name, "sprintf-") {
			out[i].DeadlineMS = 8000
		}
		if strings.Contains(out[i].Name, "defer") {
			out[i].DeadlineMS = 25000 // filling a 1 GB native stack takes a few seconds
		}
	}
	_ = thorough
	return out
}
