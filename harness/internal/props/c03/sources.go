package c03

import (
	"fmt"
	"os"
	"path/filepath"
	"sort"
	"strconv"
	"strings"
	"sync"
	"unicode/utf8"

	"verif/internal/eng"
	"verif/internal/gen"
	"verif/internal/mon"
)

// spec determines one generated source text: genSource(spec) is a pure function, so the driver can
// regenerate the input that a worker was given.
type spec struct {
	Fam  string `json:"f"`
	Seed uint64 `json:"s,omitempty"`
	A    int    `json:"a,omitempty"`
	B    int    `json:"b,omitempty"`
	C    int    `json:"c,omitempty"`
}

type genOut struct {
	Src   string
	Class string
}

func genSource(s spec) genOut {
	switch s.Fam {
	case "soup":
		return genSoup(s)
	case "mut":
		return genMut(s)
	case "bytes":
		return genBytes(s)
	case "fixed":
		return genFixed(s)
	case "deep":
		return genDeep(s)
	case "restrict":
		return genRestrict(s)
	case "lex":
		return genLex(s)
	case "clauses":
		return genClauses(s)
	}
	return genOut{Src: "", Class: "unknown-family:" + s.Fam}
}

// ---------------------------------------------------------------------------------------
// The token alphabet: every token type of token/token.go with at least one spelling, keywords,
// literal forms, and characters the lexer rejects.

var keywordsList = []string{"as", "break", "case", "const", "continue", "default", "defer", "else", "false", "for", "from", "func", "go", "if",
	"import", "in", "nil", "not", "range", "return", "struct", "switch", "true", "var"}

var operatorsList = []string{"&&", "=", "*", "*=", "!", ":", ",", ":=", "==", ">", ">>", ">=", "{", "[", "(", "<", "<<", "<=", "-", "-=", "--", "%", "!=",
	"|", "||", ".", "+", "&", "+=", "++", "**", "?", "}", "]", ")", ";", "<-", "/", "/=", "\n", "...", "=>", "->", "~", "^", "|>", "::", "??", "@", "#", "$", "\\"}

var literalsList = []string{"0", "1", "42", "007", "0x1f", "0b101", "0o17", "1.5", "1e9", "1.", ".5", "9223372036854775808", "1_000",
	`"s"`, `""`, `'t'`, `'{x}'`, `'{x + 1} and {y}'`, "`raw`", `"a\nb"`, `"\x41é"`, `'{'`, `"unterminated`, `'open {x`, "`open",
	"x", "y", "foo", "_", "len", "print", "math", "é", "x1", "/* c */", "// c\n", "# c\n"}

var alphabet = func() []string {
	var a []string
	a = append(a, keywordsList...)
	a = append(a, operatorsList...)
	a = append(a, literalsList...)
	return a
}()

var kwSet = func() map[string]bool {
	m := map[string]bool{}
	for _, k := range keywordsList {
		m[k] = true
	}
	return m
}()

// tokCat is the class of one token used in token-shape classes: keywords and operators by their
// spelling, the rest by kind.
func tokCat(t string) string {
	switch {
	case t == "":
		return "empty"
	case t == "\n":
		return "NL"
	case kwSet[t]:
		return t
	case t[0] == '"':
		return "str"
	case t[0] == '\'':
		if strings.Contains(t, "{") {
			return "tmpl"
		}
		return "sstr"
	case t[0] == '`':
		return "raw"
	case t[0] >= '0' && t[0] <= '9':
		if strings.ContainsAny(t, ".eE") && !strings.HasPrefix(t, "0x") {
			return "float"
		}
		return "int"
	case strings.HasPrefix(t, "/*") || strings.HasPrefix(t, "//") || strings.HasPrefix(t, "#"):
		return "comment"
	case t[0] == '_' || t[0] >= 'a' && t[0] <= 'z' || t[0] >= 'A' && t[0] <= 'Z' || t[0] >= 0x80:
		return "ident"
	}
	return t
}

// coarse category for token soup classes
func coarseCat(t string) string {
	c := tokCat(t)
	switch c {
	case "if", "else", "for", "switch", "case", "default", "break", "continue", "return", "range", "in", "not":
		return "kw-ctl"
	case "func", "var", "const", "import", "from", "as", "struct", "go", "defer":
		return "kw-decl"
	case "true", "false", "nil", "int", "float", "str", "sstr", "raw":
		return "lit"
	case "tmpl":
		return "tmpl"
	case "ident":
		return "ident"
	case "comment":
		return "comment"
	case "NL", ";", ",":
		return "sep"
	case "(", "[", "{":
		return "open"
	case ")", "]", "}":
		return "close"
	case "=", ":=", "+=", "-=", "*=", "/=", "++", "--":
		return "assign"
	case "!", "-":
		return "unary"
	case ".", ":", "?", "|", "<-":
		return "punct"
	case "...", "=>", "->", "~", "^", "|>", "::", "??", "@", "#", "$", "\\":
		return "illegal"
	}
	return "binop"
}

// ---------------------------------------------------------------------------------------
// token soup

func genSoup(s spec) genOut {
	r := mon.NewRand(s.Seed).SplitN(s.A)
	var n int
	switch r.Intn(10) {
	case 0, 1, 2, 3:
		n = r.Range(1, 6)
	case 4, 5, 6, 7:
		n = r.Range(7, 20)
	default:
		n = r.Range(21, 60)
	}
	// a "theme" restricts part of the soups to a sub-alphabet so that they get deeper into one production
	pool := alphabet
	switch r.Intn(6) {
	case 0:
		pool = append(append([]string{}, keywordsList...), "x", "{", "}", "(", ")", "\n", ";", "1", ",", ":", "=", ":=")
	case 1:
		pool = []string{"x", "1", "(", ")", "[", "]", "{", "}", ",", ":", ".", "+", "-", "!", "?", "|", "<-", "in", "not", "func", "\n"}
	case 2:
		pool = []string{"switch", "case", "default", ":", "{", "}", "x", "1", "\n", ";", "break", "if", "else", "return", "for", "range", "continue", ","}
	}
	var sb strings.Builder
	cats := map[string]bool{}
	for i := 0; i < n; i++ {
		t := mon.Pick(r, pool)
		cats[coarseCat(t)] = true
		if i > 0 {
			switch k := r.Intn(20); {
			case k < 14:
				sb.WriteByte(' ')
			case k < 16:
				sb.WriteByte('\n')
			case k < 17:
				sb.WriteByte('\t')
			}
		}
		sb.WriteString(t)
	}
	keys := make([]string, 0, len(cats))
	for k := range cats {
		keys = append(keys, k)
	}
	sort.Strings(keys)
	return genOut{Src: sb.String(), Class: "soup:" + strings.Join(keys, ",")}
}

// ---------------------------------------------------------------------------------------
// corpus of valid programs: generated ones (A >= 0: program index) and the repository's own example
// and test sources (A < 0: file -(A+1) of the sorted list), read at run time

type chunk struct {
	Gap  string // spaces, tabs, comments before the token
	Text string
}

// split cuts a source text into lexical chunks with a scanner of its own (independent of the lexer
// under test): newline is a token, spaces/tabs/comments are gaps.
func split(src string) []chunk {
	var out []chunk
	i := 0
	gapStart := 0
	emit := func(from, to int) {
		out = append(out, chunk{Gap: src[gapStart:from], Text: src[from:to]})
		gapStart = to
	}
	isIdent := func(c byte) bool {
		return c == '_' || c >= 'a' && c <= 'z' || c >= 'A' && c <= 'Z' || c >= '0' && c <= '9' || c >= 0x80
	}
	for i < len(src) {
		c := src[i]
		switch {
		case c == ' ' || c == '\t' || c == '\r':
			i++
		case c == '\n':
			emit(i, i+1)
			i++
		case c == '/' && i+1 < len(src) && src[i+1] == '/', c == '#':
			for i < len(src) && src[i] != '\n' {
				i++
			}
		case c == '/' && i+1 < len(src) && src[i+1] == '*':
			j := strings.Index(src[i+2:], "*/")
			if j < 0 {
				i = len(src)
			} else {
				i += j + 4
			}
		case c == '"' || c == '\'' || c == '`':
			j := i + 1
			for j < len(src) && src[j] != c {
				if src[j] == '\\' && c != '`' {
					j++
				}
				j++
			}
			if j < len(src) {
				j++
			} else {
				j = len(src)
			}
			emit(i, j)
			i = j
		case c >= '0' && c <= '9':
			j := i
			for j < len(src) && (isIdent(src[j]) || src[j] == '.' && j+1 < len(src) && src[j+1] >= '0' && src[j+1] <= '9') {
				j++
			}
			emit(i, j)
			i = j
		case isIdent(c):
			j := i
			for j < len(src) && isIdent(src[j]) {
				j++
			}
			emit(i, j)
			i = j
		default:
			j := i + 1
			for _, l := range []int{3, 2} {
				if i+l <= len(src) {
					cand := src[i : i+l]
					for _, op := range operatorsList {
						if op == cand {
							j = i + l
						}
					}
					if j != i+1 {
						break
					}
				}
			}
			emit(i, j)
			i = j
		}
	}
	return out
}

func join(cs []chunk) string {
	var sb strings.Builder
	for _, c := range cs {
		sb.WriteString(c.Gap)
		sb.WriteString(c.Text)
	}
	return sb.String()
}

var (
	repoOnce  sync.Once
	repoFiles []string
)

// repoSources lists the repository's own risor sources (sorted paths relative to the repository).
func repoSources() []string {
	repoOnce.Do(func() {
		root := repoDir()
		for _, sub := range []string{"examples", "tests", "cmd"} {
			_ = filepath.WalkDir(filepath.Join(root, sub), func(p string, d os.DirEntry, err error) error {
				if err != nil || d.IsDir() {
					return nil
				}
				switch filepath.Ext(p) {
				case ".risor", ".rsr", ".tm":
					if fi, err := d.Info(); err == nil && fi.Size() > 0 && fi.Size() < 64<<10 {
						rel, _ := filepath.Rel(root, p)
						repoFiles = append(repoFiles, rel)
					}
				}
				return nil
			})
		}
		sort.Strings(repoFiles)
	})
	return repoFiles
}

type corpusEntry struct {
	Origin string // gen | repo
	Name   string
	Src    string
	Toks   []chunk
}

var (
	corpusMu    sync.Mutex
	corpusCache = map[string]*corpusEntry{}
)

func corpus(seed uint64, a int) *corpusEntry {
	key := fmt.Sprintf("%d/%d", seed, a)
	corpusMu.Lock()
	defer corpusMu.Unlock()
	if e, ok := corpusCache[key]; ok {
		return e
	}
	if len(corpusCache) > 64 {
		corpusCache = map[string]*corpusEntry{}
	}
	e := &corpusEntry{}
	if a >= 0 {
		p, _ := eng.Batch{Seed: seed, Mix: -1}.Program(a)
		e.Origin, e.Name = "gen", fmt.Sprintf("gen-%d", a)
		e.Src = gen.RenderProgram(p)
	} else {
		files := repoSources()
		i := -(a + 1)
		e.Origin = "repo"
		if i < len(files) {
			e.Name = files[i]
			b, _ := os.ReadFile(filepath.Join(repoDir(), files[i]))
			e.Src = string(b)
		}
	}
	e.Toks = split(e.Src)
	corpusCache[key] = e
	return e
}

const (
	mutPrefix = iota
	mutDelete
	mutDup
	mutSub
	mutSwap
	mutInsert
	mutNewline // a line break inserted in the gap before the token
	mutWhole   // the unmodified program
	mutKinds
)

var mutNames = []string{"prefix", "del", "dup", "sub", "swap", "ins", "nl", "whole"}

// genMut: A = corpus entry, B = mutation kind, C = token position; the substitute / inserted token
// is drawn from the alphabet by (Seed, A, B, C).
func genMut(s spec) genOut {
	e := corpus(s.Seed, s.A)
	n := len(e.Toks)
	if n == 0 {
		return genOut{Src: e.Src, Class: "mut-" + e.Origin + ":empty"}
	}
	pos := s.C % n
	if pos < 0 {
		pos = 0
	}
	r := mon.NewRand(s.Seed).SplitN(s.A + 7919*s.B).SplitN(s.C)
	cp := make([]chunk, 0, n+1)
	at := tokCat(e.Toks[pos].Text)
	class := "mut-" + e.Origin + ":" + mutNames[s.B%mutKinds] + ":" + at
	switch s.B % mutKinds {
	case mutPrefix:
		cp = append(cp, e.Toks[:pos+1]...)
	case mutDelete:
		cp = append(cp, e.Toks[:pos]...)
		cp = append(cp, e.Toks[pos+1:]...)
	case mutDup:
		cp = append(cp, e.Toks[:pos+1]...)
		cp = append(cp, chunk{Gap: " ", Text: e.Toks[pos].Text})
		cp = append(cp, e.Toks[pos+1:]...)
	case mutSub:
		t := mon.Pick(r, alphabet)
		cp = append(cp, e.Toks[:pos]...)
		cp = append(cp, chunk{Gap: e.Toks[pos].Gap + " ", Text: t + " "})
		cp = append(cp, e.Toks[pos+1:]...)
		class += ">" + tokCat(t)
	case mutSwap:
		cp = append(cp, e.Toks...)
		q := pos + 1
		if q >= n {
			q = 0
		}
		cp[pos], cp[q] = chunk{Gap: cp[pos].Gap + " ", Text: cp[q].Text}, chunk{Gap: cp[q].Gap + " ", Text: cp[pos].Text}
		class += "," + tokCat(e.Toks[q].Text)
	case mutInsert:
		t := mon.Pick(r, alphabet)
		cp = append(cp, e.Toks[:pos]...)
		cp = append(cp, chunk{Gap: " ", Text: t + " "})
		cp = append(cp, e.Toks[pos:]...)
		class += "<" + tokCat(t)
	case mutNewline:
		cp = append(cp, e.Toks[:pos]...)
		prev := "start"
		if pos > 0 {
			prev = tokCat(e.Toks[pos-1].Text)
		}
		nl := "\n"
		if r.Intn(8) == 0 {
			nl = mon.Pick(r, []string{"\r\n", "\r", "\n\n", "\n// c\n", " /* c\n */ "})
		}
		cp = append(cp, chunk{Gap: e.Toks[pos].Gap + nl, Text: e.Toks[pos].Text})
		cp = append(cp, e.Toks[pos+1:]...)
		class = "mut-" + e.Origin + ":nl:" + prev + "|" + at
	case mutWhole:
		cp = append(cp, e.Toks...)
		class = "mut-" + e.Origin + ":whole:" + e.Name
	}
	return genOut{Src: join(cp), Class: class}
}

// ---------------------------------------------------------------------------------------
// raw bytes and invalid UTF-8

var badSeqs = []string{"\xff", "\xfe\xff", "\xc0\x80", "\xed\xa0\x80", "\xf8\x88\x80\x80\x80", "\xe2\x82", "\x00", "\xef\xbb\xbf", "\u2028", " ", "\ufeff", "\u202e",
	"\u0301", "\U0001F389", "\U0010FFFF", "\xf4\x90\x80\x80", "\r", "\r\n", "\x0b", "\x0c", "\x1b[31m", "\x7f", "\x80", "\xbf"}

var byteSeeds = []string{
	"x := 1\nprint(x)\n", `s := "héllo"` + "\n", "func f(a, b) {\n\treturn a + b\n}\nf(1, 2)\n", `'{x} {y}'`, "[1, 2, 3].map(func(x) { return x * 2 })",
	"if x > 1 {\n  y\n} else {\n  z\n}\n", `m := {"a": 1, "b": [1, 2]}`, "for i := range 10 { print(i) }", "switch x {\ncase 1:\n  a\ndefault:\n  b\n}\n", "import math\nmath.abs(-1)\n",
	"`raw\nstring`", "x.y.z(1)[2]", "/* comment */ x // trailing\n", "a, b := [1, 2]\n", "const c = 1.5e3\n",
}

func genBytes(s spec) genOut {
	r := mon.NewRand(s.Seed).SplitN(s.A)
	mode := s.A % 5
	var b []byte
	switch mode {
	case 0: // uniformly random bytes
		n := r.Range(1, 120)
		b = make([]byte, n)
		for i := range b {
			b[i] = byte(r.Intn(256))
		}
	case 1: // bytes from the characters that steer the lexer
		set := []byte("\"'`{}()[]\\/*#\n\r\t 0123456789.xeEb_azAZ+-<>=!&|%?:;,\x00\x80\xc3\xa9\xff")
		n := r.Range(1, 80)
		b = make([]byte, n)
		for i := range b {
			b[i] = set[r.Intn(len(set))]
		}
	case 2: // a valid snippet with some bytes overwritten
		b = []byte(mon.Pick(r, byteSeeds))
		for k := r.Range(1, 4); k > 0; k-- {
			b[r.Intn(len(b))] = byte(r.Intn(256))
		}
	case 3: // a valid snippet with hostile sequences inserted
		src := mon.Pick(r, byteSeeds)
		for k := r.Range(1, 3); k > 0; k-- {
			p := r.Intn(len(src) + 1)
			src = src[:p] + mon.Pick(r, badSeqs) + src[p:]
		}
		b = []byte(src)
	case 4: // a valid snippet cut at a random byte (also inside multi-byte characters) or with a byte removed
		src := mon.Pick(r, byteSeeds)
		if r.Bool() {
			b = []byte(src[:r.Intn(len(src)+1)])
		} else {
			p := r.Intn(len(src))
			b = []byte(src[:p] + src[p+1:])
		}
	}
	valid := "valid-utf8"
	if !utf8.Valid(b) {
		valid = "invalid-utf8"
	}
	first := "empty"
	if len(b) > 0 {
		switch c := b[0]; {
		case c < 0x20:
			first = "ctl"
		case c >= 0x80:
			first = "high"
		case c >= '0' && c <= '9':
			first = "digit"
		case c == '"' || c == '\'' || c == '`':
			first = "quote"
		case c == '_' || c >= 'a' && c <= 'z' || c >= 'A' && c <= 'Z':
			first = "letter"
		default:
			first = "punct"
		}
	}
	return genOut{Src: string(b), Class: fmt.Sprintf("bytes:%d:%s:%s", mode, valid, first)}
}

// ---------------------------------------------------------------------------------------
// fixed lists: unterminated literals, numeric edge literals, escapes, hostile snippets × contexts

type snippet struct {
	Group string
	Text  string
}

var fixedSnippets = func() []snippet {
	var out []snippet
	add := func(group string, texts ...string) {
		for _, t := range texts {
			out = append(out, snippet{group, t})
		}
	}
	add("unterminated", `'{`, `'{x`, `'{x}`, `'{x} {`, `'{{`, `'{}'`, `'{ }'`, `'{x'`, `'{'}'`, `'{"}'`, `'{'{x}'}'`, `'{ "a" }'`, `'{ 'a' }'`, `'{x +}'`, `'{func(){}}'`, `'{x}{y}{`, `'\{x}'`, `'{x\}'`, `'{{x}}'`, `'}'`,
		`"abc`, `"abc\`, `"abc\"`, `'abc`, "`abc", "`abc\ndef", "\"abc\ndef\"", "'abc\ndef'", "`", `"`, `'`, `"\`, `'\`,
		`/*`, `/* `, `/* a`, `/* /* */`, `/**/`, `/*/`, `*/`, `//`, `#`, `// x`, "/* a\nb\nc", "x /* a\nb */ y", "x /*", "x //",
		`(`, `[`, `{`, `)`, `]`, `}`, `(]`, `[)`, `{)`, `([{`, `}])`, `{"a":`, `{"a"`, `{"a": 1,`, `[1,`, `[1 2]`, `f(`, `f(1,`, `f(,)`, `x[`, `x[1`, `x[:`, `x[1:`, `x[::]`, `x[1:2:3]`, `x.`, `x..y`, `.x`, `x.1`, `x.(`,
		`func`, `func(`, `func()`, `func() {`, `func(a,`, `func(a=`, `func(a=1,`, `func(1)`, `func f`, `func f(`, `func f() {`, `func(a, a) {}`, `func(a=1, b) {}`, `func(...) {}`,
		`if`, `if x`, `if x {`, `if x {} else`, `if x {} else if`, `if {`, `if x; y {}`, `else {}`, `for`, `for {`, `for x`, `for ;;`, `for ;; {`, `for i :=`, `for i := range`, `for i, j, k := range x {}`, `for range`, `for i := 0; i < 3 {}`,
		`switch`, `switch x`, `switch x {`, `switch x { case`, `switch x { case 1`, `switch x { case 1:`, `switch x { default`, `switch x { default: }`, `switch x { default: default: }`, "switch x {\ndefault:\n}", "switch x { case 1: default: }", "switch x {\ncase 1:\ndefault:\n}", `switch { }`, `switch x { 1 }`, `case 1:`, `default:`,
		`return`, `return if`, `return return`, `return func`, `return )`, `return ;`, `return 1,`, `const`, `const x`, `const x =`, `const x = if`, `const 1 = 2`, `var`, `var x`, `var x =`, `var x = if`, `var 1`, `x :=`, `x := if`, `x, := 1`, `x, y :=`, `x, 1 := 2`, `1 := 2`, `x =`, `x +=`, `x ++ ++`, `++x`, `x := y := 1`,
		`import`, `import 1`, `import "a"`, `import a.`, `import a as`, `import a as 1`, `from`, `from a`, `from a import`, `from a import (`, `from a import (b,`, `from a import b as`, `from . import x`, `from a import *`, `import ../x`, `import a/b`, `from a.b.c import d as e, f`,
		`go`, `go f`, `go 1`, `go func`, `go func(){}`, `defer`, `defer f`, `defer 1`, `defer func(){}`, `break`, `continue`, `break 1`, `struct`, `struct {}`, `as`, `in`, `not`, `not in`, `x not`, `x not y`, `x in`, `in x`, `range`, `range x`, `x := range`, `range range`,
		`x ?`, `x ? 1`, `x ? 1 :`, `x ? 1 : 2 ? 3 : 4`, `x ? y ? 1 : 2 : 3`, `? :`, `x |`, `| x`, `x | | y`, `x <-`, `<-`, `<- <-x`, `x <- <- y`, `!`, `-`, `!!`, `- -`, `1 +`, `+ 1`, `1 + + 1`, `1 * / 2`, `a && `, `|| b`, `1 == `, `== 1`, `1 < 2 < 3`, `**`, `2 ** `, `&`, `x & & y`, `,`, `;`, `:`, `;;`, `,,`, `x,`, `x;`, `:=`, `=`, `=>`, `->`, `...`, `@`, `$x`, `x~y`, `x^y`, `\`)
	add("template-comment", `'a{# note}b'`, `'a{/* x */}b'`, `'{/**/}'`, `'{ /* unit */ }'`, `'v={x}{ /* u */ }'`, `'{#}'`, `'{//}'`, "'{// c\n}'", "'{# c\n1}'", `'{/* a */ 1 /* b */}'`, `'{ ; }'`, `'{;;}'`, `'{/*}'`, `'{*/}'`,
		`'{x /* c */}'`, `'{/* c */ x}'`, `'{1}{#}{2}'`, `'{ # }'`, "'{\n}'", "'{\t}'", "'{\r\n}'", `'{\}'`, `'{"#"}'`, `'{"//"}'`)
	add("numeric", `0`, `00`, `007`, `08`, `09`, `0x`, `0X1`, `0x1g`, `0xffffffffffffffff`, `0xfffffffffffffffff`, `0b`, `0b2`, `0b101`, `0b11111111111111111111111111111111111111111111111111111111111111111`, `0o`, `0o8`, `0o17`,
		`1e`, `1e+`, `1e-`, `1e9`, `1e999`, `1e-999`, `1E5`, `1.e5`, `1.`, `1..2`, `1.2.3`, `.5`, `1.5.`, `1_000`, `1__0`, `_1`, `1_`, `9223372036854775807`, `9223372036854775808`, `-9223372036854775808`, `-9223372036854775809`, `99999999999999999999999999999999999999`,
		`1.7976931348623157e308`, `1.7976931348623159e308`, `4.9e-324`, `1e400`, `0.0000000000000000000000000000000000000000000000000000000001`, `1x`, `1a`, `1if`, `1.foo`, `1.5.foo`, `1 .foo`, `1[0]`, `1()`, `1.5()`, `0x1.8p1`, `1e1e1`, `0e0`, `0.0`, `-0`, `-0.0`, `1/0`, `1%0`, `1.0/0`, `1<<64`, `1<<-1`, `1>>64`, `2**64`, `2**-1`, `2**0.5`, `0**0`, `(-8)**(1/3)`,
		strings.Repeat("9", 400), "1."+strings.Repeat("0", 400), "0x"+strings.Repeat("f", 300), strings.Repeat("0", 500), "1e"+strings.Repeat("9", 50))
	add("escape", `"\a\b\f\n\r\t\v\\\e"`, `"\x"`, `"\x4"`, `"\x41"`, `"\xzz"`, `"\u"`, `"\u12"`, `"é"`, `"\ud800"`, `"\U"`, `"\U0001F389"`, `"\U00110000"`, `"\UFFFFFFFF"`, `"\0"`, `"\00"`, `"\000"`, `"\777"`, `"\400"`, `"\8"`, `"\q"`, `"\'"`, `'\"'`, `'\''`, `"\`+"\n"+`"`, `'\{'`, `'\}'`, `'{"\""}'`, `'{x}\'`, `"\x00"`, `"a`+"\x00"+`b"`, "`\\`", "`\\``",
		`'{1}'`, `'{1 +}'`, `'{}'`, `'{;}'`, `'{x;y}'`, `'{x`+"\n"+`}'`, `'{"{"}'`, `'{ {"a": 1} }'`, `'{ {1} }'`, `'{ func() { return 1 }() }'`, `'{ '{ '{1}' }' }'`, `'{x} {x} {x} {x} {x} {x} {x} {x}'`, `'{undefined_name}'`, `'{1/0}'`, `'{ return }'`, `'{ x := 1 }'`, `'{ if }'`, `'{`+"`a`"+`}'`)
	add("linebreak", "f(1, (\n2))", "[1, (\n2)]", "{(\n1)}", "{\"a\": (\n1)}", "{1, (\n2)}", "x := (\n1)", "(\n1)", "((\n))", "{\"a\":\n 1}", "{\"a\":\r 1}", "{\"a\"\n: 1}", "{\n\"a\"\n:\n1\n}", "{\"a\": 1,\n\"b\":\n2}", "{ if\n; ,}", "{1\n}", "{1,\n2}", "{1\n,2}", "{\n1,\n}", "[1,\n2]", "[1\n,2]", "[\n]", "{\n}", "(\n1\n)", "(1\n)", "f(\n1\n)", "f(a,\n)", "f(a\n,b)",
		"x :=\n1", "x\n:= 1", "x =\n1", "x +=\n1", "x, \ny := [1, 2]", "x,\ny = 1, 2", "const\nx = 1", "const x\n= 1", "const x =\n1", "var\nx = 1", "var x =\n1",
		"if x\n{ }", "if\nx { }", "if x {\n}\nelse { }", "if x { } else\n{ }", "if x { } else\nif y { }", "if x { } else if\ny { }", "if x {} else if", "if x {} else if\n",
		"func\n() {}", "func(\na\n) {}", "func(a,\nb=\n1) {}", "func()\n{}", "func f\n() {}", "func() {\nreturn\n}", "func() { return\n1 }()",
		"for\ni := range x {}", "for i\n:= range x {}", "for i :=\nrange x {}", "for i := range\nx {}", "for i := range x\n{}", "for i := 0;\ni < 1; i++ {}", "for i := 0; i < 1;\ni++ {}", "for\n{ break }",
		"switch x\n{ }", "switch\nx { }", "switch x { case\n1: }", "switch x { case 1,\n2: }", "switch x { case 1\n: }", "switch x {\ncase 1:\n\n}", "switch x {\n\ndefault:\n\n}", "switch x { case 1:\n}",
		"x.\ny", "x\n.y", "x[\n0]", "x[0\n]", "x[0:\n1]", "x[\n:1]", "x(\n)", "a +\nb", "a\n+ b", "a &&\nb", "a ?\nb : c", "a ? b\n: c", "a ? b :\nc", "a ?\n", "a ? b :\n", "!\nx", "-\nx", "not\nx",
		"return\n1", "import\nmath", "import math\nas m", "import math as\nm", "from\nmath import abs", "from math\nimport abs", "from math import\nabs", "from math import (\nabs,\n)", "from math import (abs\n)",
		"go\nf()", "defer\nf()", "go func() {\n}()", "x <-\n1", "<-\nx", "x |\nf", "x\n| f", "x in\ny", "x not\nin y", "1 not in\n[1]", "'{\nx\n}'", "'{x +\n1}'", "struct {\n}", "x++\n++", "x :=\n", "x =\n", "f(\n", "[\n", "{\n", "{\"a\":\n", "{\"a\": 1,\n", "{1,\n")
	add("hostile", `return if`, `const x = if`, `switch x { default: }`, "x := `a\nb` +", "f(`a\nb`,", "x := \"a\nb", "'{a\nb}' +", "/* a\nb */ +", "x.\ny.\n", "x := [\n1,\n2\n", "{\n\"a\":\n", "func(\n\n", "x := 1 +\n\n\n", "if x {\n\n\n",
		"x\r\ny\r\n", "x\ry", "x\u2028y", "\ufeffx := 1", "x := 1\x00", "\x00", "x := 1 // c\x00\ny", "é := 1; é", "日本 := 1", "x := \"日本語\"; x[0]", "a\u0301 := 1", "𝒙 := 1",
		`x.y = 1`, `x[0] = 1`, `1 = 2`, `f() = 1`, `x.y := 1`, `x[0] := 1`, `x.y++`, `x[0]++`, `f()++`, `1++`, `"a"++`, `x, y = 1`, `x.y, z = 1, 2`, `[a, b] = [1, 2]`, `{a} := 1`,
		`func() { return 1 }()`, `func f() { return f }; f()()()`, `func() {}()()`, `(func)`, `func(){}.x`, `func(){}[0]`, `f := func(a=func(b=func(){}){}){}; f()`, `func f(a=f) {}; f()`, `func f(a=a) {}; f()`, `func f(f) { return f }; f(f)`,
		`x := x`, `x := func() { return x }; x()`, `x = 1`, `print(y); y := 1`, `func f() { return g() }; func g() { return 1 }; f()`, `{ x := 1 }; x`, `if true { y := 1 }; y`,
		`break`, `continue`, `func() { break }()`, `for { func() { break }() }`, `for i := range 3 { defer print(i) }`, `defer print(1)`, `func() { defer func() { defer func() { error("x") }() }() }()`, `return 1`, `return`, `func() { return }()`, `go print(1)`, `go 1`, `defer 1`, `go func() { error("x") }()`,
		`import math as m; m.abs(-1)`, `import nosuch`, `import math.x`, `from math import abs`, `from math import nosuch`, `from nosuch import x`, `import math; math = 1`, `math := 1`, `len := 1; len`, `print = 1`, `import "math"`, `func f() { import math; return math.pi }; f()`,
		`switch 1 { case 1, 2, 3: 1 }`, `switch 1 { case 1: case 2: }`, `switch nil { default: 1 }`, `switch x := 1 { }`, `switch 1 { case 1: break }`, `for i := range 3 { switch i { case 1: continue } }`, `switch 1 { case 1: switch 2 { case 2: switch 3 { default: } } }`, `switch { case true: 1 }`,
		`for i := 0; i < 3; i++ { }`, `for i := 0; ; i++ { break }`, `for ;; { break }`, `for i := range nil { }`, `for i, v := range 5 { }`, `for i := range "abc" { }`, `for k, v := range {"a": 1} { }`, `for x in [1] { }`, `for i, i := range [1] { }`, `for _, _ := range [1] { }`, `for i := range [1] { i := 2 }`, `for true { break }`, `for 1 { break }`, `for nil { }`, `for x := range func() {} { }`,
		`1(2)`, `"a"()`, `nil()`, `[1]()`, `{}()`, `x := {}; x.y()`, `nil.x`, `nil[0]`, `1.x`, `true[0]`, `[][0]`, `[1][-2]`, `[1][1:0]`, `[1][5:]`, `"abc"[10]`, `"abc"[-10:]`, `{}["x"]`, `{1: 2}[1]`, `{[1]: 2}`, `{{}: 1}`, `{nil: 1}`, `{1.5: 1}`, `{true: 1}[true]`, `{func(){}: 1}`, `{1, [2]}`, `{1, {2}}`,
		`try()`, `try(1)`, `try(func() { error("x") })`, `try(func() { error("x") }, func(e) { error("y") })`, `try(func() { error("x") }, 1)`, `try(func() { 1/0 })`, `try(func() { [][1] })`, `try(try)`, `try(func() { try(func() { error("a") }, func(e) { error(e) }) }, func(e) { return e })`, `error()`, `error(1)`, `error(error)`, `error("%d")`, `error("%!")`, `error("%s %s", 1)`, `error(errors.new("x"))`,
		`len()`, `len(1, 2)`, `len(len)`, `print(print)`, `type()`, `string()`, `int("x")`, `int("99999999999999999999")`, `int(1e300)`, `int(math.inf())`, `float("nan")`, `byte(256)`, `byte(-1)`, `chr(-1)`, `chr(1114112)`, `ord("")`, `ord("ab")`, `list(1)`, `set([[1]])`, `map([[1]])`, `map([[1, 2, 3]])`, `sorted([1, "a"])`, `sorted([nil, 1])`, `sorted([func(){}, 1])`, `sorted([[1], [2]])`, `sorted([{}, {}])`, `sorted([1, 2], nil)`, `sorted([1, 2], func() {})`, `sorted([1, 2], func(a, b) { error("x") })`, `sorted([3, 1, 2], func(a, b) { return "x" })`, `reversed(1)`, `any(1)`, `all(nil)`, `min()`, `max([])`, `sum(["a"])`, `chunk([1], 0)`, `chunk([1], -1)`, `range(1)`, `iter(nil)`, `call()`, `call(1)`, `call(call, call)`, `getattr(1, "x")`, `getattr(nil, nil)`, `hash()`, `hash("x", "nope")`, `sprintf()`, `sprintf(1)`, `sprintf("%d", "x")`, `sprintf("%*d", 1)`, `sprintf("%[5]d", 1)`, `sprintf("%!")`, `sprintf("%v %v")`, `make()`, `make(1)`, `chan(-1)`, `chan("x")`, `close(1)`, `close(nil)`, `delete(1, 2)`, `assert(false)`, `assert(false, 1)`, `is_hashable(func(){})`, `coalesce()`, `decode("x", "nope")`, `encode(1, 1)`, `encode(func(){}, "json")`, `decode("\xff", "base64")`, `decode("{", "json")`, `codecs`, `keys(1)`, `float_slice(["a"])`, `byte_slice([256])`, `byte_slice([-1])`, `buffer(1)`, `unpack`, `jmespath`, `os.exit(3)`, `os.exit("x")`, `os.exit(errors.new("e"))`, `exit(1); print(2)`, `os.exit()`, `os.exit(0); 5`,
		`x := [1,2,3]; x[1:2] = 5`, `x := "abc"; x[0] = "z"`, `x := {1}; x[0]`, `x := [1]; x.append(x); len(x)`, `m := {}; m["m"] = m; len(m)`, `s := {1}; s.add(s)`, `l := []; s := {1}; l.append(s); s.add(l)`, `l := [1]; l.extend(l); l`, `l := [1]; m := {"l": l}; l.append(m); string(m)`,
		`1 / 0`, `1 % 0`, `1.0 / 0`, `1 // 2`, `-9223372036854775807 - 2`, `9223372036854775807 + 1`, `(-9223372036854775807 - 1) / -1`, `(-9223372036854775807 - 1) % -1`, `-(-9223372036854775807 - 1)`, `2 ** 63`, `2 ** 64`, `2 ** -1`, `0 ** -1`, `1 << 63`, `1 << 64`, `1 << 1000`, `1 << -1`, `1 >> -1`, `-1 >> 70`, `"a" * 3`, `"a" * -1`, `[1] * 3`, `[1] * -1`, `[1] * 9223372036854775807`, `"ab" * 4611686018427387904`, `3 * "a"`, `"a" + 1`, `1 + "a"`, `[1] + 1`, `{} + {}`, `{1} + {2}`, `nil + nil`, `true + true`, `-"a"`, `-nil`, `-[1]`, `!nil`, `![]`, `1 < "a"`, `nil < nil`, `[1] < [2]`, `{} < {}`, `true < false`, `1 == 1.0`, `"a" in 1`, `1 in "a"`, `1 in nil`, `nil in nil`, `[1] in {}`, `{} in {}`,
	)
	return out
}()

var fixedContexts = []string{"%s", "x := %s", "f(%s)", "[%s]", "{ %s }", "if %s { }", "func() { %s }", "func() { return %s }()", "'{%s}'", "%s\n%s", "(%s", "%s)", "y\n%s", "%s\n\n\nfoo bar", "%s; %s", "x := true; y := 1; z := [1]; %s", "for i := range 2 { %s }", "switch 1 { case 1: %s }", "try(func() { %s })", "%s // c", "/* c */ %s /* d */", "%s.x", "%s[0]", "%s(1)", "-%s", "!%s", "1 + %s", "%s + 1", "%s ? 1 : 2", "print(%s)"}

func genFixed(s spec) genOut {
	sn := fixedSnippets[s.A%len(fixedSnippets)]
	ctx := fixedContexts[s.B%len(fixedContexts)]
	return genOut{Src: strings.ReplaceAll(ctx, "%s", sn.Text), Class: fmt.Sprintf("fixed:%s:%d:ctx%d", sn.Group, s.A%len(fixedSnippets), s.B%len(fixedContexts))}
}

// ---------------------------------------------------------------------------------------
// deep nesting of every recursive production

type deepShape struct {
	Name string
	Gen  func(d int) string
	Max  int    // largest depth generated for this shape (0 = no limit)
	Kind string // how far the shape is taken, see depths()
}

// depths: how deep a production is nested depends on what the implementation spends on it, so that a
// tier stays within its time budget (a slow compile is not this property's business):
//
//	lin    parsed/compiled in linear time:                quick 10..1e5, thorough + 1e6
//	""     recursive productions (default):               quick 10..1e4, thorough + 1e5, 1e6
//	quad   nested statement blocks (compile is quadratic): quick 10..1e3, thorough + 1e4, 1e6
//	cubic  nested function literals (compile is cubic):   quick 10, 100, 300, thorough + 1e3, 1e6
//	wide   breadth instead of depth (size cap 1e5):       both 10..1e5
func (s deepShape) depths(thorough bool) []int {
	var ds []int
	switch s.Kind {
	case "lin":
		ds = []int{10, 100, 1000, 10000, 100000}
		if thorough {
			ds = append(ds, 1000000)
		}
	case "quad":
		ds = []int{10, 100, 1000}
		if thorough {
			ds = append(ds, 10000, 1000000)
		}
	case "cubic":
		ds = []int{10, 100, 300}
		if thorough {
			ds = append(ds, 1000, 1000000)
		}
	case "wide":
		ds = []int{10, 100, 1000, 10000, 100000}
	default:
		ds = []int{10, 100, 1000, 10000}
		if thorough {
			ds = append(ds, 100000, 1000000)
		}
	}
	if s.Max > 0 {
		var out []int
		for _, d := range ds {
			if d <= s.Max {
				out = append(out, d)
			}
		}
		return out
	}
	return ds
}

func rep(s string, n int) string { return strings.Repeat(s, n) }

var deepShapes = []deepShape{
	{Name: "paren", Gen: func(d int) string { return rep("(", d) + "1" + rep(")", d) }, Kind: "lin"},
	{Name: "paren-open", Gen: func(d int) string { return rep("(", d) }, Kind: "lin"},
	{Name: "list", Gen: func(d int) string { return rep("[", d) + "1" + rep("]", d) }},
	{Name: "list-open", Gen: func(d int) string { return rep("[", d) }},
	{Name: "map", Gen: func(d int) string { return rep(`{"a":`, d) + "1" + rep("}", d) }},
	{Name: "set", Gen: func(d int) string { return "x := " + rep("{", d) + "1" + rep("}", d) }},
	{Name: "brace-open", Gen: func(d int) string { return rep("{", d) }},
	{Name: "block", Gen: func(d int) string { return rep("{\n", d) + "1\n" + rep("}\n", d) }, Kind: "lin"},
	{Name: "bang", Gen: func(d int) string { return "x := true; " + rep("!", d) + "x" }, Kind: "lin"},
	{Name: "neg", Gen: func(d int) string { return rep("- ", d) + "1" }},
	{Name: "neg-raw", Gen: func(d int) string { return "x := 1; " + rep("-", d) + "x" }},
	{Name: "not", Gen: func(d int) string { return "x := [1]; 1 " + rep("not ", d) + "in x" }},
	{Name: "func-lit", Gen: func(d int) string { return rep("func() { ", d) + rep("}", d) }, Kind: "cubic"},
	{Name: "func-return", Gen: func(d int) string { return "f := " + rep("func() { return ", d) + "1" + rep(" }", d) + "; f()" }, Kind: "cubic"},
	{Name: "func-call-now", Gen: func(d int) string { return rep("func() { return ", d) + "1" + rep(" }()", d) }, Kind: "cubic"},
	{Name: "func-default-arg", Gen: func(d int) string { return rep("func(a=", d) + "1" + rep(") {}", d) }},
	{Name: "func-named", Gen: func(d int) string { return rep("func f() { ", d) + rep("}", d) }, Kind: "cubic"},
	{Name: "if", Gen: func(d int) string { return "x := true; " + rep("if x { ", d) + "1" + rep(" }", d) }, Kind: "quad"},
	{Name: "if-else-chain", Gen: func(d int) string { return "x := false; " + rep("if x { 1 } else ", d) + "{ 2 }" }, Kind: "quad"},
	{Name: "if-cond", Gen: func(d int) string { return rep("if ", d) + "true" + rep(" { true }", d) }},
	{Name: "for-range", Gen: func(d int) string { return rep("for i := range 1 { ", d) + "1" + rep(" }", d) }, Kind: "quad"},
	{Name: "for-cond", Gen: func(d int) string { return "x := true; " + rep("for x { ", d) + "x = false" + rep(" }", d) }, Kind: "quad"},
	{Name: "switch", Gen: func(d int) string { return rep("switch 1 { case 1: ", d) + "1" + rep(" }", d) }, Kind: "quad"},
	{Name: "switch-subject", Gen: func(d int) string { return rep("switch ", d) + "1" + rep(" { default: 1 }", d) }},
	{Name: "attr-chain", Gen: func(d int) string { return `x := {}; x["y"] = x; x` + rep(".y", d) + "; 1" }},
	{Name: "call-chain", Gen: func(d int) string { return "func f() { return f }; f" + rep("()", d) }},
	{Name: "method-chain", Gen: func(d int) string { return "x := [1]; x" + rep(".copy()", d) }},
	{Name: "index-chain", Gen: func(d int) string { return "a := [1]; a[0] = a; a" + rep("[0]", d) + "; 1" }},
	{Name: "index-nest", Gen: func(d int) string { return "a := [0]; " + rep("a[", d) + "0" + rep("]", d) }},
	{Name: "slice-nest", Gen: func(d int) string { return "a := [0]; " + rep("a[", d) + "0" + rep(":]", d) }},
	{Name: "call-nest", Gen: func(d int) string { return "f := func(x) { return x }; " + rep("f(", d) + "1" + rep(")", d) }},
	{Name: "builtin-call-nest", Gen: func(d int) string { return rep("len([", d) + "1" + rep("])", d) }},
	{Name: "binop-left", Gen: func(d int) string { return "1" + rep(" + 1", d) }},
	{Name: "binop-right", Gen: func(d int) string { return rep("1 + (", d) + "1" + rep(")", d) }},
	{Name: "pow", Gen: func(d int) string { return rep("1 ** ", d) + "1" }},
	{Name: "and-chain", Gen: func(d int) string { return "x := true; x" + rep(" && x", d) }},
	{Name: "or-chain", Gen: func(d int) string { return "x := false; x" + rep(" || x", d) }},
	{Name: "compare-chain", Gen: func(d int) string { return "1" + rep(" == 1", d) }},
	{Name: "string-concat", Gen: func(d int) string { return `"a"` + rep(` + "a"`, d) }},
	{Name: "ternary-else", Gen: func(d int) string { return "x := false; " + rep("x ? 1 : ", d) + "0" }},
	{Name: "ternary-then", Gen: func(d int) string { return "x := true; " + rep("x ? ", d) + "0" + rep(" : 1", d) }},
	{Name: "ternary-paren", Gen: func(d int) string { return "x := false; " + rep("x ? 1 : (", d) + "0" + rep(")", d) }},
	{Name: "template-nest", Gen: func(d int) string { return rep("'{", d) + "1" + rep("}'", d) }, Kind: "lin"},
	{Name: "template-flat", Gen: func(d int) string { return "x := 1; '" + rep("{x}", d) + "'" }},
	{Name: "template-paren", Gen: func(d int) string { return "'{" + rep("(", d) + "1" + rep(")", d) + "}'" }},
	{Name: "pipe-chain", Gen: func(d int) string { return "f := func(x) { return x }; 1" + rep(" | f", d) }, Kind: "lin"},
	{Name: "in-chain", Gen: func(d int) string { return rep("1 in ", d) + "[1]" }},
	{Name: "assign-chain", Gen: func(d int) string { return "a := 0; " + rep("a = ", d) + "1" }},
	{Name: "send-chain", Gen: func(d int) string { return "c := 1; " + rep("c <- ", d) + "1" }},
	{Name: "recv-chain", Gen: func(d int) string { return "c := 1; " + rep("<-", d) + "c" }},
	{Name: "go-nest", Gen: func(d int) string { return rep("go func() { ", d) + rep(" }()", d) }, Kind: "cubic"},
	{Name: "defer-nest", Gen: func(d int) string { return "func() { " + rep("defer func() { ", d) + rep(" }()", d) + " }()" }, Kind: "cubic"},
	{Name: "comment-open", Gen: func(d int) string { return rep("/*", d) }, Kind: "lin"},
	{Name: "comment-nest", Gen: func(d int) string { return rep("/* ", d) + rep("*/ ", d) }, Kind: "lin"},
	{Name: "comments-many", Gen: func(d int) string { return rep("/* c */ ", d) + "1" }, Kind: "lin"},
	{Name: "newlines", Gen: func(d int) string { return rep("\n", d) + "1" }, Kind: "lin"},
	{Name: "semicolons", Gen: func(d int) string { return rep(";", d) + "1" }, Kind: "lin"},
	{Name: "statements", Gen: func(d int) string { return rep("1\n", d) }, Kind: "lin"},
	{Name: "declarations", Gen: func(d int) string {
		var sb strings.Builder
		for i := 0; i < d; i++ {
			sb.WriteString("v" + strconv.Itoa(i) + " := " + strconv.Itoa(i) + "\n")
		}
		return sb.String()
	}, Max: 100000, Kind: "wide"},
	{Name: "locals", Gen: func(d int) string {
		var sb strings.Builder
		sb.WriteString("func f() {\n")
		for i := 0; i < d; i++ {
			sb.WriteString("v" + strconv.Itoa(i) + " := " + strconv.Itoa(i) + "\n")
		}
		sb.WriteString("return v0 }\nf()")
		return sb.String()
	}, Max: 100000, Kind: "wide"},
	{Name: "list-wide", Gen: func(d int) string { return "[" + rep("1, ", d) + "1]" }, Kind: "wide"},
	{Name: "list-wide-calls", Gen: func(d int) string { return "f := func() { return 1 }; [" + rep("f(), ", d) + "1]" }, Kind: "wide"},
	{Name: "map-wide", Gen: func(d int) string {
		var sb strings.Builder
		sb.WriteString("{")
		for i := 0; i < d; i++ {
			sb.WriteString(strconv.Itoa(i) + ": 1, ")
		}
		sb.WriteString("}")
		return sb.String()
	}, Max: 100000, Kind: "wide"},
	{Name: "set-wide", Gen: func(d int) string {
		var sb strings.Builder
		sb.WriteString("{")
		for i := 0; i < d; i++ {
			sb.WriteString(strconv.Itoa(i) + ", ")
		}
		sb.WriteString("0}")
		return sb.String()
	}, Max: 100000, Kind: "wide"},
	{Name: "call-args-wide", Gen: func(d int) string { return "print(" + rep("1, ", d) + "1)" }, Kind: "wide"},
	{Name: "func-call-args-wide", Gen: func(d int) string { return "f := func(a) { return a }; f(" + rep("1, ", d) + "1)" }, Kind: "wide"},
	{Name: "params-wide", Gen: func(d int) string {
		var sb, args strings.Builder
		sb.WriteString("func f(")
		for i := 0; i < d; i++ {
			sb.WriteString("p" + strconv.Itoa(i) + ", ")
			args.WriteString("1, ")
		}
		sb.WriteString("q) { return q }; f(" + args.String() + "1)")
		return sb.String()
	}, Max: 100000, Kind: "wide"},
	{Name: "default-params-wide", Gen: func(d int) string {
		var sb strings.Builder
		sb.WriteString("func f(")
		for i := 0; i < d; i++ {
			sb.WriteString("p" + strconv.Itoa(i) + "=1, ")
		}
		sb.WriteString("q=2) { return q }; f()")
		return sb.String()
	}, Max: 100000, Kind: "wide"},
	{Name: "multi-assign-wide", Gen: func(d int) string {
		var l, r strings.Builder
		for i := 0; i < d; i++ {
			l.WriteString("v" + strconv.Itoa(i) + ", ")
			r.WriteString("1, ")
		}
		return l.String() + "w := [" + r.String() + "1]"
	}, Max: 100000, Kind: "wide"},
	{Name: "switch-cases-wide", Gen: func(d int) string {
		var sb strings.Builder
		sb.WriteString("switch 0 {\n")
		for i := 1; i <= d; i++ {
			sb.WriteString("case " + strconv.Itoa(i) + ": " + strconv.Itoa(i) + "\n")
		}
		sb.WriteString("default: 0\n}")
		return sb.String()
	}, Max: 100000, Kind: "wide"},
	{Name: "case-values-wide", Gen: func(d int) string { return "switch 0 { case " + rep("1, ", d) + "1: 2 }" }, Kind: "wide"},
	{Name: "import-names-wide", Gen: func(d int) string { return "from math import (" + rep("abs, ", d) + "abs)" }, Kind: "wide"},
	{Name: "closure-capture-deep", Gen: func(d int) string {
		return "func f(a) { " + rep("return func() { ", d) + "return a" + rep(" }", d) + " }; g := f(1)" + rep("; g = g()", d) + "; g"
	}, Max: 1000, Kind: "cubic"},
	{Name: "long-ident", Gen: func(d int) string { return rep("x", d) + " := 1" }, Kind: "wide"},
	{Name: "long-int", Gen: func(d int) string { return rep("1", d) }, Kind: "wide"},
	{Name: "long-float", Gen: func(d int) string { return "0." + rep("1", d) }, Kind: "wide"},
	{Name: "long-string", Gen: func(d int) string { return `"` + rep("a", d) + `"` }, Kind: "wide"},
	{Name: "long-line-error", Gen: func(d int) string { return rep("x ", d) + ")" }, Kind: "wide"},
	{Name: "long-comment-line", Gen: func(d int) string { return "// " + rep("c", d) + "\n)" }, Kind: "wide"},
	{Name: "loop-body-big", Gen: func(d int) string { return "x := 0; for i := range 2 { " + rep("x = x + 1; ", d) + "}; x" }, Max: 100000, Kind: "wide"},
	{Name: "if-body-big", Gen: func(d int) string {
		return "x := 0; if x == 1 { " + rep("x = x + 1; ", d) + "} else { " + rep("x = x + 2; ", d) + "}; x"
	}, Max: 100000, Kind: "wide"},
	{Name: "constants-many", Gen: func(d int) string {
		var sb strings.Builder
		sb.WriteString("x := [")
		for i := 0; i < d; i++ {
			sb.WriteString(`"s` + strconv.Itoa(i) + `", `)
		}
		sb.WriteString("]; len(x)")
		return sb.String()
	}, Max: 100000, Kind: "wide"},
	{Name: "functions-many", Gen: func(d int) string {
		var sb strings.Builder
		for i := 0; i < d; i++ {
			sb.WriteString("func f" + strconv.Itoa(i) + "() { return " + strconv.Itoa(i) + " }\n")
		}
		sb.WriteString("f0()")
		return sb.String()
	}, Max: 100000, Kind: "wide"},
}

func genDeep(s spec) genOut {
	sh := deepShapes[s.A%len(deepShapes)]
	return genOut{Src: sh.Gen(s.B), Class: fmt.Sprintf("deep:%s:%d", sh.Name, s.B)}
}
