package c03

import (
	"context"
	"encoding/json"
	"fmt"
	"io/fs"
	"os"
	"path/filepath"
	"regexp"
	"runtime/debug"
	"runtime/metrics"
	"strings"
	"sync"
	"sync/atomic"
	"time"

	"github.com/risor-io/risor"
	"github.com/risor-io/risor/ast"
	"github.com/risor-io/risor/compiler"
	"github.com/risor-io/risor/errz"
	"github.com/risor-io/risor/object"
	ros "github.com/risor-io/risor/os"
	"github.com/risor-io/risor/parser"
)

// ---------------------------------------------------------------------------------------
// What a worker is asked to do and what it reports

// caseData is one input. The source text is either explicit (Src) or produced from Spec by genSource
// (deterministic, so the driver can regenerate it for the witness).
type caseData struct {
	Src  *string `json:"src,omitempty"`
	Spec *spec   `json:"spec,omitempty"`

	Family     string `json:"fam"`            // workload family (first part of the token-shape class)
	Class      string `json:"cls,omitempty"`  // token-shape class when the driver knows it (explicit sources)
	InputClass string `json:"icls,omitempty"` // class of the input used in fatal signatures
	NoEval     bool   `json:"noeval,omitempty"`
	Direct     bool   `json:"direct,omitempty"` // evaluate through risor.Eval(source) instead of parse/compile/EvalCode
	Conc       bool   `json:"conc,omitempty"`   // risor.WithConcurrency()
	Call       bool   `json:"call,omitempty"`   // also risor.Call the first functions declared by the source
	Filename   bool   `json:"file,omitempty"`   // pass a file name to parser and config (other FriendlyErrorMessage branch)
	DeadlineMS int    `json:"dl,omitempty"`     // context deadline of the evaluation (default 250 ms)
	FullStack  bool   `json:"fullstack,omitempty"`
	NoIface    bool   `json:"noiface,omitempty"` // do not call Interface() on the returned value
	Enum       bool   `json:"enum,omitempty"`    // not an input: enumerate builtins and methods
	Key        string `json:"key,omitempty"`     // the case id (written to the stage log)

	Script    *scriptSpec  `json:"script,omitempty"`     // how a script was put together (for control variants)
	Runaway   *runawaySpec `json:"runaway,omitempty"`    // the runaway-recursion shape
	StackMB   int          `json:"stack_mb,omitempty"`   // screening stack limit for this case (default 16 MB)
	CallNames []string     `json:"call_names,omitempty"` // functions risor.Call invokes (default: the first ones declared)
	VMReuse   []string     `json:"vm_reuse,omitempty"`   // run the definitions on one VM, then vm.Call these in turn on it
}

type panicObs struct {
	Stage string `json:"stage"`
	Site  string `json:"site"`
	Value string `json:"value"`
	Stack string `json:"stack"`
}

type obs struct {
	Class    string     `json:"cls"`
	Stage    string     `json:"stage"`   // last stage entered
	Outcome  string     `json:"outcome"` // outcome kind
	Panics   []panicObs `json:"panics,omitempty"`
	Exits    []int      `json:"exits,omitempty"`
	Guarded  int        `json:"guarded"` // API calls made under recover()
	SrcLen   int        `json:"len"`
	Src      string     `json:"src,omitempty"` // only for panics (witness)
	ErrText  string     `json:"err,omitempty"`
	Enum     *enumOut   `json:"enum,omitempty"`
	TimedOut bool       `json:"timed_out,omitempty"`
	MS       int64      `json:"ms"`
}

// ---------------------------------------------------------------------------------------
// process-level guards: stage log, watchdog, memory guard

const (
	screenStack   = 16 << 20         // bytes: native stack limit while screening (a confirmation run uses Go's default 1 GB)
	heapGuard     = 5 << 30          // bytes of live heap objects at which the worker gives up (inconclusive)
	caseWatchdog  = 10 * time.Second // 3x for cases that run with the default stack (deep nesting, deep data)
	markerOOM     = "VERIF-C03-MEMORY-GUARD"
	markerHang    = "VERIF-C03-WATCHDOG"
	stagesFile    = "stages.txt"
	defaultStackB = 1000000000
)

var (
	procOnce   sync.Once
	stageF     *os.File
	caseSeq    atomic.Int64
	caseBegan  atomic.Int64 // unix nanos of the running case's start; 0 = idle
	caseLimit  atomic.Int64 // watchdog limit of the running case in nanos
	curStackSz = defaultStackB
)

func procInit() {
	procOnce.Do(func() {
		if dir := os.Getenv("VERIF_BATCH_DIR"); dir != "" {
			stageF, _ = os.OpenFile(filepath.Join(dir, stagesFile), os.O_CREATE|os.O_WRONLY|os.O_APPEND, 0o644)
		}
		go func() {
			sample := []metrics.Sample{{Name: "/memory/classes/heap/objects:bytes"}}
			for {
				time.Sleep(50 * time.Millisecond)
				if b := caseBegan.Load(); b != 0 && time.Now().UnixNano()-b > caseLimit.Load() {
					fmt.Fprintf(os.Stderr, "\n%s case #%d exceeded %s\n", markerHang, caseSeq.Load(), time.Duration(caseLimit.Load()))
					os.Exit(98)
				}
				metrics.Read(sample)
				if sample[0].Value.Kind() == metrics.KindUint64 && sample[0].Value.Uint64() > heapGuard {
					fmt.Fprintf(os.Stderr, "\n%s case #%d: live heap above %d bytes\n", markerOOM, caseSeq.Load(), uint64(heapGuard))
					os.Exit(97)
				}
			}
		}()
	})
}

type run struct {
	hash string
	o    *obs
}

// note writes a remark about the running case to the stage log ("<key> #<text>").
func (r *run) note(text string) {
	if stageF != nil {
		fmt.Fprintf(stageF, "%s #%s\n", r.hash, text)
	}
}

// dataShape walks a returned value's containers iteratively (no native recursion) and reports whether
// the data is cyclic and how deeply it is nested; the driver uses it to name the input class when the
// process dies in Inspect / Interface of that value.
func dataShape(root object.Object) string {
	type frame struct {
		obj  object.Object
		kids []object.Object
		next int
	}
	kidsOf := func(o object.Object) []object.Object {
		switch v := o.(type) {
		case *object.List:
			return v.Value()
		case *object.Map:
			m := v.Value()
			out := make([]object.Object, 0, len(m))
			for _, x := range m {
				out = append(out, x)
			}
			return out
		}
		return nil
	}
	onPath := map[object.Object]bool{}
	var stack []frame
	push := func(o object.Object) bool {
		switch o.(type) {
		case *object.List, *object.Map:
		default:
			return false
		}
		if onPath[o] {
			return true
		}
		onPath[o] = true
		stack = append(stack, frame{obj: o, kids: kidsOf(o)})
		return false
	}
	if root == nil {
		return "flat"
	}
	push(root)
	maxDepth, nodes := len(stack), 0
	for len(stack) > 0 {
		f := &stack[len(stack)-1]
		if f.next >= len(f.kids) {
			delete(onPath, f.obj)
			stack = stack[:len(stack)-1]
			continue
		}
		k := f.kids[f.next]
		f.next++
		nodes++
		if nodes > 3000000 {
			return "huge"
		}
		if push(k) {
			return "cyclic"
		}
		if len(stack) > maxDepth {
			maxDepth = len(stack)
		}
	}
	switch {
	case maxDepth >= 1000:
		return "deep"
	case maxDepth == 0:
		return "flat"
	}
	return "shallow"
}

func (r *run) mark(stage string) {
	r.o.Stage = stage
	if stageF != nil {
		fmt.Fprintf(stageF, "%s %s\n", r.hash, stage)
	}
}

// guard runs one embedding-API call under recover(). A recovered panic is the violation
// "a Go panic propagated to the caller".
func (r *run) guard(stage string, f func()) (ok bool) {
	r.mark(stage)
	r.o.Guarded++
	defer func() {
		if p := recover(); p != nil {
			st := string(debug.Stack())
			if stage == "eval" { // risor.Eval does everything: name the stage after what was executing
				switch {
				case strings.Contains(st, risorPrefix+"compiler."):
					stage = "compile"
				case strings.Contains(st, risorPrefix+"parser.") || strings.Contains(st, risorPrefix+"lexer."):
					stage = "parse"
				case strings.Contains(st, risorPrefix+"vm."):
					stage = "run"
				}
			}
			r.o.Panics = append(r.o.Panics, panicObs{Stage: stage, Site: panicSite(st), Value: truncStr(fmt.Sprint(p), 300), Stack: truncStr(st, 6000)})
			ok = false
		}
	}()
	f()
	return true
}

func truncStr(s string, n int) string {
	if len(s) <= n {
		return s
	}
	return s[:n] + "…"
}

// ---------------------------------------------------------------------------------------
// virtual stdout with a cap

type capFile struct {
	mu sync.Mutex
	n  int
}

func (f *capFile) Write(p []byte) (int, error) {
	f.mu.Lock()
	f.n += len(p)
	f.mu.Unlock()
	return len(p), nil
}
func (f *capFile) Read(p []byte) (int, error) { return 0, fmt.Errorf("not readable") }
func (f *capFile) Close() error               { return nil }
func (f *capFile) Stat() (fs.FileInfo, error) { return nil, fmt.Errorf("no stat") }

// removedGlobals: external commands and the network are outside the statement ("except through an
// explicit request to ... run an external command"); the network is removed so that a check never
// leaves the machine.
var removedGlobals = []string{"exec", "http", "net", "dns", "fetch"}

// ---------------------------------------------------------------------------------------
// the worker

var funcDeclRe = regexp.MustCompile(`func\s+([A-Za-z_][A-Za-z0-9_]*)\s*\(`)

func worker(kind string, data json.RawMessage) any {
	procInit()
	var c caseData
	if err := json.Unmarshal(data, &c); err != nil {
		panic(err)
	}
	o := &obs{Class: c.Class}
	if c.Enum {
		e := enumerate()
		o.Enum = e
		o.Stage, o.Outcome = "done", "enum"
		return o
	}
	want := screenStack
	if c.StackMB > 0 {
		want = c.StackMB << 20
	}
	if c.FullStack || os.Getenv("VERIF_C03_FULLSTACK") != "" {
		want = defaultStackB
	}
	if want != curStackSz {
		debug.SetMaxStack(want)
		curStackSz = want
	}
	caseSeq.Add(1)
	if want == defaultStackB {
		caseLimit.Store(int64(3 * caseWatchdog))
	} else {
		caseLimit.Store(int64(caseWatchdog))
	}
	caseBegan.Store(time.Now().UnixNano())
	defer caseBegan.Store(0)

	r := &run{hash: c.Key, o: o}
	r.mark("generate")
	var src string
	if c.Src != nil {
		src = *c.Src
	} else if c.Spec != nil {
		g := genSource(*c.Spec)
		src = g.Src
		if o.Class == "" {
			o.Class = g.Class
		}
	}
	o.SrcLen = len(src)
	t0 := time.Now()
	r.source(&c, src)
	o.MS = time.Since(t0).Milliseconds()
	if len(o.Panics) > 0 {
		o.Src = truncStr(src, 20000)
	}
	return o
}

func (r *run) formatErr(stage string, err error) {
	var text string
	r.guard(stage+"-error-format", func() {
		text = err.Error()
		if fe, ok := err.(errz.FriendlyError); ok {
			_ = fe.FriendlyErrorMessage()
		}
		if pe, ok := err.(parser.ParserError); ok {
			_ = pe.Type()
			_ = pe.Message()
			_ = pe.Cause()
			_ = pe.File()
			_ = pe.StartPosition().LineNumber()
			_ = pe.EndPosition().ColumnNumber()
			_ = pe.SourceCode()
		}
		// what `%v` / `%+v` / errors.Unwrap chains of an embedder's logger do
		_ = fmt.Sprintf("%v", err)
		for e, i := err, 0; e != nil && i < 10; i++ {
			u, ok := e.(interface{ Unwrap() error })
			if !ok {
				break
			}
			e = u.Unwrap()
			if e != nil {
				_ = e.Error()
				if fe, ok := e.(errz.FriendlyError); ok {
					_ = fe.FriendlyErrorMessage()
				}
			}
		}
	})
	r.o.ErrText = truncStr(text, 200)
}

func errKind(stage string, err error, text string) string {
	switch e := err.(type) {
	case parser.ParserError:
		t := e.Type()
		if t == "" {
			t = "parser"
		}
		return stage + "-error:" + strings.ReplaceAll(t, " ", "-")
	case *errz.ArgsError:
		return stage + "-error:args"
	case *errz.TypeError:
		return stage + "-error:type"
	case *errz.EvalError:
		return stage + "-error:eval"
	}
	switch {
	case strings.Contains(text, "deadline exceeded") || strings.Contains(text, "context canceled"):
		return stage + "-error:deadline"
	case strings.HasPrefix(text, "panic:"):
		return stage + "-error:vm-recovered-panic"
	case strings.HasPrefix(text, "compile error:"):
		return stage + "-error:compile"
	case strings.HasPrefix(text, "type error:"):
		return stage + "-error:type"
	case strings.HasPrefix(text, "args error:"):
		return stage + "-error:args"
	case strings.HasPrefix(text, "value error:"):
		return stage + "-error:value"
	case strings.HasPrefix(text, "eval error:"):
		return stage + "-error:eval"
	case strings.HasPrefix(text, "name error:"):
		return stage + "-error:name"
	case strings.HasPrefix(text, "import error:"):
		return stage + "-error:import"
	}
	return stage + "-error:other"
}

func (r *run) source(c *caseData, src string) {
	o := r.o
	dl := time.Duration(c.DeadlineMS) * time.Millisecond
	if dl <= 0 {
		dl = 250 * time.Millisecond
	}
	ctx, cancel := context.WithTimeout(context.Background(), dl)
	defer cancel()
	stdout := &capFile{}
	vos := ros.NewVirtualOS(ctx, ros.WithStdout(stdout), ros.WithStderr(stdout),
		ros.WithExitHandler(func(code int) { o.Exits = append(o.Exits, code) }))
	opts := []risor.Option{risor.WithOS(vos), risor.WithoutGlobals(removedGlobals...)}
	var popts []parser.Option
	if c.Conc {
		opts = append(opts, risor.WithConcurrency())
	}
	if c.Filename {
		opts = append(opts, risor.WithFilename("dir/input.risor"))
		popts = append(popts, parser.WithFilename("dir/input.risor"))
	}

	finish := func(res object.Object, err error, stage string) {
		if err != nil {
			r.formatErr(stage, err)
			o.Outcome = errKind(stage, err, o.ErrText)
			if strings.HasSuffix(o.Outcome, ":deadline") {
				o.TimedOut = true
			}
			return
		}
		if res == nil {
			o.Outcome = "value:<nil-object>"
			return
		}
		o.Outcome = "value:" + string(res.Type())
		if sh := dataShape(res); sh != "flat" && sh != "shallow" {
			r.note("shape=" + sh)
		}
		r.guard("result-inspect", func() { _ = res.Inspect() })
		if !c.NoIface {
			r.guard("result-interface", func() { _ = res.Interface() })
		}
	}

	if len(c.VMReuse) > 0 {
		r.vmReuse(c, src, ctx, opts, dl)
		return
	}
	if c.Direct {
		var res object.Object
		var err error
		if !r.guard("eval", func() { res, err = risor.Eval(ctx, src, opts...) }) {
			o.Outcome = "go-panic"
			return
		}
		finish(res, err, "eval")
		if len(o.Exits) > 0 {
			o.Outcome += "+exit"
		}
		r.mark("done")
		return
	}

	var prog *ast.Program
	var perr error
	if !r.guard("parse", func() { prog, perr = parser.Parse(ctx, src, popts...) }) {
		o.Outcome = "go-panic"
		return
	}
	if perr != nil {
		r.formatErr("parse", perr)
		o.Outcome = errKind("parse", perr, o.ErrText)
		r.mark("done")
		return
	}
	// the configuration (default globals) is only needed from here on
	var cfg *risor.Config
	if !r.guard("config", func() { cfg = risor.NewConfig(opts...) }) {
		o.Outcome = "go-panic"
		return
	}
	var code *compiler.Code
	var cerr error
	if !r.guard("compile", func() { code, cerr = compiler.Compile(prog, cfg.CompilerOpts()...) }) {
		o.Outcome = "go-panic"
		return
	}
	if cerr != nil {
		r.formatErr("compile", cerr)
		o.Outcome = errKind("compile", cerr, o.ErrText)
		r.mark("done")
		return
	}
	if c.NoEval {
		o.Outcome = "compiled"
		r.mark("done")
		return
	}
	var res object.Object
	var err error
	if !r.guard("run", func() { res, err = risor.EvalCode(ctx, code, opts...) }) {
		o.Outcome = "go-panic"
		return
	}
	finish(res, err, "run")
	if len(o.Exits) > 0 {
		o.Outcome += "+exit"
	}
	if c.Call {
		var names []string
		for _, m := range funcDeclRe.FindAllStringSubmatch(src, 3) {
			names = append(names, m[1])
		}
		if len(c.CallNames) > 0 {
			names = c.CallNames
		}
		for i, name := range names {
			var cres object.Object
			var cerr error
			var args []object.Object
			if i == 1 && len(c.CallNames) == 0 {
				args = []object.Object{object.NewInt(1)}
			}
			cctx, ccancel := context.WithTimeout(context.Background(), dl)
			ok := r.guard("call", func() { cres, cerr = risor.Call(cctx, code, name, args, opts...) })
			ccancel()
			if !ok {
				continue
			}
			if cerr != nil {
				r.formatErr("call", cerr)
			} else if cres != nil {
				if sh := dataShape(cres); sh != "flat" && sh != "shallow" {
					r.note("shape=" + sh)
				}
				r.guard("call-result-inspect", func() { _ = cres.Inspect() })
				r.guard("call-result-interface", func() { _ = cres.Interface() })
			}
		}
	}
	r.mark("done")
}
