package c19

import (
	"bytes"
	"encoding/base64"
	"encoding/json"
	"fmt"
	"math"
	"path/filepath"
	"regexp"
	"strconv"
	"strings"
	"unicode/utf8"
)

// ---------------------------------------------------------------------------------------
// The mapping table: risor function -> the Go standard-library call it wraps.
//
// Every entry was written after reading the wrapper's source and its .md documentation; the Go
// closure encodes the wrapper's *documented* relation to Go (argument order, defaults, result
// shape). Where Go itself panics, or the argument is outside the Go function's domain, the closure
// reports Undefined and only "no Go panic reaches the caller on defined arguments" is judged.

type ptype int

const (
	pStr      ptype = iota // free string (arbitrary Unicode, invalid UTF-8, empty)
	pSub                   // string related to the first string argument (piece of it, case variant, or free)
	pCutset                // set of characters, often taken from the ends of the first string
	pBytes                 // byte_slice
	pBSub                  // byte_slice related to the first one
	pCount                 // repeat/replace count, bounded so that the output stays small
	pInt                   // any int (boundaries)
	pSmallInt              // match limit: -1, 0, small, extreme
	pNum                   // int or float
	pBool                  //
	pStrList               // list of strings
	pNumList               // list of numbers
	pNumStr                // numeric-looking string
	pPath                  // file path
	pGlob                  // shell pattern
	pPathList              // PATH-like list
	pRegex                 // regular expression, possibly invalid
	pRegexOK               // valid regular expression (receiver of regexp object methods)
	pSubject               // text to match
	pRepl                  // replacement template
	pRune                  // string meant as one rune
	pByte1                 // one byte given as 1-byte string
	pBase                  // strconv base
	pBits                  // strconv bit size
	pB64                   // text handed to a base64 decoder
	pJSONText              // text handed to json.valid
)

const (
	kFunc     = iota // module function: <mod>.<name>(args...)
	kMethod          // method on string / byte_slice: args[0].<name>(args[1:]...)
	kReMethod        // method on a compiled regexp: regexp.compile(args[0]).<name>(args[1:]...)
	kModCall         // the module object itself called: <mod>(args...)
	kConst           // module constant
)

// exp is what Go says the result is.
type exp struct {
	Undefined bool   // Go panics / argument outside the Go function's domain
	Err       bool   // Go returns an error: risor must return/raise an error
	Val       V      // expected value
	Alt       []V    // further accepted values (documented ambiguity)
	AltErr    bool   // an error is accepted as well
	Note      string // Go panic text when Undefined
}

func val(v V) exp        { return exp{Val: v} }
func isErr() exp         { return exp{Err: true} }
func undef(n string) exp { return exp{Undefined: true, Note: n} }

type entry struct {
	Mod, Name string
	Kind      int
	Params    []ptype
	Opt       int // number of trailing optional parameters
	VarMax    int // >0: variadic, Params[0] repeated 0..VarMax times
	Go        func(a []V) exp
	GoName    string // the Go function, for the evidence
}

func (e *entry) key() string { return e.Mod + "." + e.Name }

// expect evaluates the Go side; a Go panic means "not defined on this argument".
func expect(e *entry, a []V) (x exp) {
	defer func() {
		if r := recover(); r != nil {
			x = undef(fmt.Sprint(r))
		}
	}()
	return e.Go(a)
}

func sv(a V) string { return a.Str() }
func bv(a V) []byte { return a.S }

func goStrErr(v string, err error) exp {
	if err != nil {
		return isErr()
	}
	return val(vStr(v))
}

// oneRune: the argument is exactly one valid rune.
func oneRune(a V) (rune, bool) {
	r, n := utf8.DecodeRune(a.S)
	if n == 0 || n != len(a.S) || (r == utf8.RuneError && n == 1) {
		return 0, false
	}
	return r, true
}

func buildTable() []*entry {
	var t []*entry

	// ---- strings module and string methods share the Go side --------------------------------
	type sf struct {
		name   string
		params []ptype
		goName string
		f      func(a []V) exp
		method bool // also a string method
	}
	strFns := []sf{
		{"contains", []ptype{pStr, pSub}, "strings.Contains", func(a []V) exp { return val(vBool(strings.Contains(sv(a[0]), sv(a[1])))) }, true},
		{"has_prefix", []ptype{pStr, pSub}, "strings.HasPrefix", func(a []V) exp { return val(vBool(strings.HasPrefix(sv(a[0]), sv(a[1])))) }, true},
		{"has_suffix", []ptype{pStr, pSub}, "strings.HasSuffix", func(a []V) exp { return val(vBool(strings.HasSuffix(sv(a[0]), sv(a[1])))) }, true},
		{"count", []ptype{pStr, pSub}, "strings.Count", func(a []V) exp { return val(vInt(int64(strings.Count(sv(a[0]), sv(a[1]))))) }, true},
		{"compare", []ptype{pStr, pSub}, "strings.Compare", func(a []V) exp { return val(vInt(int64(strings.Compare(sv(a[0]), sv(a[1]))))) }, false},
		{"repeat", []ptype{pStr, pCount}, "strings.Repeat", func(a []V) exp { return val(vStr(strings.Repeat(sv(a[0]), int(a[1].I)))) }, false},
		{"split", []ptype{pStr, pSub}, "strings.Split", func(a []V) exp { return val(vStrList(strings.Split(sv(a[0]), sv(a[1])))) }, true},
		{"fields", []ptype{pStr}, "strings.Fields", func(a []V) exp { return val(vStrList(strings.Fields(sv(a[0])))) }, true},
		{"index", []ptype{pStr, pSub}, "strings.Index", func(a []V) exp { return val(vInt(int64(strings.Index(sv(a[0]), sv(a[1]))))) }, true},
		{"last_index", []ptype{pStr, pSub}, "strings.LastIndex", func(a []V) exp { return val(vInt(int64(strings.LastIndex(sv(a[0]), sv(a[1]))))) }, true},
		{"replace_all", []ptype{pStr, pSub, pStr}, "strings.ReplaceAll", func(a []V) exp { return val(vStr(strings.ReplaceAll(sv(a[0]), sv(a[1]), sv(a[2])))) }, true},
		{"to_lower", []ptype{pStr}, "strings.ToLower", func(a []V) exp { return val(vStr(strings.ToLower(sv(a[0])))) }, true},
		{"to_upper", []ptype{pStr}, "strings.ToUpper", func(a []V) exp { return val(vStr(strings.ToUpper(sv(a[0])))) }, true},
		{"trim", []ptype{pStr, pCutset}, "strings.Trim", func(a []V) exp { return val(vStr(strings.Trim(sv(a[0]), sv(a[1])))) }, true},
		{"trim_prefix", []ptype{pStr, pSub}, "strings.TrimPrefix", func(a []V) exp { return val(vStr(strings.TrimPrefix(sv(a[0]), sv(a[1])))) }, true},
		{"trim_suffix", []ptype{pStr, pSub}, "strings.TrimSuffix", func(a []V) exp { return val(vStr(strings.TrimSuffix(sv(a[0]), sv(a[1])))) }, true},
		{"trim_space", []ptype{pStr}, "strings.TrimSpace", func(a []V) exp { return val(vStr(strings.TrimSpace(sv(a[0])))) }, true},
	}
	for _, f := range strFns {
		t = append(t, &entry{Mod: "strings", Name: f.name, Kind: kFunc, Params: f.params, Go: f.f, GoName: f.goName})
		if f.method {
			t = append(t, &entry{Mod: "string", Name: f.name, Kind: kMethod, Params: f.params, Go: f.f, GoName: f.goName})
		}
	}
	// join: the module takes (list, sep); the method is sep.join(list)
	t = append(t, &entry{Mod: "strings", Name: "join", Kind: kFunc, Params: []ptype{pStrList, pStr}, GoName: "strings.Join",
		Go: func(a []V) exp { return val(vStr(strings.Join(a[0].StrSlice(), sv(a[1])))) }})
	t = append(t, &entry{Mod: "string", Name: "join", Kind: kMethod, Params: []ptype{pStr, pStrList}, GoName: "strings.Join",
		Go: func(a []V) exp { return val(vStr(strings.Join(a[1].StrSlice(), sv(a[0])))) }})

	// ---- bytes module and byte_slice methods ---------------------------------------------------
	type bf struct {
		name   string
		params []ptype
		goName string
		f      func(a []V) exp
	}
	bytesFns := []bf{
		{"clone", []ptype{pBytes}, "bytes.Clone", func(a []V) exp { return val(vBytes(bytes.Clone(bv(a[0])))) }},
		{"contains", []ptype{pBytes, pBSub}, "bytes.Contains", func(a []V) exp { return val(vBool(bytes.Contains(bv(a[0]), bv(a[1])))) }},
		{"contains_any", []ptype{pBytes, pCutset}, "bytes.ContainsAny", func(a []V) exp { return val(vBool(bytes.ContainsAny(bv(a[0]), sv(a[1])))) }},
		{"contains_rune", []ptype{pBytes, pRune}, "bytes.ContainsRune", func(a []V) exp {
			r, ok := oneRune(a[1])
			if !ok {
				return undef("argument is not one rune")
			}
			return val(vBool(bytes.ContainsRune(bv(a[0]), r)))
		}},
		{"count", []ptype{pBytes, pBSub}, "bytes.Count", func(a []V) exp { return val(vInt(int64(bytes.Count(bv(a[0]), bv(a[1]))))) }},
		{"equals", []ptype{pBytes, pBSub}, "bytes.Equal", func(a []V) exp { return val(vBool(bytes.Equal(bv(a[0]), bv(a[1])))) }},
		{"has_prefix", []ptype{pBytes, pBSub}, "bytes.HasPrefix", func(a []V) exp { return val(vBool(bytes.HasPrefix(bv(a[0]), bv(a[1])))) }},
		{"has_suffix", []ptype{pBytes, pBSub}, "bytes.HasSuffix", func(a []V) exp { return val(vBool(bytes.HasSuffix(bv(a[0]), bv(a[1])))) }},
		{"index", []ptype{pBytes, pBSub}, "bytes.Index", func(a []V) exp { return val(vInt(int64(bytes.Index(bv(a[0]), bv(a[1]))))) }},
		{"index_any", []ptype{pBytes, pCutset}, "bytes.IndexAny", func(a []V) exp { return val(vInt(int64(bytes.IndexAny(bv(a[0]), sv(a[1]))))) }},
		{"index_byte", []ptype{pBytes, pByte1}, "bytes.IndexByte", func(a []V) exp {
			if len(a[1].S) != 1 {
				return undef("argument is not one byte")
			}
			return val(vInt(int64(bytes.IndexByte(bv(a[0]), a[1].S[0]))))
		}},
		{"index_rune", []ptype{pBytes, pRune}, "bytes.IndexRune", func(a []V) exp {
			r, ok := oneRune(a[1])
			if !ok {
				return undef("argument is not one rune")
			}
			return val(vInt(int64(bytes.IndexRune(bv(a[0]), r))))
		}},
		{"repeat", []ptype{pBytes, pCount}, "bytes.Repeat", func(a []V) exp { return val(vBytes(bytes.Repeat(bv(a[0]), int(a[1].I)))) }},
		{"replace", []ptype{pBytes, pBSub, pBytes, pCount}, "bytes.Replace", func(a []V) exp {
			return val(vBytes(bytes.Replace(bv(a[0]), bv(a[1]), bv(a[2]), int(a[3].I))))
		}},
		{"replace_all", []ptype{pBytes, pBSub, pBytes}, "bytes.ReplaceAll", func(a []V) exp { return val(vBytes(bytes.ReplaceAll(bv(a[0]), bv(a[1]), bv(a[2])))) }},
	}
	for _, f := range bytesFns {
		t = append(t, &entry{Mod: "bytes", Name: f.name, Kind: kFunc, Params: f.params, Go: f.f, GoName: f.goName})
		t = append(t, &entry{Mod: "byte_slice", Name: f.name, Kind: kMethod, Params: f.params, Go: f.f, GoName: f.goName})
	}

	// ---- strconv ----------------------------------------------------------------------------------
	t = append(t,
		&entry{Mod: "strconv", Name: "atoi", Kind: kFunc, Params: []ptype{pNumStr}, GoName: "strconv.Atoi", Go: func(a []V) exp {
			i, err := strconv.Atoi(sv(a[0]))
			if err != nil {
				return isErr()
			}
			return val(vInt(int64(i)))
		}},
		&entry{Mod: "strconv", Name: "parse_bool", Kind: kFunc, Params: []ptype{pNumStr}, GoName: "strconv.ParseBool", Go: func(a []V) exp {
			v, err := strconv.ParseBool(sv(a[0]))
			if err != nil {
				return isErr()
			}
			return val(vBool(v))
		}},
		&entry{Mod: "strconv", Name: "parse_float", Kind: kFunc, Params: []ptype{pNumStr}, GoName: "strconv.ParseFloat(s, 64)", Go: func(a []V) exp {
			v, err := strconv.ParseFloat(sv(a[0]), 64)
			if err != nil {
				return isErr()
			}
			return val(vFloat(v))
		}},
		&entry{Mod: "strconv", Name: "parse_int", Kind: kFunc, Params: []ptype{pNumStr, pBase, pBits}, Opt: 2, GoName: "strconv.ParseInt(s, base=10, bits=64)", Go: func(a []V) exp {
			base, bits := 10, 64
			if len(a) > 1 {
				base = int(a[1].I)
			}
			if len(a) > 2 {
				bits = int(a[2].I)
			}
			v, err := strconv.ParseInt(sv(a[0]), base, bits)
			if err != nil {
				return isErr()
			}
			return val(vInt(v))
		}},
	)

	// ---- math ---------------------------------------------------------------------------------------
	f1 := func(name, goName string, fn func(float64) float64) *entry {
		return &entry{Mod: "math", Name: name, Kind: kFunc, Params: []ptype{pNum}, GoName: goName, Go: func(a []V) exp { return val(vFloat(fn(a[0].Num()))) }}
	}
	f2 := func(name, goName string, fn func(x, y float64) float64) *entry {
		return &entry{Mod: "math", Name: name, Kind: kFunc, Params: []ptype{pNum, pNum}, GoName: goName, Go: func(a []V) exp { return val(vFloat(fn(a[0].Num(), a[1].Num()))) }}
	}
	// functions documented as "number -> number": an int argument comes back as the same kind
	keepInt := func(name, goName string, fn func(float64) float64, onInt func(int64) exp) *entry {
		return &entry{Mod: "math", Name: name, Kind: kFunc, Params: []ptype{pNum}, GoName: goName, Go: func(a []V) exp {
			if a[0].K == "int" {
				return onInt(a[0].I)
			}
			return val(vFloat(fn(a[0].Float())))
		}}
	}
	t = append(t,
		keepInt("abs", "math.Abs", math.Abs, func(i int64) exp {
			if i == math.MinInt64 {
				return undef("|MinInt64| is not an int64; Go has no integer Abs")
			}
			if i < 0 {
				i = -i
			}
			return val(vInt(i))
		}),
		keepInt("ceil", "math.Ceil", math.Ceil, func(i int64) exp { return val(vInt(i)) }),
		keepInt("floor", "math.Floor", math.Floor, func(i int64) exp { return val(vInt(i)) }),
		f1("sqrt", "math.Sqrt", math.Sqrt), f1("sin", "math.Sin", math.Sin), f1("cos", "math.Cos", math.Cos), f1("tan", "math.Tan", math.Tan),
		f1("log", "math.Log", math.Log), f1("log10", "math.Log10", math.Log10), f1("log2", "math.Log2", math.Log2), f1("round", "math.Round", math.Round),
		f2("atan2", "math.Atan2", math.Atan2), f2("max", "math.Max", math.Max), f2("min", "math.Min", math.Min), f2("mod", "math.Mod", math.Mod), f2("pow", "math.Pow", math.Pow),
		&entry{Mod: "math", Name: "pow10", Kind: kFunc, Params: []ptype{pNum}, GoName: "math.Pow10", Go: func(a []V) exp {
			if a[0].K == "int" {
				return val(vFloat(math.Pow10(int(a[0].I))))
			}
			f := a[0].Float()
			if f != math.Trunc(f) || math.IsInf(f, 0) || math.IsNaN(f) || f >= 1<<63 || f < -(1<<63) {
				return undef("math.Pow10 takes an int")
			}
			return val(vFloat(math.Pow10(int(f))))
		}},
		&entry{Mod: "math", Name: "is_inf", Kind: kFunc, Params: []ptype{pNum}, GoName: "math.IsInf(x, 0)", Go: func(a []V) exp { return val(vBool(math.IsInf(a[0].Num(), 0))) }},
		&entry{Mod: "math", Name: "inf", Kind: kFunc, Params: []ptype{pInt}, Opt: 1, GoName: "math.Inf(sign=1)", Go: func(a []V) exp {
			sign := 1
			if len(a) == 1 {
				sign = int(a[0].I)
			}
			return val(vFloat(math.Inf(sign)))
		}},
		// sum is risor's own addition to the module (documented as such): left-to-right float64 sum
		&entry{Mod: "math", Name: "sum", Kind: kFunc, Params: []ptype{pNumList}, GoName: "(none: documented as risor's own; model = left-to-right float64 sum)", Go: func(a []V) exp {
			var sum float64
			for _, e := range a[0].L {
				sum += e.Num()
			}
			return val(vFloat(sum))
		}},
		&entry{Mod: "math", Name: "PI", Kind: kConst, GoName: "math.Pi", Go: func(a []V) exp { return val(vFloat(math.Pi)) }},
		&entry{Mod: "math", Name: "E", Kind: kConst, GoName: "math.E", Go: func(a []V) exp { return val(vFloat(math.E)) }},
	)

	// ---- base64 module --------------------------------------------------------------------------------
	// The documentation contradicts itself about the default of `pad` (text: false; examples and
	// code: true), so without the argument either encoding is accepted; with it the result is pinned.
	b64enc := func(name string, padded, raw *base64.Encoding, goName string) *entry {
		return &entry{Mod: "base64", Name: name, Kind: kFunc, Params: []ptype{pBytes, pBool}, Opt: 1, GoName: goName, Go: func(a []V) exp {
			if len(a) == 2 {
				if a[1].B {
					return val(vStr(padded.EncodeToString(bv(a[0]))))
				}
				return val(vStr(raw.EncodeToString(bv(a[0]))))
			}
			return exp{Val: vStr(padded.EncodeToString(bv(a[0]))), Alt: []V{vStr(raw.EncodeToString(bv(a[0])))}}
		}}
	}
	b64dec := func(name string, padded, raw *base64.Encoding, goName string) *entry {
		one := func(enc *base64.Encoding, text string) exp {
			out, err := enc.DecodeString(text)
			if err != nil {
				return isErr()
			}
			return val(vBytes(out))
		}
		return &entry{Mod: "base64", Name: name, Kind: kFunc, Params: []ptype{pB64, pBool}, Opt: 1, GoName: goName, Go: func(a []V) exp {
			if len(a) == 2 {
				if a[1].B {
					return one(padded, sv(a[0]))
				}
				return one(raw, sv(a[0]))
			}
			x, y := one(padded, sv(a[0])), one(raw, sv(a[0]))
			switch {
			case x.Err && y.Err:
				return x
			case x.Err:
				return exp{Val: y.Val, AltErr: true}
			case y.Err:
				return exp{Val: x.Val, AltErr: true}
			}
			return exp{Val: x.Val, Alt: []V{y.Val}}
		}}
	}
	t = append(t,
		b64enc("encode", base64.StdEncoding, base64.RawStdEncoding, "base64.StdEncoding / RawStdEncoding .Encode"),
		b64enc("url_encode", base64.URLEncoding, base64.RawURLEncoding, "base64.URLEncoding / RawURLEncoding .Encode"),
		b64dec("decode", base64.StdEncoding, base64.RawStdEncoding, "base64.StdEncoding / RawStdEncoding .Decode"),
		b64dec("url_decode", base64.URLEncoding, base64.RawURLEncoding, "base64.URLEncoding / RawURLEncoding .Decode"),
	)

	// ---- filepath -------------------------------------------------------------------------------------
	p1 := func(name, goName string, fn func(string) string) *entry {
		return &entry{Mod: "filepath", Name: name, Kind: kFunc, Params: []ptype{pPath}, GoName: goName, Go: func(a []V) exp { return val(vStr(fn(sv(a[0])))) }}
	}
	t = append(t,
		&entry{Mod: "filepath", Name: "abs", Kind: kFunc, Params: []ptype{pPath}, GoName: "filepath.Abs", Go: func(a []V) exp { return goStrErr(filepath.Abs(sv(a[0]))) }},
		p1("base", "filepath.Base", filepath.Base), p1("clean", "filepath.Clean", filepath.Clean), p1("dir", "filepath.Dir", filepath.Dir), p1("ext", "filepath.Ext", filepath.Ext),
		&entry{Mod: "filepath", Name: "is_abs", Kind: kFunc, Params: []ptype{pPath}, GoName: "filepath.IsAbs", Go: func(a []V) exp { return val(vBool(filepath.IsAbs(sv(a[0])))) }},
		&entry{Mod: "filepath", Name: "join", Kind: kFunc, Params: []ptype{pPath}, VarMax: 4, GoName: "filepath.Join", Go: func(a []V) exp {
			parts := make([]string, len(a))
			for i := range a {
				parts[i] = sv(a[i])
			}
			return val(vStr(filepath.Join(parts...)))
		}},
		&entry{Mod: "filepath", Name: "match", Kind: kFunc, Params: []ptype{pGlob, pPath}, GoName: "filepath.Match", Go: func(a []V) exp {
			m, err := filepath.Match(sv(a[0]), sv(a[1]))
			if err != nil {
				return isErr()
			}
			return val(vBool(m))
		}},
		&entry{Mod: "filepath", Name: "rel", Kind: kFunc, Params: []ptype{pPath, pPath}, GoName: "filepath.Rel", Go: func(a []V) exp { return goStrErr(filepath.Rel(sv(a[0]), sv(a[1]))) }},
		&entry{Mod: "filepath", Name: "split", Kind: kFunc, Params: []ptype{pPath}, GoName: "filepath.Split (as a two-item list)", Go: func(a []V) exp {
			d, f := filepath.Split(sv(a[0]))
			return val(vList(vStr(d), vStr(f)))
		}},
		&entry{Mod: "filepath", Name: "split_list", Kind: kFunc, Params: []ptype{pPathList}, GoName: "filepath.SplitList", Go: func(a []V) exp { return val(vStrList(filepath.SplitList(sv(a[0])))) }},
	)

	// ---- regexp ---------------------------------------------------------------------------------------
	compile := func(a []V) exp {
		re, err := regexp.Compile(sv(a[0]))
		if err != nil {
			return isErr()
		}
		return val(vOther("regexp", fmt.Sprintf("regexp(%q)", re.String())))
	}
	reM := func(name, goName string, params []ptype, opt int, fn func(re *regexp.Regexp, a []V) V) *entry {
		return &entry{Mod: "regexp.object", Name: name, Kind: kReMethod, Params: append([]ptype{pRegexOK}, params...), Opt: opt, GoName: goName, Go: func(a []V) exp {
			re, err := regexp.Compile(sv(a[0]))
			if err != nil {
				return isErr()
			}
			return val(fn(re, a[1:]))
		}}
	}
	limit := func(a []V, i int) int {
		if len(a) > i {
			return int(a[i].I)
		}
		return -1
	}
	t = append(t,
		&entry{Mod: "regexp", Name: "compile", Kind: kFunc, Params: []ptype{pRegex}, GoName: "regexp.Compile", Go: compile},
		&entry{Mod: "regexp", Name: "(call)", Kind: kModCall, Params: []ptype{pRegex}, GoName: "regexp.Compile", Go: compile},
		&entry{Mod: "regexp", Name: "match", Kind: kFunc, Params: []ptype{pRegex, pSubject}, GoName: "regexp.MatchString", Go: func(a []V) exp {
			m, err := regexp.MatchString(sv(a[0]), sv(a[1]))
			if err != nil {
				return isErr()
			}
			return val(vBool(m))
		}},
		reM("match", "(*Regexp).MatchString", []ptype{pSubject}, 0, func(re *regexp.Regexp, a []V) V { return vBool(re.MatchString(sv(a[0]))) }),
		reM("find", "(*Regexp).FindString", []ptype{pSubject}, 0, func(re *regexp.Regexp, a []V) V { return vStr(re.FindString(sv(a[0]))) }),
		reM("find_all", "(*Regexp).FindAllString(s, n=-1)", []ptype{pSubject, pSmallInt}, 1, func(re *regexp.Regexp, a []V) V { return vStrList(re.FindAllString(sv(a[0]), limit(a, 1))) }),
		reM("find_submatch", "(*Regexp).FindStringSubmatch", []ptype{pSubject}, 0, func(re *regexp.Regexp, a []V) V { return vStrList(re.FindStringSubmatch(sv(a[0]))) }),
		reM("replace_all", "(*Regexp).ReplaceAllString", []ptype{pSubject, pRepl}, 0, func(re *regexp.Regexp, a []V) V { return vStr(re.ReplaceAllString(sv(a[0]), sv(a[1]))) }),
		reM("split", "(*Regexp).Split(s, n=-1)", []ptype{pSubject, pSmallInt}, 1, func(re *regexp.Regexp, a []V) V { return vStrList(re.Split(sv(a[0]), limit(a, 1))) }),
	)

	// ---- json.valid (marshal / unmarshal are judged against the json codec, see codec.go) ---------------
	t = append(t, &entry{Mod: "json", Name: "valid", Kind: kFunc, Params: []ptype{pJSONText}, GoName: "json.Valid", Go: func(a []V) exp { return val(vBool(json.Valid(bv(a[0])))) }})
	return t
}

// Functions that exist in the modules but are deliberately not table entries, with the reason.
var outOfScope = map[string]string{
	"filepath.walk_dir": "not a plain wrapper: walks the file system through risor's OS abstraction and calls back into the VM (covered by C12/C13)",
	"json.marshal":      "judged by the codec part of this check (agreement with encode(x, \"json\"))",
	"json.unmarshal":    "judged by the codec part of this check (agreement with decode(x, \"json\"))",
}

// Codecs known to the check; csv is registered but is not one of the lossless codecs of the statement
// (it stringifies every cell), so it is out of scope.
var codecsInScope = []string{"base64", "base32", "hex", "gzip", "json", "urlquery"}
var codecsOutOfScope = map[string]string{"csv": "not lossless by design (cells are stringified); not listed in the statement"}
