package c19

import (
	"context"
	"fmt"
	"math"
	"strings"

	"github.com/risor-io/risor"
	"github.com/risor-io/risor/object"

	"verif/internal/mon"
)

// env holds the LIVE objects a script sees: the default globals of a risor configuration
// (module objects, the encode/decode builtins). Built once per worker process.
type env struct {
	globals map[string]any
}

func newEnv() *env {
	return &env{globals: risor.NewConfig().Globals()}
}

func (v *env) module(name string) (*object.Module, error) {
	m, ok := v.globals[name].(*object.Module)
	if !ok {
		return nil, fmt.Errorf("global %q is not a module (%T)", name, v.globals[name])
	}
	return m, nil
}

func (v *env) builtin(name string) (*object.Builtin, error) {
	b, ok := v.globals[name].(*object.Builtin)
	if !ok {
		return nil, fmt.Errorf("global %q is not a builtin (%T)", name, v.globals[name])
	}
	return b, nil
}

// got is what risor returned on one route.
type got struct {
	Val     V
	IsErr   bool
	ErrMsg  string
	Panic   string // Go panic that escaped (object API) or was reported as "panic: ..." (script)
	Harness string // the harness could not make the call (missing function etc.)
}

func (g got) String() string {
	switch {
	case g.Harness != "":
		return "harness problem: " + g.Harness
	case g.Panic != "":
		return "PANIC " + g.Panic
	case g.IsErr:
		return "error(" + mon.Truncate(g.ErrMsg, 300) + ")"
	}
	return mon.Truncate(g.Val.String(), 600)
}

func objs(args []V) []object.Object {
	out := make([]object.Object, len(args))
	for i, a := range args {
		out[i] = a.Obj()
	}
	return out
}

func wrapResult(o object.Object) got {
	if e, ok := o.(*object.Error); ok {
		msg := ""
		func() {
			defer func() {
				if r := recover(); r != nil {
					msg = fmt.Sprintf("<Error() panicked: %v>", r)
				}
			}()
			msg = e.Value().Error()
		}()
		return got{IsErr: true, ErrMsg: msg}
	}
	return got{Val: fromObj(o)}
}

// callBuiltin calls a builtin through the object API under recover.
func callBuiltin(fn object.Object, args ...object.Object) (g got) {
	defer func() {
		if r := recover(); r != nil {
			g = got{Panic: fmt.Sprint(r)}
		}
	}()
	b, ok := fn.(*object.Builtin)
	if !ok {
		return got{Harness: fmt.Sprintf("attribute is %T, not a builtin", fn)}
	}
	return wrapResult(b.Call(context.Background(), args...))
}

// callAPI makes the call through the object API.
func (v *env) callAPI(e *entry, args []V) (g got) {
	defer func() {
		if r := recover(); r != nil {
			g = got{Panic: fmt.Sprint(r)}
		}
	}()
	switch e.Kind {
	case kFunc, kConst, kModCall:
		m, err := v.module(e.Mod)
		if err != nil {
			return got{Harness: err.Error()}
		}
		if e.Kind == kModCall {
			return wrapResult(m.Call(context.Background(), objs(args)...))
		}
		attr, ok := m.GetAttr(e.Name)
		if !ok {
			return got{Harness: "module " + e.Mod + " has no attribute " + e.Name}
		}
		if e.Kind == kConst {
			return wrapResult(attr)
		}
		return callBuiltin(attr, objs(args)...)
	case kMethod:
		recv := args[0].Obj()
		attr, ok := recv.GetAttr(e.Name)
		if !ok {
			return got{Harness: string(recv.Type()) + " has no method " + e.Name}
		}
		return callBuiltin(attr, objs(args[1:])...)
	case kReMethod:
		m, err := v.module("regexp")
		if err != nil {
			return got{Harness: err.Error()}
		}
		comp, ok := m.GetAttr("compile")
		if !ok {
			return got{Harness: "regexp.compile missing"}
		}
		var reObj object.Object
		if c := callBuiltinObj(comp, args[0].Obj()); c.err != nil {
			return *c.err
		} else {
			reObj = c.obj
		}
		attr, ok := reObj.GetAttr(e.Name)
		if !ok {
			return got{Harness: "regexp object has no method " + e.Name}
		}
		return callBuiltin(attr, objs(args[1:])...)
	}
	return got{Harness: "bad entry kind"}
}

type objOrGot struct {
	obj object.Object
	err *got
}

func callBuiltinObj(fn object.Object, args ...object.Object) (r objOrGot) {
	defer func() {
		if p := recover(); p != nil {
			r = objOrGot{err: &got{Panic: fmt.Sprint(p)}}
		}
	}()
	b, ok := fn.(*object.Builtin)
	if !ok {
		return objOrGot{err: &got{Harness: fmt.Sprintf("attribute is %T, not a builtin", fn)}}
	}
	o := b.Call(context.Background(), args...)
	if _, isE := o.(*object.Error); isE {
		g := wrapResult(o)
		return objOrGot{err: &g}
	}
	return objOrGot{obj: o}
}

func argNames(n, from int) string {
	parts := make([]string, 0, n)
	for i := from; i < n; i++ {
		parts = append(parts, fmt.Sprintf("a%d", i))
	}
	return strings.Join(parts, ", ")
}

func scriptSrc(e *entry, n int) string {
	switch e.Kind {
	case kFunc:
		return fmt.Sprintf("%s.%s(%s)", e.Mod, e.Name, argNames(n, 0))
	case kMethod:
		return fmt.Sprintf("a0.%s(%s)", e.Name, argNames(n, 1))
	case kReMethod:
		return fmt.Sprintf("regexp.compile(a0).%s(%s)", e.Name, argNames(n, 1))
	case kModCall:
		return fmt.Sprintf("%s(%s)", e.Mod, argNames(n, 0))
	case kConst:
		return fmt.Sprintf("%s.%s", e.Mod, e.Name)
	}
	return "nil"
}

// evalScript runs a script whose arguments are passed as globals a0, a1, ...; the other globals
// are the live default globals.
func (v *env) evalScript(src string, args []V) (g got) {
	defer func() {
		if r := recover(); r != nil {
			g = got{Panic: "escaped risor.Eval: " + fmt.Sprint(r)}
		}
	}()
	gl := make(map[string]any, len(v.globals)+len(args))
	for k, x := range v.globals {
		gl[k] = x
	}
	for i, a := range args {
		gl[fmt.Sprintf("a%d", i)] = a.Obj()
	}
	res, err := risor.Eval(context.Background(), src, risor.WithoutDefaultGlobals(), risor.WithGlobals(gl))
	if err != nil {
		msg := err.Error()
		if strings.HasPrefix(msg, "panic:") {
			return got{Panic: msg}
		}
		return got{IsErr: true, ErrMsg: msg}
	}
	return wrapResult(res)
}

func (v *env) callScript(e *entry, args []V) got {
	return v.evalScript(scriptSrc(e, len(args)), args)
}

// judge compares one route's result with Go's. kind == "" means agreement (or nothing demanded).
func judge(x exp, g got) (kind string, note string) {
	if g.Harness != "" {
		return "harness", g.Harness
	}
	if g.Panic != "" {
		if x.Undefined {
			return "", "go-undefined-panic"
		}
		return "panic", ""
	}
	if x.Undefined {
		return "", "go-undefined"
	}
	matches := func() bool {
		if g.IsErr {
			return false
		}
		if !x.Err && same(x.Val, g.Val) {
			return true
		}
		for _, a := range x.Alt {
			if same(a, g.Val) {
				return true
			}
		}
		return false
	}
	if x.Err {
		if g.IsErr || matches() {
			return "", "go-error"
		}
		return "error-expected", ""
	}
	if g.IsErr {
		if x.AltErr {
			return "", ""
		}
		return "unexpected-error", ""
	}
	if matches() {
		return "", ""
	}
	if x.Val.K != g.Val.K {
		return "type-differs", ""
	}
	return "value-differs", ""
}

func (x exp) String() string {
	switch {
	case x.Undefined:
		return "undefined in Go (" + x.Note + ")"
	case x.Err:
		return "Go returns an error"
	}
	out := mon.Truncate(x.Val.String(), 600)
	for _, a := range x.Alt {
		out += "  or  " + mon.Truncate(a.String(), 300)
	}
	if x.AltErr {
		out += "  or  an error"
	}
	return out
}

// ---------------------------------------------------------------------------------------
// argument generation per table entry

func genArgs(r *mon.Rand, e *entry, thorough bool) []V {
	params := e.Params
	n := len(params)
	if e.VarMax > 0 {
		n = r.Intn(e.VarMax + 1)
		params = make([]ptype, n)
		for i := range params {
			params[i] = e.Params[0]
		}
	} else if e.Opt > 0 {
		n -= r.Intn(e.Opt + 1)
	}
	args := make([]V, 0, n)
	first, haveFirst := "", false
	setFirst := func(x string) {
		if !haveFirst {
			first, haveFirst = x, true
		}
	}
	for i := 0; i < n; i++ {
		var v V
		strish, bytish := false, false
		switch params[i] {
		case pStr:
			x := genStr(r)
			setFirst(x)
			v, strish = vStr(x), true
		case pSub:
			v, strish = vStr(genSub(r, first)), true
		case pCutset:
			v, strish = vStr(genCutset(r, first)), true
		case pBytes:
			x := genStr(r)
			setFirst(x)
			v, bytish = vBytes([]byte(x)), true
		case pBSub:
			v, bytish = vBytes([]byte(genSub(r, first))), true
		case pCount:
			v = vInt(genCount(r, len(first)))
		case pInt:
			v = vInt(genInt(r))
		case pSmallInt:
			v = vInt(mon.Pick(r, []int64{-1, 0, 1, 2, 3, 100, math.MaxInt64, math.MinInt64, -5}))
		case pNum:
			v = genNum(r)
		case pBool:
			v = vBool(r.Bool())
		case pStrList:
			v = vStrList(genStrList(r))
			if r.Chance(1, 10) && len(v.L) > 0 {
				v.L[r.Intn(len(v.L))].K = "bytes" // AsStringSlice accepts byte_slice items
			}
		case pNumList:
			m := mon.Pick(r, []int{0, 1, 2, 3, 6})
			v = V{K: "list"}
			for j := 0; j < m; j++ {
				v.L = append(v.L, genNum(r))
			}
		case pNumStr:
			v, strish = vStr(genNumStr(r)), true
		case pPath:
			x := genPath(r)
			setFirst(x)
			v, strish = vStr(x), true
		case pGlob:
			v, strish = vStr(genGlob(r)), true
		case pPathList:
			v, strish = vStr(genPathList(r)), true
		case pRegex:
			v, strish = vStr(genRegexp(r, true)), true
		case pRegexOK:
			v = vStr(genRegexp(r, false))
		case pSubject:
			v, strish = vStr(genSubject(r)), true
		case pRepl:
			v, strish = vStr(mon.Pick(r, reRepl)), true
		case pRune:
			switch k := r.Intn(8); {
			case k < 4:
				v = vStr(string(rune(r.Range(0, 127))))
				if haveFirst && len(first) > 0 && r.Bool() {
					v = vStr(string(first[r.Intn(len(first))] & 0x7f))
				}
			case k < 6:
				rs := []rune(first)
				if len(rs) > 0 && r.Bool() {
					v = vStr(string(rs[r.Intn(len(rs))]))
				} else {
					v = vStr(mon.Pick(r, []string{"é", "日", "😀", "ß", "ÿ", "\u0080", "߿", "￿"}))
				}
			default:
				v = vStr(mon.Pick(r, []string{"", "ab", "\xff", "\x80", "éé", "\xc3"}))
			}
			strish = true
		case pByte1:
			switch k := r.Intn(8); {
			case k < 3 && len(first) > 0:
				v = vStr(string([]byte{first[r.Intn(len(first))]}))
			case k < 6:
				v = vStr(string([]byte{byte(r.Intn(256))}))
			default:
				v = vStr(mon.Pick(r, []string{"", "ab", "é"}))
			}
			bytish = true
		case pBase:
			v = vInt(mon.Pick(r, []int64{0, 2, 8, 10, 16, 36, 37, 1, -1, 62, math.MaxInt64, math.MinInt64, 1 << 32, 3, 35}))
		case pBits:
			v = vInt(mon.Pick(r, []int64{0, 8, 16, 32, 64, 65, -1, 1, 7, 63, math.MaxInt64, 1<<32 + 8, math.MinInt64}))
		case pB64:
			v, strish = vStr(genB64Text(r, thorough)), true
		case pJSONText:
			t, _ := genJSONText(r)
			v, strish = vStr(string(t)), true
		}
		// the conversion helpers accept the sibling type (AsString takes a byte_slice, AsBytes a
		// string): exercise that now and then, but never on a receiver / first byte_slice argument
		receiver := i == 0 && (e.Kind == kMethod || e.Kind == kReMethod || e.Mod == "bytes")
		if !receiver && v.K == "str" && strish && r.Chance(1, 12) {
			v.K = "bytes"
		}
		if !receiver && v.K == "bytes" && bytish && r.Chance(1, 8) {
			v.K = "str"
		}
		if !receiver && v.K == "str" && bytish && params[i] == pByte1 && r.Chance(1, 3) {
			v.K = "bytes"
		}
		args = append(args, v)
	}
	return args
}
