package c19

import (
	"bytes"
	"compress/gzip"
	"encoding/base32"
	"encoding/base64"
	"encoding/hex"
	"encoding/json"
	"fmt"
	"io"
	"math"
	"net/url"
	"sort"
	"strings"
	"unicode/utf8"

	"github.com/risor-io/risor/object"

	"verif/internal/mon"
)

// ---------------------------------------------------------------------------------------
// generators for codec inputs

func genB64Text(r *mon.Rand, thorough bool) string {
	encs := []*base64.Encoding{base64.StdEncoding, base64.RawStdEncoding, base64.URLEncoding, base64.RawURLEncoding}
	switch r.Intn(6) {
	case 0:
		return genStr(r)
	case 1:
		t, _ := malformBaseN(r, base64.StdEncoding.EncodeToString(smallBlob(r)), "ABCDEFGHIJKLMNOPQRSTUVWXYZabcdefghijklmnopqrstuvwxyz0123456789+/", 4)
		return t
	}
	blob := genBlob(r, thorough)
	if len(blob) > 300 {
		blob = blob[:300]
	}
	return mon.Pick(r, encs).EncodeToString(blob)
}

func smallBlob(r *mon.Rand) []byte {
	n := r.Range(1, 12)
	b := make([]byte, n)
	for i := range b {
		b[i] = byte(r.Uint64())
	}
	return b
}

// malformBaseN makes a base64/base32 text malformed by construction (RFC 4648, padded
// alphabet): returns the text and the kind of malformation.
func malformBaseN(r *mon.Rand, valid, alphabet string, quantum int) (string, string) {
	notInAlphabet := func() byte {
		for {
			c := pickByte(r, "!@#$%^&*()-_ .,~:;<>?'\"`|{}[]\\\x00\x7f\xff\t01890abcxyz+/")
			if !strings.ContainsRune(alphabet, rune(c)) && c != '=' && c != '\r' && c != '\n' {
				return c
			}
		}
	}
	body := strings.TrimRight(valid, "=")
	pad := len(valid) - len(body)
	switch k := r.Intn(6); {
	case k == 0 && len(body) > 0: // a character outside the alphabet replaces one inside
		i := r.Intn(len(body))
		return body[:i] + string([]byte{notInAlphabet()}) + body[i+1:] + strings.Repeat("=", pad), "bad-char"
	case k == 1 && pad > 0: // one padding character removed
		return valid[:len(valid)-1], "bad-padding"
	case k == 2 && pad > 0: // all padding removed
		return body, "missing-padding"
	case k == 3: // one extra data character: length 1 mod quantum
		return strings.Repeat(string(alphabet[r.Intn(len(alphabet))]), quantum) + string(alphabet[r.Intn(len(alphabet))]), "truncated-quantum"
	case k == 4: // padding where data must be
		return valid + "=", "extra-padding"
	case k == 5 && pad > 0:
		return valid + valid, "padding-in-middle"
	}
	return string([]byte{notInAlphabet()}) + valid, "bad-char"
}

func gz(data []byte) []byte {
	var buf bytes.Buffer
	w := gzip.NewWriter(&buf)
	w.Write(data)
	w.Close()
	return buf.Bytes()
}

func malformGzip(r *mon.Rand, data []byte) ([]byte, string) {
	good := gz(data)
	switch r.Intn(7) {
	case 0:
		return good[:r.Intn(len(good))], "truncated"
	case 1:
		bad := append([]byte{}, good...)
		bad[r.Intn(2)] ^= 0x55
		return bad, "bad-magic"
	case 2:
		bad := append([]byte{}, good...)
		bad[len(bad)-1-r.Intn(8)] ^= 1 << uint(r.Intn(8))
		return bad, "crc-or-size-flip"
	case 3:
		return append(append([]byte{}, good...), []byte("garbage")...), "trailing-garbage"
	case 4:
		return []byte{}, "empty-input"
	case 5:
		return []byte(genStr(r) + "x"), "not-gzip"
	}
	if len(data) >= 64 {
		// a flipped bit in the compressed payload: either the deflate stream breaks or the CRC does
		bad := append([]byte{}, good...)
		bad[10+r.Intn(len(bad)-18)] ^= 1 << uint(r.Intn(8))
		return bad, "payload-flip"
	}
	return good[:len(good)-1], "truncated"
}

var jsonBad = []string{"", " ", "{", "}", "[", "]", "[1,]", "{\"a\":1,}", "{'a':1}", "{a:1}", "01", "NaN", "Infinity", "1 2", "{\"a\":}", "\"\\x\"", "\"abc", "tru", "+1", ".5", "1.", "0x10", "\"a\nb\"",
	"{\"a\" 1}", "nul", "\"\\u12\"", "-", "[1 2]", "{\"a\":1 \"b\":2}", "1e", "1e+", "--1", "\"\\\"", "[\"a\",", "{\"a\":[}", "undefined", "True", "None", "'a'", "\x00", "{\"a\":1}}", "[[]", "\"\t\"", "//c\n1", "1,", ",1", "{1:2}", "[1,,2]", "\"\\ud800\\u\""}

var jsonGood = []string{"null", "true", "false", "0", "-0", "1", "-1", "1.5", "1e3", "1E-3", "1e400", "-1e400", "9007199254740993", "-9007199254740993", "9223372036854775807", "9223372036854775808", "123456789012345678901234567890",
	"0.1", "1.0", "1e0", "\"\"", "\"a\"", "\"é\"", "\"\\u00e9\"", "\"\\ud83d\\ude00\"", "\"\\ud800\"", "\"\\udc00x\"", "\"<>&\"", "\"\\u2028\"", "\"\\/\"", "\"\\b\\f\\n\\r\\t\"", "\"\xff\"", "[]", "{}", "[[]]", "[{}]", "{\"a\":{}}",
	"[1,2,3]", "[1,\"a\",null,true,[2.5]]", "{\"a\":1,\"b\":[1,2],\"c\":{\"d\":null}}", "{\"a\":1,\"a\":2}", "{\"\":0}", "{\"é\":\"日本\"}", " [ 1 , 2 ] ", "\n{\n\"a\"\n:\n1\n}\n", "[1e400]", "{\"a\":1e400}", "4.9e-324", "2e-324", "1.7976931348623157e308",
	"[[[[[[[[[[[[[[[[[[[[1]]]]]]]]]]]]]]]]]]]]", "\"\\u0000\"", "-0.0", "0e0", "0E+0", "100000000000000000000", "1.000000000000000000000000001"}

// genJSONText: a JSON text with its class ("malformed:<kind>" texts are malformed by construction).
func genJSONText(r *mon.Rand) ([]byte, string) {
	switch r.Intn(8) {
	case 0, 1:
		i := r.Intn(len(jsonBad))
		return []byte(jsonBad[i]), fmt.Sprintf("malformed:%d", i)
	case 2:
		// a valid text cut somewhere in the middle (never a valid prefix: containers and strings stay open)
		v, _ := genJSONValue(r, 2)
		full, err := json.Marshal(toNative(v))
		if err == nil && len(full) >= 2 && (full[0] == '[' || full[0] == '{' || full[0] == '"') {
			return full[:r.Range(1, len(full)-1)], "malformed:truncated"
		}
		return []byte("[1,"), "malformed:truncated"
	case 3:
		v, _ := genJSONValue(r, 2)
		full, err := json.Marshal(toNative(v))
		if err == nil {
			return append(full, []byte(mon.Pick(r, []string{"x", " 1", ",", "]", "}", "\""}))...), "malformed:trailing-garbage"
		}
		return []byte("1 x"), "malformed:trailing-garbage"
	case 4:
		v, _ := genJSONValue(r, 3)
		full, err := json.Marshal(toNative(v))
		if err == nil {
			return full, "valid:generated"
		}
		return []byte("null"), "valid:literal"
	}
	i := r.Intn(len(jsonGood))
	return []byte(jsonGood[i]), fmt.Sprintf("valid:%d", i)
}

var urlBad = []string{"%", "%G1", "%1", "abc%", "%zz", "a%2", "%%", "%u1234", "%-1", "a%b", "%2", "100%", "%e9%", "% 20", "%0x"}

// JSON-domain values: nil / bool / int / float / string / list / map with string keys.
func genJSONLeaf(r *mon.Rand) V {
	switch r.Intn(12) {
	case 0:
		return vNil()
	case 1:
		return vBool(r.Bool())
	case 2, 3:
		return vInt(int64(r.Range(-1000, 1000)))
	case 4:
		return vInt(mon.Pick(r, intPool))
	case 5:
		return vInt(int64(r.Uint64()))
	case 6:
		return vFloat(mon.Pick(r, floatPool))
	case 7:
		f := genFloat(r)
		return vFloat(f)
	case 8:
		return vStr(mon.Pick(r, []string{"", "a", "<>&", "\"quoted\"", "back\\slash", "\x00\x01\x1f", "\u2028\u2029", "\n\t", "/", "é", "日本語", "😀", "\ufffd", "\U0010ffff", "\x7f"}))
	}
	return vStr(genStr(r))
}

func genJSONValue(r *mon.Rand, depth int) (V, string) {
	var v V
	switch k := r.Intn(10); {
	case depth <= 0 || k < 4:
		v = genJSONLeaf(r)
	case k < 7:
		n := r.Intn(5)
		v = V{K: "list"}
		for i := 0; i < n; i++ {
			e, _ := genJSONValue(r, depth-1)
			v.L = append(v.L, e)
		}
	default:
		n := r.Intn(5)
		v = V{K: "map"}
		seen := map[string]bool{}
		for i := 0; i < n; i++ {
			key := mon.Pick(r, []string{"a", "b", "c", "", "é", "key with space", "<k>", "日本", "0", "A", "\x00", "\"", "😀"})
			if r.Chance(1, 6) {
				key = genStr(r)
			}
			if seen[key] {
				continue
			}
			seen[key] = true
			e, _ := genJSONValue(r, depth-1)
			v.MK = append(v.MK, []byte(key))
			v.L = append(v.L, e)
		}
	}
	return v, jsonClass(v)
}

// toNative is the harness's own conversion of a JSON-domain value to what encoding/json takes.
func toNative(v V) any {
	switch v.K {
	case "nil":
		return nil
	case "bool":
		return v.B
	case "int":
		return v.I
	case "float":
		return v.Float()
	case "str":
		return string(v.S)
	case "list":
		out := make([]any, len(v.L))
		for i, e := range v.L {
			out[i] = toNative(e)
		}
		return out
	case "map":
		out := map[string]any{}
		for i, e := range v.L {
			out[string(v.MK[i])] = toNative(e)
		}
		return out
	}
	return nil
}

// fromNative converts what json.Unmarshal(&interface{}) produced, with float64 -> float.
func fromNative(x any) V {
	switch x := x.(type) {
	case nil:
		return vNil()
	case bool:
		return vBool(x)
	case float64:
		return vFloat(x)
	case string:
		return vStr(x)
	case []any:
		v := V{K: "list"}
		for _, e := range x {
			v.L = append(v.L, fromNative(e))
		}
		return v
	case map[string]any:
		keys := make([]string, 0, len(x))
		for k := range x {
			keys = append(keys, k)
		}
		sort.Strings(keys)
		v := V{K: "map"}
		for _, k := range keys {
			v.MK = append(v.MK, []byte(k))
			v.L = append(v.L, fromNative(x[k]))
		}
		return v
	}
	return vOther("go", fmt.Sprintf("%T", x))
}

// jsonClass: shape + the most notable leaf.
func jsonClass(v V) string {
	tags := map[string]bool{}
	depth := jsonTags(v, tags, 0)
	prio := []string{"nan-inf", "invalid-utf8", "invalid-utf8-key", "int>2^53", "neg-zero", "float-extreme", "html", "ctrl", "unicode", "unicode-key", "empty-str", "empty-key", "float", "int", "str", "bool", "nil", "empty-container"}
	best := "none"
	for _, p := range prio {
		if tags[p] {
			best = p
			break
		}
	}
	shape := "scalar"
	switch {
	case depth >= 2:
		shape = "nested"
	case v.K == "list":
		shape = "list"
	case v.K == "map":
		shape = "map"
	}
	return shape + "<" + best + ">"
}

func jsonTags(v V, tags map[string]bool, d int) int {
	switch v.K {
	case "nil", "bool":
		tags[v.K] = true
	case "int":
		if v.I > 1<<53 || v.I < -(1<<53) {
			tags["int>2^53"] = true
		} else {
			tags["int"] = true
		}
	case "float":
		f := v.Float()
		switch {
		case math.IsNaN(f) || math.IsInf(f, 0):
			tags["nan-inf"] = true
		case f == 0 && math.Signbit(f):
			tags["neg-zero"] = true
		case f != 0 && (math.Abs(f) < 1e-300 || math.Abs(f) > 1e300):
			tags["float-extreme"] = true
		default:
			tags["float"] = true
		}
	case "str":
		tagStr(v.S, "", tags)
	case "list", "map":
		if len(v.L) == 0 {
			tags["empty-container"] = true
		}
		max := d
		for i, e := range v.L {
			if v.K == "map" {
				tagStr(v.MK[i], "-key", tags)
			}
			if x := jsonTags(e, tags, d+1); x > max {
				max = x
			}
		}
		return max
	}
	return d
}

func tagStr(b []byte, suffix string, tags map[string]bool) {
	switch {
	case len(b) == 0:
		if suffix == "" {
			tags["empty-str"] = true
		} else {
			tags["empty-key"] = true
		}
	case !utf8.Valid(b):
		tags["invalid-utf8"+suffix] = true
	default:
		if suffix == "" && bytes.ContainsAny(b, "<>&") {
			tags["html"] = true
		}
		for _, c := range b {
			if c < 0x20 && suffix == "" {
				tags["ctrl"] = true
			}
			if c >= 0x80 {
				tags["unicode"+suffix] = true
			}
		}
		if suffix == "" {
			tags["str"] = true
		}
	}
}

func hasNonFinite(v V) bool {
	if v.K == "float" {
		f := v.Float()
		return math.IsNaN(f) || math.IsInf(f, 0)
	}
	for _, e := range v.L {
		if hasNonFinite(e) {
			return true
		}
	}
	return false
}

func blobClass(b []byte) string {
	switch {
	case len(b) == 0:
		return "empty"
	case len(b) <= 6:
		return fmt.Sprintf("len%d", len(b))
	case len(b) >= 1000:
		return "long"
	case len(b) == 256 && b[0] == 0 && b[255] == 255:
		return "all-bytes"
	case utf8.Valid(b):
		return "text"
	}
	return "binary"
}

// ---------------------------------------------------------------------------------------
// the codec checks

type codecCtx struct {
	v        *env
	o        *out
	enc, dec object.Object
}

func (c *codecCtx) encode(x object.Object, codec string) got {
	return callBuiltin(c.enc, x, object.NewString(codec))
}

func (c *codecCtx) decode(x object.Object, codec string) got {
	return callBuiltin(c.dec, x, object.NewString(codec))
}

// goDecode: what the Go decoder of the codec says about a text.
func goDecode(codec string, text []byte) (V, error) {
	switch codec {
	case "base64":
		out, err := base64.StdEncoding.DecodeString(string(text))
		return vBytes(out), err
	case "base32":
		out, err := base32.StdEncoding.DecodeString(string(text))
		return vBytes(out), err
	case "hex":
		out, err := hex.DecodeString(string(text))
		return vBytes(out), err
	case "gzip":
		zr, err := gzip.NewReader(bytes.NewReader(text))
		if err != nil {
			return V{}, err
		}
		out, err := io.ReadAll(zr)
		return vBytes(out), err
	case "urlquery":
		out, err := url.QueryUnescape(string(text))
		return vStr(out), err
	case "json":
		var x any
		if err := json.Unmarshal(text, &x); err != nil {
			return V{}, err
		}
		return fromNative(x), nil
	}
	return V{}, fmt.Errorf("unknown codec")
}

func goEncode(codec string, data []byte) (V, bool) {
	switch codec {
	case "base64":
		return vStr(base64.StdEncoding.EncodeToString(data)), true
	case "base32":
		return vStr(base32.StdEncoding.EncodeToString(data)), true
	case "hex":
		return vStr(hex.EncodeToString(data)), true
	case "urlquery":
		return vStr(url.QueryEscape(string(data))), true
	}
	return V{}, false
}

// byteCodecCase: one generated input through encode, decode, the malformed-input clause and the
// Go differential, for base64 / base32 / hex / gzip / urlquery.
func (c *codecCtx) byteCodecCase(codec string, r *mon.Rand, thorough, script bool) {
	o := c.o
	var x V
	var cls string
	if codec == "urlquery" {
		s := genStr(r)
		if r.Chance(1, 3) {
			s += mon.Pick(r, []string{"a b", "a+b", "%", "&=?/#", "%41", "~-._", "\x00"})
		}
		x, cls = vStr(s), classStr([]byte(s))
	} else {
		x = vBytes(genBlob(r, thorough))
		cls = blobClass(x.S)
		if r.Chance(1, 4) {
			x.K = "str" // AsBytes takes strings too (the documented examples pass strings)
			cls += "/str"
		}
	}
	spec := callSpec{Kind: "codec-rt", Codec: codec, Args: []V{x}}

	// --- round trip through the object API
	o.call("codec:"+codec+":roundtrip", cls)
	enc := c.encode(x.Obj(), codec)
	switch {
	case enc.Panic != "":
		o.fail("codec-encode:"+codec+":"+cls+":panic", "encode panicked: "+enc.Panic+"\ninput: "+x.String(), spec)
		return
	case enc.IsErr:
		o.fail("codec-encode:"+codec+":"+cls+":unexpected-error", "encode returned "+enc.String()+"\ninput: "+x.String(), spec)
		return
	}
	if want, ok := goEncode(codec, x.S); ok && !same(want, enc.Val) {
		o.fail("codec-encode:"+codec+":"+cls+":differs-from-go", fmt.Sprintf("encode(%s, %q) = %s\nGo: %s", x, codec, enc, mon.Truncate(want.String(), 600)), spec)
	}
	if codec == "gzip" {
		if back, err := goDecode("gzip", enc.Val.S); err != nil || !bytes.Equal(back.S, x.S) || enc.Val.K != "bytes" {
			o.fail("codec-encode:gzip:"+cls+":differs-from-go", fmt.Sprintf("Go's gzip reader does not give the input back from encode's output (err=%v, kind=%s)\ninput: %s", err, enc.Val.K, mon.Truncate(x.String(), 300)), spec)
		}
	}
	dec := c.decode(enc.Val.Obj(), codec)
	apiOK := c.judgeRoundtrip(codec, cls, x, dec, spec, "")
	if script && apiOK {
		o.event("script-calls", 1)
		g := c.v.evalScript("decode(encode(a0, a1), a1)", []V{x, vStr(codec)})
		c.judgeRoundtrip(codec, cls, x, g, spec, "script-")
	}

	// --- what encode returned is the caller's: later encodes must not change it
	if apiOK && codec != "urlquery" {
		o.call("codec:"+codec+":held-roundtrip", cls)
		if h := callBuiltinObj(c.enc, x.Obj(), object.NewString(codec)); h.obj != nil {
			for i := 0; i < 2; i++ {
				_ = callBuiltinObj(c.enc, vBytes(genBlob(r, false)).Obj(), object.NewString(codec))
			}
			c.judgeRoundtrip(codec, cls, x, c.decode(h.obj, codec), spec, "held-")
			if script {
				g := c.v.evalScript("e1 := encode(a0, a1); e2 := encode(a2, a1); e3 := encode(a0 + a2, a1); decode(e1, a1)", []V{x, vStr(codec), vBytes(genBlob(r, false))})
				if !g.IsErr || !strings.Contains(g.String(), "unsupported operation") {
					c.judgeRoundtrip(codec, cls, x, g, spec, "script-held-")
				}
			}
		}
	}

	// --- malformed input must be rejected
	var bad []byte
	var kind string
	switch codec {
	case "base64":
		t, k := malformBaseN(r, base64.StdEncoding.EncodeToString(nonEmpty(x.S, r)), "ABCDEFGHIJKLMNOPQRSTUVWXYZabcdefghijklmnopqrstuvwxyz0123456789+/", 4)
		bad, kind = []byte(t), k
	case "base32":
		t, k := malformBaseN(r, base32.StdEncoding.EncodeToString(nonEmpty(x.S, r)), "ABCDEFGHIJKLMNOPQRSTUVWXYZ234567", 8)
		bad, kind = []byte(t), k
	case "hex":
		h := hex.EncodeToString(nonEmpty(x.S, r))
		if r.Bool() {
			bad, kind = []byte(h[:len(h)-1]), "odd-length"
		} else {
			i := r.Intn(len(h))
			bad, kind = []byte(h[:i]+string([]byte{pickByte(r, "gGxz -_.\x00\xff")})+h[i+1:]), "bad-char"
		}
	case "gzip":
		bad, kind = malformGzip(r, x.S)
	case "urlquery":
		bad, kind = []byte(mon.Pick(r, []string{"", "a", "x=1&"})+mon.Pick(r, urlBad)), "bad-escape"
	}
	if kind == "payload-flip" {
		c.malformed(codec, kind, bad, x.S)
	} else {
		c.malformed(codec, kind, bad)
	}

	// --- arbitrary text: decode agrees with Go's decoder (value or error)
	var text []byte
	switch r.Intn(3) {
	case 0:
		text = []byte(genStr(r))
	case 1:
		text = bad
	default:
		if enc.Val.K == "str" || enc.Val.K == "bytes" {
			text = append([]byte{}, enc.Val.S...)
			if len(text) > 0 && r.Bool() && len(text) < 5000 {
				text[r.Intn(len(text))] = byte(r.Intn(256))
			}
		}
	}
	c.decodeDifferential(codec, text)
}

func nonEmpty(b []byte, r *mon.Rand) []byte {
	if len(b) == 0 {
		return smallBlob(r)
	}
	if len(b) > 64 {
		return b[:64-r.Intn(5)]
	}
	return b
}

func (c *codecCtx) judgeRoundtrip(codec, cls string, x V, dec got, spec callSpec, route string) (ok bool) {
	o := c.o
	before := o.Events["violations-seen"]
	defer func() { ok = o.Events["violations-seen"] == before }()
	prefix := "codec-roundtrip:" + codec + ":" + cls + ":" + route
	switch {
	case dec.Panic != "":
		o.fail(prefix+"panic", "decode(encode(x)) panicked: "+dec.Panic+"\nx = "+mon.Truncate(x.String(), 300), spec)
	case dec.IsErr:
		o.fail(prefix+"decode-error", "decode(encode(x)) returned "+dec.String()+"\nx = "+mon.Truncate(x.String(), 300), spec)
	case dec.Val.K != "bytes" && dec.Val.K != "str":
		o.fail(prefix+"type-differs", "decode(encode(x)) returned "+dec.String()+"\nx = "+mon.Truncate(x.String(), 300), spec)
	case !bytes.Equal(dec.Val.S, x.S):
		o.fail(prefix+"value-differs", "decode(encode(x)) = "+dec.String()+"\nx = "+mon.Truncate(x.String(), 300), spec)
	default:
		// risor's own equality must agree (the decoded value on the left: byte_slice == string compares bytes)
		eq := safeEquals(dec.Val.Obj(), x.Obj())
		if !eq {
			o.fail(prefix+"not-equal-under-risor-==", "decode(encode(x)) has the same bytes as x but `decoded == x` is false\nx = "+mon.Truncate(x.String(), 300), spec)
		}
	}
	return
}

func safeEquals(a, b object.Object) (eq bool) {
	defer func() {
		if r := recover(); r != nil {
			eq = false
		}
	}()
	r, ok := a.Equals(b).(*object.Bool)
	return ok && r.Value()
}

func (c *codecCtx) malformed(codec, kind string, bad []byte, harmlessIf ...[]byte) {
	o := c.o
	o.call("codec:"+codec+":malformed", kind)
	spec := callSpec{Kind: "codec-mal", Codec: codec, Sub: kind, Args: []V{vBytes(bad)}}
	arg := vStr(string(bad))
	if codec == "gzip" {
		arg = vBytes(bad)
	}
	g := c.decode(arg.Obj(), codec)
	switch {
	case g.Panic != "":
		o.fail("codec-malformed-panic:"+codec+":"+kind, fmt.Sprintf("decode(%s, %q) panicked: %s", mon.Truncate(arg.String(), 300), codec, g.Panic), spec)
	case !g.IsErr && len(harmlessIf) == 1 && (g.Val.K == "bytes" || g.Val.K == "str") && bytes.Equal(g.Val.S, harmlessIf[0]):
		// the damage did not reach anything observable (e.g. a padding bit of the last deflate byte):
		// the text still decodes to the original with a matching checksum, so it is not malformed
		o.event("damage-without-effect", 1)
	case !g.IsErr && softMalformed[kind] && goAccepts(codec, bad):
		// RFC 4648 lets a decoder ignore excess / misplaced padding; Go's reference decoder does for this
		// text, and the codec is documented as that decoder: not counted as malformed
		o.event("lenient-padding-accepted-like-go", 1)
	case !g.IsErr:
		o.fail("codec-malformed-accepted:"+codec+":"+kind, fmt.Sprintf("decode(%s, %q) = %s, expected an error", mon.Truncate(arg.String(), 300), codec, g), spec)
	default:
		o.event("malformed-rejected", 1)
	}
}

// Malformations whose rejection RFC 4648 does not require (padding in excess or out of place):
// they count as malformed only when Go's decoder of the same codec rejects them.
var softMalformed = map[string]bool{"extra-padding": true, "padding-in-middle": true, "bad-padding": true, "missing-padding": true}

func goAccepts(codec string, text []byte) bool {
	_, err := goDecode(codec, text)
	return err == nil
}

func (c *codecCtx) decodeDifferential(codec string, text []byte) {
	o := c.o
	want, err := goDecode(codec, text)
	cls := "go-accepts"
	if err != nil {
		cls = "go-rejects"
	}
	o.call("codec:"+codec+":decode-vs-go", cls)
	spec := callSpec{Kind: "codec-dec", Codec: codec, Args: []V{vBytes(text)}}
	arg := vStr(string(text))
	if codec == "gzip" {
		arg = vBytes(text)
	}
	g := c.decode(arg.Obj(), codec)
	x := val(want)
	if err != nil {
		x = isErr()
	}
	if kind, _ := judge(x, g); kind != "" {
		o.fail("codec-decode:"+codec+":"+cls+":"+kind, fmt.Sprintf("decode(%s, %q) = %s\nGo: %s", mon.Truncate(arg.String(), 300), codec, g, x), spec)
	}
}

// ---------------------------------------------------------------------------------------
// json: round trip, malformed, agreement of json.marshal / json.unmarshal with the codec

func (c *codecCtx) jsonModule() (marshal, unmarshal object.Object, err error) {
	m, err := c.v.module("json")
	if err != nil {
		return nil, nil, err
	}
	ma, ok1 := m.GetAttr("marshal")
	un, ok2 := m.GetAttr("unmarshal")
	if !ok1 || !ok2 {
		return nil, nil, fmt.Errorf("json.marshal / json.unmarshal missing")
	}
	return ma, un, nil
}

// numChanged walks the original and the decoded value in parallel and reports the first int that
// did not come back as the same mathematical number.
func numChanged(orig, dec V) (bool, V, V) {
	switch orig.K {
	case "int":
		switch dec.K {
		case "int":
			return orig.I != dec.I, orig, dec
		case "float":
			f := dec.Float()
			if f != math.Trunc(f) || f >= 1<<63 || f < -(1<<63) || int64(f) != orig.I {
				return true, orig, dec
			}
		}
	case "list", "map":
		if dec.K != orig.K || len(dec.L) != len(orig.L) {
			return false, orig, dec
		}
		if orig.K == "map" {
			// by key (keys that are not valid UTF-8 come back changed: those entries are judged elsewhere)
			byKey := map[string]V{}
			for i, k := range dec.MK {
				byKey[string(k)] = dec.L[i]
			}
			for i, k := range orig.MK {
				if d, ok := byKey[string(k)]; ok {
					if ch, x, y := numChanged(orig.L[i], d); ch {
						return true, x, y
					}
				}
			}
			return false, orig, dec
		}
		for i := range orig.L {
			if ch, x, y := numChanged(orig.L[i], dec.L[i]); ch {
				return true, x, y
			}
		}
	}
	return false, orig, dec
}

func (c *codecCtx) jsonCase(r *mon.Rand, script bool) {
	o := c.o
	marshal, unmarshal, err := c.jsonModule()
	if err != nil {
		o.Harness = append(o.Harness, err.Error())
		return
	}
	x, cls := genJSONValue(r, 3)
	spec := callSpec{Kind: "json-rt", Codec: "json", Args: []V{x}}
	o.call("codec:json:roundtrip", cls)

	enc := c.encode(x.Obj(), "json")
	mar := callBuiltin(marshal, x.Obj())

	// agreement of json.marshal with the codec's encoder
	o.call("json-agree:marshal", cls)
	switch {
	case enc.Panic != "" || mar.Panic != "":
		o.fail("json-agree:marshal:"+cls+":panic", fmt.Sprintf("encode: %s\njson.marshal: %s\nx = %s", enc, mar, mon.Truncate(x.String(), 400)), spec)
	case enc.IsErr != mar.IsErr:
		o.fail("json-agree:marshal:"+cls+":error-mismatch", fmt.Sprintf("encode(x, \"json\") = %s\njson.marshal(x)    = %s\nx = %s", enc, mar, mon.Truncate(x.String(), 400)), spec)
	case !enc.IsErr && !same(enc.Val, mar.Val):
		o.fail("json-agree:marshal:"+cls+":text-differs", fmt.Sprintf("encode(x, \"json\") = %s\njson.marshal(x)    = %s\nx = %s", enc, mar, mon.Truncate(x.String(), 400)), spec)
	}

	if enc.Panic != "" {
		o.fail("codec-encode:json:"+cls+":panic", "encode panicked: "+enc.Panic+"\nx = "+mon.Truncate(x.String(), 400), spec)
		return
	}
	if enc.IsErr {
		// no encoded value, so no round-trip claim; Go itself cannot encode NaN / ±Inf
		if hasNonFinite(x) {
			o.event("json-encode-rejected-nonfinite", 1)
		} else {
			o.event("json-encode-rejected-other", 1)
		}
		return
	}
	// Go differential for the encoder: the same text as encoding/json on the harness's own conversion
	if want, err := json.Marshal(toNative(x)); err == nil && (enc.Val.K != "str" || string(want) != string(enc.Val.S)) {
		o.fail("codec-encode:json:"+cls+":differs-from-go", fmt.Sprintf("encode(x, \"json\") = %s\nGo json.Marshal: %q\nx = %s", enc, want, mon.Truncate(x.String(), 400)), spec)
	}
	dec := c.decode(enc.Val.Obj(), "json")
	if len(o.Samples) < 1 && (x.K == "map" || x.K == "list") && len(x.L) >= 2 {
		o.Samples = append(o.Samples, fmt.Sprintf("x = %s ; encode(x, \"json\") = %s ; decode(…) = %s", mon.Truncate(x.String(), 300), mon.Truncate(enc.String(), 300), mon.Truncate(dec.String(), 300)))
	}
	apiOK := c.judgeJSONRoundtrip(cls, x, dec, spec, "")
	if script && apiOK {
		o.event("script-calls", 2)
		g := c.v.evalScript(`decode(encode(a0, "json"), "json")`, []V{x})
		c.judgeJSONRoundtrip(cls, x, g, spec, "script-")
		g2 := c.v.evalScript(`json.unmarshal(json.marshal(a0))`, []V{x})
		if !mar.IsErr {
			c.judgeJSONRoundtrip(cls, x, g2, callSpec{Kind: "json-rt", Codec: "json-module", Args: []V{x}}, "script-module-")
		}
	}

	// agreement of json.unmarshal with the codec's decoder, on valid, malformed and hand-written texts
	text, tcls := genJSONText(r)
	if r.Chance(1, 3) {
		text, tcls = enc.Val.S, "valid:encoded"
	}
	c.jsonTextCase(unmarshal, text, tcls)
}

func (c *codecCtx) jsonTextCase(unmarshal object.Object, text []byte, tcls string) {
	o := c.o
	tspec := callSpec{Kind: "json-text", Codec: "json", Sub: tcls, Args: []V{vBytes(text)}}
	short := tcls
	if i := strings.IndexByte(tcls, ':'); i > 0 && tcls[:i] == "valid" {
		short = "valid"
	}
	o.call("json-agree:unmarshal", tcls)
	d1 := c.decode(object.NewString(string(text)), "json")
	d2 := callBuiltin(unmarshal, object.NewString(string(text)))
	switch {
	case d1.Panic != "" || d2.Panic != "":
		o.fail("json-agree:unmarshal:"+short+":panic", fmt.Sprintf("decode: %s\njson.unmarshal: %s\ntext = %q", d1, d2, mon.Truncate(string(text), 400)), tspec)
	case d1.IsErr != d2.IsErr:
		o.fail("json-agree:unmarshal:"+short+":error-mismatch", fmt.Sprintf("decode(text, \"json\") = %s\njson.unmarshal(text)  = %s\ntext = %q", d1, d2, mon.Truncate(string(text), 400)), tspec)
	case !d1.IsErr && !same(d1.Val, d2.Val):
		o.fail("json-agree:unmarshal:"+short+":value-differs", fmt.Sprintf("decode(text, \"json\") = %s\njson.unmarshal(text)  = %s\ntext = %q", d1, d2, mon.Truncate(string(text), 400)), tspec)
	}
	if strings.HasPrefix(tcls, "malformed:") {
		c.malformed("json", strings.TrimPrefix(tcls, "malformed:"), text)
	}
	c.decodeDifferential("json", text)
}

func (c *codecCtx) judgeJSONRoundtrip(cls string, x V, dec got, spec callSpec, route string) (ok bool) {
	o := c.o
	before := o.Events["violations-seen"]
	defer func() { ok = o.Events["violations-seen"] == before }()
	prefix := "codec-roundtrip:json:" + cls + ":" + route
	switch {
	case dec.Panic != "":
		o.fail(prefix+"panic", "decode(encode(x)) panicked: "+dec.Panic+"\nx = "+mon.Truncate(x.String(), 400), spec)
		return
	case dec.IsErr:
		o.fail(prefix+"decode-error", "decode(encode(x)) returned "+dec.String()+"\nx = "+mon.Truncate(x.String(), 400), spec)
		return
	}
	// an int must come back as the same number (1 and 1.0 are equal; 2^53+1 and 2^53 are not)
	if ch, a, b := numChanged(x, dec.Val); ch {
		if a.I > 1<<53 || a.I < -(1<<53) {
			o.fail("codec-roundtrip:json:int>2^53:"+route+"value-changed", fmt.Sprintf("int %s came back as %s through encode/decode \"json\"\nx = %s", a, b, mon.Truncate(x.String(), 400)), spec)
		} else {
			o.fail(prefix+"int-changed", fmt.Sprintf("int %s came back as %s\nx = %s", a, b, mon.Truncate(x.String(), 400)), spec)
		}
		return
	}
	var back object.Object
	func() {
		defer func() { recover() }()
		back = dec.Val.Obj()
	}()
	if back == nil || !safeEquals(x.Obj(), back) {
		// JSON text is UTF-8: encoding/json silently replaces invalid bytes by U+FFFD. One signature for
		// that cause, whatever the shape of the value.
		tags := map[string]bool{}
		jsonTags(x, tags, 0)
		if tags["invalid-utf8"] || tags["invalid-utf8-key"] {
			which := "invalid-utf8"
			if !tags["invalid-utf8"] {
				which = "invalid-utf8-key"
			}
			o.fail("codec-roundtrip:json:"+which+":"+route+"value-changed", "a string that is not valid UTF-8 does not survive encode/decode \"json\" (and encode reports no error)\ndecode(encode(x)) = "+dec.String()+"\nx = "+mon.Truncate(x.String(), 400), spec)
			return
		}
		o.fail(prefix+"value-differs", "decode(encode(x)) = "+dec.String()+"\nx = "+mon.Truncate(x.String(), 400), spec)
	}
	return
}
