// Package c19: standard-library wrappers agree with Go, and encoders invert their decoders
// (differential monitor against the Go standard library linked into the same binary).
//
// Wrappers: a table (table.go) maps every function of the modules strings, strconv, math, bytes,
// base64, filepath, regexp (+ json.valid), every string / byte_slice method and every method of a
// compiled regexp to the Go call it wraps. Arguments are generated per parameter type; each call
// is made through the object API (Builtin.Call under recover) and, sampled, through a script
// (risor.Eval with the arguments as globals); the result must equal Go's under the pinned
// conversion. Codecs (codec.go): decode(encode(x)) == x, malformed input is rejected, decode and
// encode agree with Go's codec, json.marshal / json.unmarshal agree with the json codec.
// The table is checked for completeness against the live objects (complete.go).
package c19

import (
	"encoding/json"
	"fmt"
	"math"
	"sort"
	"strings"
	"time"

	"verif/internal/mon"
)

const ID = "C19"

func Register() {
	mon.Register(&mon.Prop{ID: ID, Drive: drive})
	mon.RegisterWorker(ID, worker)
}

// callSpec is the replayable description of one judged call.
type callSpec struct {
	Kind  string `json:"kind"`            // wrap | codec-rt | codec-mal | codec-dec | json-rt | json-text
	Entry string `json:"entry,omitempty"` // wrap: table key
	Codec string `json:"codec,omitempty"`
	Sub   string `json:"sub,omitempty"`
	Args  []V    `json:"args"`
	Show  string `json:"show,omitempty"` // human-readable form of the call
}

type viol struct {
	Sig    string   `json:"sig"`
	Detail string   `json:"detail"`
	Call   callSpec `json:"call"`
}

type out struct {
	Calls    int64            `json:"calls"`
	Classes  map[string]int64 `json:"classes"` // "<function>:<argument class>" -> calls
	Events   map[string]int64 `json:"events"`
	Viols    []viol           `json:"viols"`
	Samples  []string         `json:"samples,omitempty"`
	Harness  []string         `json:"harness,omitempty"`
	Complete *completeness    `json:"complete,omitempty"`
}

func newOut() *out { return &out{Classes: map[string]int64{}, Events: map[string]int64{}} }

func (o *out) call(fn, class string) {
	o.Calls++
	o.Classes[fn+" | "+class]++
}

func (o *out) event(kind string, n int64) { o.Events[kind] += n }

func (o *out) fail(sig, detail string, c callSpec) {
	o.Events["violations-seen"]++
	perSig := 0
	for _, v := range o.Viols {
		if v.Sig == sig {
			perSig++
		}
	}
	if perSig >= 2 || len(o.Viols) >= 60 {
		return
	}
	o.Viols = append(o.Viols, viol{Sig: sig, Detail: detail, Call: c})
}

type caseData struct {
	Entry       string    `json:"entry,omitempty"`
	Codec       string    `json:"codec,omitempty"`
	Seed        uint64    `json:"seed"`
	N           int       `json:"n"`
	ScriptEvery int       `json:"script_every"`
	Thorough    bool      `json:"thorough"`
	Call        *callSpec `json:"call,omitempty"` // replay
}

// ---------------------------------------------------------------------------------------
// worker

var theEnv *env
var theTable []*entry
var theIndex map[string]*entry

func setup() {
	if theEnv == nil {
		theEnv = newEnv()
		theTable = buildTable()
		theIndex = map[string]*entry{}
		for _, e := range theTable {
			theIndex[e.key()] = e
		}
	}
}

func showCall(e *entry, args []V) string {
	parts := make([]string, len(args))
	for i, a := range args {
		parts[i] = mon.Truncate(a.String(), 200)
	}
	src := scriptSrc(e, len(args))
	return src + "   with " + strings.Join(func() []string {
		out := make([]string, len(parts))
		for i, p := range parts {
			out[i] = fmt.Sprintf("a%d=%s", i, p)
		}
		return out
	}(), ", ")
}

// runWrap judges one wrapper call on the requested routes.
func runWrap(o *out, e *entry, args []V, script bool) {
	cls := classTuple(args)
	o.call(e.key(), cls)
	x := expect(e, args)
	spec := callSpec{Kind: "wrap", Entry: e.key(), Args: args}
	report := func(route, kind string, g got) {
		spec.Show = showCall(e, args)
		sig := e.key() + ":" + minimalClass(e, args, kind, route != "") + ":" + route + kind
		o.fail(sig, fmt.Sprintf("%s\n route: %s\n risor: %s\n Go (%s): %s", spec.Show, map[string]string{"": "object API", "script-": "script"}[route], g, e.GoName, x), spec)
	}
	g := theEnv.callAPI(e, args)
	kind, note := judge(x, g)
	if note != "" {
		o.event(note, 1)
	}
	switch kind {
	case "":
	case "harness":
		o.Harness = append(o.Harness, e.key()+": "+g.Harness)
		return
	default:
		report("", kind, g)
	}
	if script {
		o.event("script-calls", 1)
		gs := theEnv.callScript(e, args)
		ks, _ := judge(x, gs)
		switch {
		case ks == "":
		case ks == kind:
			// the same disagreement on both routes: one report is enough
		default:
			report("script-", ks, gs)
		}
	}
	if len(o.Samples) < 2 && o.Calls%97 == 5 {
		o.Samples = append(o.Samples, fmt.Sprintf("%s => %s  [Go %s: %s]", showCall(e, args), g, e.GoName, x))
	}
}

// minimalClass reduces the argument class of a failing call to the arguments that matter: each
// argument in turn is replaced by simple canonical values of its kind; when the same kind of
// disagreement persists for (nearly) all of them the argument is irrelevant and its class becomes "*". Signatures are
// therefore "the minimal shape of the input" and one defect does not fan out over every class of
// the arguments that do not take part in it.
func minimalClass(e *entry, args []V, kind string, script bool) string {
	cur := append([]V{}, args...)
	still := func(a []V) bool {
		x := expect(e, a)
		var g got
		if script {
			g = theEnv.callScript(e, a)
		} else {
			g = theEnv.callAPI(e, a)
		}
		k, _ := judge(x, g)
		return k == kind
	}
	parts := make([]string, len(cur))
	for i := range cur {
		orig := cur[i]
		// the sibling type first (a string handed over as byte_slice or the reverse)
		if i > 0 || (e.Kind == kFunc && e.Mod != "bytes") {
			alt := orig
			switch orig.K {
			case "bytes":
				alt.K = "str"
			case "str":
				alt.K = "bytes"
			}
			if alt.K != orig.K && i < len(e.Params) && natural(e.Params[min(i, len(e.Params)-1)]) == alt.K {
				cur[i] = alt
				if still(cur) {
					orig = alt
				} else {
					cur[i] = orig
				}
			}
		}
		parts[i] = classOf(orig)
		canon := canonical(orig)
		persists, firstOK := 0, -1
		for j, c := range canon {
			cur[i] = c
			if still(cur) {
				persists++
				if firstOK < 0 {
					firstOK = j
				}
			}
		}
		cur[i] = orig
		// irrelevant when the disagreement survives (nearly) every simple replacement: all of them, or
		// two out of three
		if len(canon) > 0 && (persists == len(canon) || (len(canon) >= 3 && persists >= 2)) {
			parts[i] = "*"
			// any content, but of the sibling type (a byte_slice where a string is documented, or the reverse)
			if nat := natural(e.Params[min(i, len(e.Params)-1)]); nat != "" && nat != orig.K && e.VarMax == 0 {
				parts[i] = map[string]string{"bytes": "b-*", "str": "s-*"}[orig.K]
			}
			cur[i] = canon[firstOK]
		}
	}
	if len(parts) == 0 {
		return "noargs"
	}
	return strings.Join(parts, ",")
}

// natural is the risor type a parameter is documented to take.
func natural(p ptype) string {
	switch p {
	case pBytes, pBSub:
		return "bytes"
	case pStr, pSub, pCutset, pNumStr, pPath, pGlob, pPathList, pRegex, pRegexOK, pSubject, pRepl, pRune, pByte1, pB64, pJSONText:
		return "str"
	}
	return ""
}

func canonical(v V) []V {
	switch v.K {
	case "str":
		return []V{vStr("a"), vStr("ab c"), vStr("")}
	case "bytes":
		return []V{vBytes([]byte("a")), vBytes([]byte("ab c")), vBytes(nil)}
	case "int":
		return []V{vInt(1), vInt(2), vInt(0)}
	case "float":
		return []V{vFloat(1.25), vFloat(2)}
	case "bool":
		return []V{vBool(!v.B)}
	case "list":
		if len(v.L) > 0 && v.L[0].K != "str" && v.L[0].K != "bytes" {
			return []V{vList(vInt(1), vFloat(2.5)), vList()}
		}
		return []V{vList(vStr("a"), vStr("b")), vList()}
	}
	return nil
}

// wrongTypeProbe: arguments of the wrong type or number are not in any Go function's domain, so
// nothing is compared, but the wrapper must answer with a value or an error, never with a Go panic.
func wrongTypeProbe(o *out, e *entry, r *mon.Rand, good []V) {
	n := r.Intn(len(e.Params) + 2)
	args := make([]V, 0, n+1)
	if (e.Kind == kMethod || e.Kind == kReMethod) && len(good) > 0 {
		args = append(args, good[0]) // a proper receiver
	}
	for len(args) < n {
		switch r.Intn(10) {
		case 0:
			args = append(args, vNil())
		case 1:
			args = append(args, vInt(genInt(r)))
		case 2:
			args = append(args, vFloat(genFloat(r)))
		case 3:
			args = append(args, vBool(r.Bool()))
		case 4:
			args = append(args, vStr(genStr(r)))
		case 5:
			args = append(args, vBytes([]byte(genStr(r))))
		case 6:
			args = append(args, vList(vInt(1), vStr("a"), vNil()))
		case 7:
			args = append(args, vMap([]string{"a"}, []V{vInt(1)}))
		case 8:
			args = append(args, V{K: "byte", I: int64(r.Intn(256))})
		default:
			args = append(args, vList())
		}
	}
	if (e.Kind == kMethod || e.Kind == kReMethod) && len(args) == 0 {
		return
	}
	// keep sizes bounded: a huge count with a long string would be a legitimate huge allocation
	for i, p := range e.Params {
		if p == pCount && i < len(args) && args[i].K == "int" && (args[i].I > 1<<16 || args[i].I < 0) {
			args[i] = vInt(3)
		}
	}
	o.call(e.key(), "wrong-type-or-arity")
	g := theEnv.callAPI(e, args)
	if g.Panic != "" {
		if x := expect2(e, args); !x.Undefined {
			spec := callSpec{Kind: "wrap", Entry: e.key(), Args: args, Show: showCall(e, args)}
			o.fail(e.key()+":wrong-type-or-arity:panic", spec.Show+"\n risor: "+g.String()+"\n expected a value or an error object", spec)
		}
	}
}

// expect2: like expect, but the table's Go closure itself may not cope with ill-typed arguments;
// only the well-typed case (where Go itself panics, e.g. a negative Repeat count) is excused.
func expect2(e *entry, a []V) (x exp) {
	if len(a) < len(e.Params)-e.Opt || (e.VarMax == 0 && len(a) > len(e.Params)) {
		return exp{}
	}
	for i, v := range a {
		p := e.Params[min(i, len(e.Params)-1)]
		want := natural(p)
		switch {
		case want != "" && v.K != "str" && v.K != "bytes":
			return exp{}
		case p == pCount || p == pInt || p == pSmallInt || p == pBase || p == pBits:
			if v.K != "int" {
				return exp{}
			}
		case p == pNum:
			if v.K != "int" && v.K != "float" {
				return exp{}
			}
		case p == pBool:
			if v.K != "bool" {
				return exp{}
			}
		case p == pStrList, p == pNumList:
			return exp{}
		}
	}
	return expect(e, a)
}

func worker(kind string, data json.RawMessage) any {
	var c caseData
	if err := json.Unmarshal(data, &c); err != nil {
		panic(err)
	}
	setup()
	o := newOut()
	switch kind {
	case "complete":
		o.Complete = checkCompleteness(theEnv, theTable)
	case "wrap":
		e := theIndex[c.Entry]
		if e == nil {
			o.Harness = append(o.Harness, "no table entry "+c.Entry)
			return o
		}
		r := mon.NewRand(c.Seed)
		for i := 0; i < c.N; i++ {
			args := genArgs(r, e, c.Thorough)
			runWrap(o, e, args, c.ScriptEvery > 0 && i%c.ScriptEvery == 0)
			if e.Kind == kConst {
				break
			}
			if i%20 == 7 {
				wrongTypeProbe(o, e, r, args)
			}
		}
	case "codec":
		cc, err := newCodecCtx(o)
		if err != nil {
			o.Harness = append(o.Harness, err.Error())
			return o
		}
		r := mon.NewRand(c.Seed)
		for i := 0; i < c.N; i++ {
			script := c.ScriptEvery > 0 && i%c.ScriptEvery == 0
			if c.Codec == "json" {
				cc.jsonCase(r, script)
			} else {
				cc.byteCodecCase(c.Codec, r, c.Thorough, script)
			}
		}
		if c.Codec == "json" && c.N > 0 {
			// every hand-written text once per case, whatever the seed
			_, un, err := cc.jsonModule()
			if err == nil && c.Seed%4 == 0 {
				for i, t := range jsonBad {
					cc.jsonTextCase(un, []byte(t), fmt.Sprintf("malformed:%d", i))
				}
				for i, t := range jsonGood {
					cc.jsonTextCase(un, []byte(t), fmt.Sprintf("valid:%d", i))
				}
				for _, t := range urlBad {
					cc.malformed("urlquery", "bad-escape", []byte(t))
				}
			}
		}
	case "pinned":
		for _, c := range pinnedCalls() {
			c := c
			replayCall(o, &c)
		}
	case "replay":
		replayCall(o, c.Call)
	}
	return o
}

// pinnedCalls are run on every run whatever the seed: hand-written boundary calls, among them the
// witnesses of the findings this check has produced, so that a finding is re-observed (or seen to
// have stopped reproducing) deterministically.
func pinnedCalls() []callSpec {
	w := func(entry string, args ...V) callSpec { return callSpec{Kind: "wrap", Entry: entry, Args: args} }
	bs := func(s string) V { return vBytes([]byte(s)) }
	return append(gridCalls(w), []callSpec{
		w("bytes.contains_rune", bs("héllo"), vStr("é")),
		w("byte_slice.contains_rune", bs("héllo"), vStr("é")),
		w("bytes.index_rune", bs("héllo"), vStr("é")),
		w("byte_slice.index_rune", bs("héllo"), vStr("é")),
		w("bytes.contains_rune", bs("hello"), vStr("l")),
		w("bytes.index_rune", bs("hello"), vStr("l")),
		w("math.abs", vFloat(math.Copysign(0, -1))),
		w("math.abs", vFloat(-1.5)),
		w("math.abs", vInt(-3)),
		w("math.pow10", vInt(math.MaxInt64)),
		w("math.pow10", vInt(math.MaxInt64-511)),
		w("math.pow10", vInt(308)),
		w("math.pow10", vInt(-324)),
		w("math.round", vFloat(2.5)), w("math.round", vFloat(-2.5)), w("math.round", vFloat(0.49999999999999994)),
		w("strings.split", vStr("a,b,c"), vStr(",")), w("strings.split", vStr("日本"), vStr("")), w("string.split", vStr("a,b"), vStr("")),
		w("strings.trim", vStr("¡¡¡Hello, Gophers!!!"), vStr("!¡")), w("strings.repeat", vStr("ab"), vInt(-1)), w("strings.repeat", vStr("ab"), vInt(math.MaxInt64)),
		w("strings.join", vStrList(nil), vStr(",")), w("string.join", vStr(","), vStrList([]string{"a", "\xff"})),
		w("strconv.parse_int", vStr("ff"), vInt(16)), w("strconv.parse_int", vStr("128"), vInt(10), vInt(8)), w("strconv.atoi", vStr("9223372036854775808")),
		w("strconv.parse_float", vStr("1e400")), w("strconv.parse_bool", vStr("T")),
		w("base64.decode", vStr("YQ=="), vBool(true)), w("base64.decode", vStr("YQ"), vBool(false)), w("base64.url_encode", bs("\xfb\xff"), vBool(false)),
		w("filepath.split_list", vStr("/a:/b::c")), w("filepath.match", vStr("[a-"), vStr("a")), w("filepath.rel", vStr("/a"), vStr("b")), w("filepath.join"),
		w("regexp.compile", vStr("(")), w("regexp.object.find_all", vStr("a+"), vStr("baaab aa"), vInt(0)), w("regexp.object.split", vStr("a+"), vStr("baaab")),
		w("regexp.object.replace_all", vStr("a(b+)a"), vStr("abba"), vStr("<$1>")),
		{Kind: "json-rt", Codec: "json", Args: []V{vInt(1<<53 + 1)}},
		{Kind: "json-rt", Codec: "json", Args: []V{vList(vInt(math.MinInt64), vInt(1<<53))}},
		{Kind: "json-rt", Codec: "json", Args: []V{vStr("\xff")}},
		{Kind: "json-rt", Codec: "json", Args: []V{vMap([]string{"\xff"}, []V{vInt(1)})}},
		{Kind: "json-rt", Codec: "json", Args: []V{vNil()}},
		{Kind: "json-rt", Codec: "json", Args: []V{vList(vNil(), vBool(true), vFloat(math.Copysign(0, -1)), vStr("<é>"), vMap([]string{"k"}, []V{vFloat(1.5)}))}},
		{Kind: "codec-rt", Codec: "base64", Args: []V{bs("\xfb\xff\xfe")}},
		{Kind: "codec-rt", Codec: "base32", Args: []V{bs("")}},
		{Kind: "codec-rt", Codec: "hex", Args: []V{bs("\x00\xff")}},
		{Kind: "codec-rt", Codec: "gzip", Args: []V{bs("")}},
		{Kind: "codec-rt", Codec: "urlquery", Args: []V{vStr("a b+c%&=/é\xff")}},
		{Kind: "codec-mal", Codec: "hex", Sub: "odd-length", Args: []V{bs("abc")}},
		{Kind: "codec-mal", Codec: "base64", Sub: "bad-char", Args: []V{bs("YW_j")}},
		{Kind: "codec-mal", Codec: "urlquery", Sub: "bad-escape", Args: []V{bs("%zz")}},
		{Kind: "codec-mal", Codec: "json", Sub: "trailing-comma", Args: []V{bs("[1,]")}},
	}...)
}

// gridCalls: small exhaustive grids over the optional / mode-selecting arguments of the wrappers, where a
// special value of one argument changes how another is read (base 0 = "detect the prefix", bit sizes,
// the padding flag of base64, negative counts). Random sampling meets such pairs too rarely.
func gridCalls(w func(entry string, args ...V) callSpec) []callSpec {
	var out []callSpec
	nums := []string{"0", "7", "017", "0x1f", "0X1F", "0b101", "0o17", "1_000", "0x_1f", "-0x10", "+5", "-017", "z", "Zz", "10", "ff", "127", "128", "-129", "9223372036854775807", "9223372036854775808", "", " 1", "1e3", "0x"}
	for _, n := range nums {
		out = append(out, w("strconv.parse_int", vStr(n)), w("strconv.atoi", vStr(n)))
		for _, base := range []int64{0, 2, 8, 10, 16, 36} {
			out = append(out, w("strconv.parse_int", vStr(n), vInt(base)))
			for _, bits := range []int64{0, 8, 64} {
				out = append(out, w("strconv.parse_int", vStr(n), vInt(base), vInt(bits)))
			}
		}
	}
	for _, t := range []string{"YQ==", "YQ", "YWI=", "YWI", "YWJj", "-_8=", "-_8", "+/8=", "+/8", "", "=", "YQ=", "Y Q=="} {
		for _, pad := range []bool{true, false} {
			out = append(out, w("base64.decode", vStr(t), vBool(pad)), w("base64.url_decode", vStr(t), vBool(pad)))
		}
		out = append(out, w("base64.decode", vStr(t)), w("base64.url_decode", vStr(t)))
	}
	for _, raw := range []string{"", "a", "ab", "abc", "\xfb\xff", "\xfb\xff\xfe"} {
		for _, pad := range []bool{true, false} {
			out = append(out, w("base64.encode", vBytes([]byte(raw)), vBool(pad)), w("base64.url_encode", vBytes([]byte(raw)), vBool(pad)))
		}
	}
	// special float values, every ordered pair for the two-argument functions
	specials := []V{vFloat(math.Inf(1)), vFloat(math.Inf(-1)), vFloat(math.NaN()), vFloat(0), vFloat(math.Copysign(0, -1)), vFloat(1), vFloat(-1), vFloat(0.5),
		vFloat(math.MaxFloat64), vFloat(math.SmallestNonzeroFloat64), vFloat(-2.5), vInt(0), vInt(-3), vInt(7), vInt(math.MaxInt64)}
	for _, a := range specials {
		for _, fn := range []string{"sqrt", "sin", "cos", "tan", "log", "log10", "log2", "round", "abs", "ceil", "floor", "is_inf"} {
			out = append(out, w("math."+fn, a))
		}
		for _, b := range specials {
			for _, fn := range []string{"max", "min", "mod", "pow", "atan2"} {
				out = append(out, w("math."+fn, a, b))
			}
		}
	}
	for _, n := range []int64{-1, 0, 1, 2, 3} {
		out = append(out, w("bytes.replace", vBytes([]byte("aaaa")), vBytes([]byte("a")), vBytes([]byte("b")), vInt(n)),
			w("regexp.object.find_all", vStr("a"), vStr("aaaa"), vInt(n)), w("regexp.object.split", vStr("a"), vStr("bab ab"), vInt(n)), w("strings.repeat", vStr("ab"), vInt(n)))
	}
	return out
}

func newCodecCtx(o *out) (*codecCtx, error) {
	enc, err := theEnv.builtin("encode")
	if err != nil {
		return nil, err
	}
	dec, err := theEnv.builtin("decode")
	if err != nil {
		return nil, err
	}
	return &codecCtx{v: theEnv, o: o, enc: enc, dec: dec}, nil
}

// replayCall re-judges one stored call on every route.
func replayCall(o *out, c *callSpec) {
	if c == nil {
		o.Harness = append(o.Harness, "replay file without a call")
		return
	}
	switch c.Kind {
	case "wrap":
		e := theIndex[c.Entry]
		if e == nil {
			o.Harness = append(o.Harness, "no table entry "+c.Entry)
			return
		}
		runWrap(o, e, c.Args, true)
	default:
		cc, err := newCodecCtx(o)
		if err != nil || len(c.Args) != 1 {
			o.Harness = append(o.Harness, fmt.Sprint("bad codec replay: ", err))
			return
		}
		x := c.Args[0]
		switch c.Kind {
		case "codec-rt":
			cls := blobClass(x.S)
			if c.Codec == "urlquery" {
				cls = classStr(x.S)
			} else if x.K == "str" {
				cls += "/str"
			}
			o.call("codec:"+c.Codec+":roundtrip", cls)
			enc := cc.encode(x.Obj(), c.Codec)
			if enc.IsErr || enc.Panic != "" {
				o.fail("codec-encode:"+c.Codec+":"+cls+":unexpected-error", "encode returned "+enc.String(), *c)
				return
			}
			if want, ok := goEncode(c.Codec, x.S); ok && !same(want, enc.Val) {
				o.fail("codec-encode:"+c.Codec+":"+cls+":differs-from-go", fmt.Sprintf("encode = %s\nGo: %s", enc, want), *c)
			}
			if cc.judgeRoundtrip(c.Codec, cls, x, cc.decode(enc.Val.Obj(), c.Codec), *c, "") {
				cc.judgeRoundtrip(c.Codec, cls, x, theEnv.evalScript("decode(encode(a0, a1), a1)", []V{x, vStr(c.Codec)}), *c, "script-")
			}
		case "codec-mal":
			cc.malformed(c.Codec, c.Sub, x.S)
		case "codec-dec":
			cc.decodeDifferential(c.Codec, x.S)
		case "json-rt":
			cls := jsonClass(x)
			o.call("codec:json:roundtrip", cls)
			marshal, _, err := cc.jsonModule()
			if err != nil {
				o.Harness = append(o.Harness, err.Error())
				return
			}
			enc := cc.encode(x.Obj(), "json")
			mar := callBuiltin(marshal, x.Obj())
			switch {
			case enc.IsErr != mar.IsErr:
				o.fail("json-agree:marshal:"+cls+":error-mismatch", fmt.Sprintf("encode(x, \"json\") = %s\njson.marshal(x)    = %s", enc, mar), *c)
			case !enc.IsErr && !same(enc.Val, mar.Val):
				o.fail("json-agree:marshal:"+cls+":text-differs", fmt.Sprintf("encode(x, \"json\") = %s\njson.marshal(x)    = %s", enc, mar), *c)
			}
			if !enc.IsErr && enc.Panic == "" {
				if cc.judgeJSONRoundtrip(cls, x, cc.decode(enc.Val.Obj(), "json"), *c, "") {
					cc.judgeJSONRoundtrip(cls, x, theEnv.evalScript(`decode(encode(a0, "json"), "json")`, []V{x}), *c, "script-")
				}
			}
		case "json-text":
			_, un, err := cc.jsonModule()
			if err != nil {
				o.Harness = append(o.Harness, err.Error())
				return
			}
			cc.jsonTextCase(un, x.S, c.Sub)
		}
	}
}

// ---------------------------------------------------------------------------------------
// driver

func drive(d *mon.Driver, replay string) int {
	d.Rule = "distinct_nontrivial = (function, argument class) pairs actually exercised, where function is a table entry (module function, string/byte_slice/regexp method) or a codec clause (roundtrip, malformed, decode-vs-go, json-agree) and the argument class is the tuple of per-argument classes computed from the generated values (strings: empty/ascii/unicode/invalid-utf8; ints: zero/pos/neg/>2^53/max/min; floats: zero/neg-zero/half/frac/int-valued/>=2^53/subnormal/inf/nan; lists by most notable member; blobs by length class; JSON values by shape and most notable leaf)"
	d.Assume = []string{
		"the Go side of every comparison is the Go standard library linked into the harness binary (same toolchain as the code under test)",
		"where Go panics or the argument is outside the Go function's domain (negative Repeat count, a non-rune string for a rune parameter, a non-integral float for pow10) only 'no Go panic on defined arguments' is judged",
		"base64.encode/decode without the pad argument: the documentation contradicts itself about the default, either encoding is accepted",
		"methods of string / byte_slice / compiled regexp have no enumeration API: enumerated by parsing the GetAttr source of the tree the binary was built from plus probing GetAttr with a candidate list; codecs by probing builtins.GetCodec",
		"memory is bounded: repeat counts are capped (or so large that Go's own overflow check fires before allocating)",
	}
	table := buildTable()
	var cases []mon.Case
	if replay != "" {
		var c callSpec
		if err := mon.LoadReplay(replay, &c); err != nil {
			fmt.Println("cannot load replay:", err)
			return 3
		}
		cases = append(cases, mon.NewCase("replay", "replay", caseData{Call: &c}))
	} else {
		r := d.Rand("cases")
		cases = append(cases, mon.NewCase("complete", "complete", caseData{}))
		cases = append(cases, mon.NewCase("pinned", "pinned", caseData{}))
		chunks := d.N(1, 40)
		perChunk := d.N(500, 1000)
		scriptEvery := d.N(4, 10)
		for ch := 0; ch < chunks; ch++ {
			for _, e := range table {
				n := perChunk
				if e.Kind == kConst {
					if ch > 0 {
						continue
					}
					n = 1
				}
				cases = append(cases, mon.NewCase(fmt.Sprintf("wrap-%s-%d", e.key(), ch), "wrap",
					caseData{Entry: e.key(), Seed: r.Uint64(), N: n, ScriptEvery: scriptEvery, Thorough: d.Thorough()}))
			}
			for _, codec := range codecsInScope {
				n := d.N(500, 1500)
				if codec == "json" {
					n = d.N(1500, 4000)
				}
				seed := r.Uint64()
				if ch == 0 {
					seed &^= 3 // the first json chunk also runs every hand-written text
				} else {
					seed |= 1
				}
				cases = append(cases, mon.NewCase(fmt.Sprintf("codec-%s-%d", codec, ch), "codec",
					caseData{Codec: codec, Seed: seed, N: n, ScriptEvery: scriptEvery, Thorough: d.Thorough()}))
			}
		}
	}

	classes := map[string]int64{}
	sigs := map[string]int{}
	sampled := map[string]bool{}
	var comp *completeness
	d.RunPool(cases, mon.PoolOpts{BatchSize: d.N(6, 4), BatchTimeout: 300 * time.Second}, func(c mon.Case, res mon.Result) {
		var cd caseData
		_ = json.Unmarshal(c.Data, &cd)
		if res.Status == "timeout" {
			d.Inconclusive("watchdog timeout in case " + c.ID)
			return
		}
		if res.Status != "done" {
			// the process died: a wrapper took the process down (fatal error), which recover cannot see
			detail := ""
			sigTail := "process-died"
			if res.Crash != nil {
				detail = res.Crash.Exit + "\n" + res.Crash.StderrTail
				if !res.Crash.Confirmed {
					d.Inconclusive("worker died in case " + c.ID + " (not confirmed by a re-run alone): " + res.Crash.Exit)
					return
				}
			}
			if res.Status == "lost" {
				d.Inconclusive("no result for case " + c.ID)
				return
			}
			d.Violation(firstNonEmpty(cd.Entry, "codec:"+cd.Codec)+":"+sigTail, "the worker process died while running this case\n"+detail, cd)
			return
		}
		if res.Panic != "" {
			d.Fatal("harness panic in case " + c.ID + ": " + mon.Truncate(res.Panic, 1500))
			return
		}
		var o out
		if err := json.Unmarshal(res.Data, &o); err != nil {
			d.Fatal("bad worker output: " + err.Error())
			return
		}
		for _, h := range o.Harness {
			d.Fatal("harness could not make a call: " + h)
		}
		if o.Complete != nil {
			comp = o.Complete
		}
		d.Eval(int(o.Calls))
		for k, n := range o.Classes {
			classes[k] += n
			d.Distinct(k)
		}
		for k, n := range o.Events {
			d.Event(k, int(n))
		}
		for _, s := range o.Samples {
			// one sample per module / codec so that the five kept samples are spread out
			group := firstNonEmpty(cd.Codec, strings.SplitN(cd.Entry, ".", 2)[0])
			if !sampled[group] && (group == "strings" || group == "math" || group == "regexp" || group == "byte_slice" || group == "json") {
				sampled[group] = true
				d.Sample(s)
			}
		}
		for _, v := range o.Viols {
			sigs[v.Sig]++
			d.Violation(v.Sig, v.Detail, v.Call)
		}
	})

	if len(sigs) > 0 {
		d.Extra("violation_signatures", sigs)
	}
	if replay != "" {
		return d.Finish(1, 0)
	}
	if comp == nil {
		d.Fatal("the completeness check of the mapping table did not run")
	} else {
		for _, p := range comp.Problems {
			d.Fatal("mapping table incomplete: " + p)
			fmt.Println("  table problem:", p)
		}
		d.Extra("table_functions_matched_live", comp.Functions)
		d.Extra("method_enumeration_by_source_scan", comp.SourceScan)
		if len(comp.Notes) > 0 {
			d.Extra("completeness_notes", comp.Notes)
		}
		if !comp.SourceScan {
			d.Assume = append(d.Assume, "the repository source could not be parsed: methods were enumerated by probing only")
		}
	}
	// per-function coverage: every table entry must have been exercised
	perFn := map[string]int64{}
	for k, n := range classes {
		fn := k[:strings.Index(k, " | ")]
		perFn[fn] += n
	}
	var unexercised []string
	for _, e := range table {
		if perFn[e.key()] == 0 {
			unexercised = append(unexercised, e.key())
		}
	}
	sort.Strings(unexercised)
	if len(unexercised) > 0 {
		d.Fatal("table entries never exercised: " + strings.Join(unexercised, ", "))
	}
	d.Extra("table_entries", len(table))
	d.Extra("out_of_scope", outOfScope)
	d.Extra("codecs_out_of_scope", codecsOutOfScope)
	fnNames := make([]string, 0, len(perFn))
	for k := range perFn {
		fnNames = append(fnNames, k)
	}
	sort.Strings(fnNames)
	d.Extra("functions_exercised", len(fnNames))
	return d.Finish(d.N(20000, 2000000), d.N(1500, 3000))
}

func firstNonEmpty(a, b string) string {
	if a != "" {
		return a
	}
	return b
}
