package c19

import (
	"fmt"
	"go/ast"
	"go/parser"
	"go/token"
	"os"
	"path/filepath"
	"runtime/debug"
	"sort"
	"strconv"
	"strings"

	"github.com/risor-io/risor/builtins"
	"github.com/risor-io/risor/object"
)

// Completeness of the mapping table against the LIVE objects.
//
//   - modules: (*object.Module).VerifAttrNames() (hook, build tag verif) enumerates every attribute;
//     each must be a table entry or be listed in outOfScope with a reason, and every table entry must
//     exist in the module.
//   - methods of string / byte_slice / compiled regexp: GetAttr is a Go switch with no enumeration
//     API. Two independent approximations are used: (a) the repository source the binary was built
//     from is parsed (go/parser) and the string literals of the `case` clauses in the GetAttr method
//     are collected; (b) GetAttr is probed with a wide candidate list (snake_case of every exported
//     function of Go's strings and bytes packages, of the Regexp methods, and common names).
//   - codecs: the registry is a private map; builtins.GetCodec is probed with the known names and a
//     candidate list.
//
// Any name found that the table does not know makes the run inconclusive.

var modulesInScope = []string{"strings", "strconv", "math", "bytes", "base64", "filepath", "regexp", "json"}

type completeness struct {
	Problems   []string `json:"problems"`
	Notes      []string `json:"notes"`
	Functions  int      `json:"functions"`
	SourceScan bool     `json:"source_scan"`
}

func repoDir() string {
	if bi, ok := debug.ReadBuildInfo(); ok {
		for _, d := range bi.Deps {
			if d.Path == "github.com/risor-io/risor" && d.Replace != nil && filepath.IsAbs(d.Replace.Path) {
				return d.Replace.Path
			}
		}
	}
	if v := os.Getenv("VERIF_REPO"); v != "" {
		return v
	}
	return "/repo"
}

// getAttrCases parses file and returns the string literals in case clauses inside the GetAttr
// method of the given receiver type.
func getAttrCases(file, recv string) ([]string, error) {
	fset := token.NewFileSet()
	f, err := parser.ParseFile(fset, file, nil, 0)
	if err != nil {
		return nil, err
	}
	var names []string
	found := false
	for _, d := range f.Decls {
		fd, ok := d.(*ast.FuncDecl)
		if !ok || fd.Name.Name != "GetAttr" || fd.Recv == nil || len(fd.Recv.List) != 1 {
			continue
		}
		t := fd.Recv.List[0].Type
		if st, ok := t.(*ast.StarExpr); ok {
			t = st.X
		}
		if id, ok := t.(*ast.Ident); !ok || id.Name != recv {
			continue
		}
		found = true
		// only the outermost switch statements of the method body (nested closures have their own)
		for _, st := range fd.Body.List {
			sw, ok := st.(*ast.SwitchStmt)
			if !ok {
				continue
			}
			for _, cc := range sw.Body.List {
				for _, e := range cc.(*ast.CaseClause).List {
					if bl, ok := e.(*ast.BasicLit); ok && bl.Kind == token.STRING {
						if sv, err := strconv.Unquote(bl.Value); err == nil {
							names = append(names, sv)
						}
					}
				}
			}
		}
	}
	if !found {
		return nil, fmt.Errorf("no GetAttr method on %s in %s", recv, file)
	}
	return names, nil
}

func snake(name string) string {
	var sb strings.Builder
	for i, c := range name {
		if c >= 'A' && c <= 'Z' {
			if i > 0 {
				sb.WriteByte('_')
			}
			sb.WriteRune(c + 32)
		} else {
			sb.WriteRune(c)
		}
	}
	return sb.String()
}

var goStringsBytesFuncs = []string{"Clone", "Compare", "Contains", "ContainsAny", "ContainsFunc", "ContainsRune", "Count", "Cut", "CutPrefix", "CutSuffix", "Equal", "EqualFold", "Fields", "FieldsFunc", "FieldsSeq", "HasPrefix", "HasSuffix",
	"Index", "IndexAny", "IndexByte", "IndexFunc", "IndexRune", "Join", "LastIndex", "LastIndexAny", "LastIndexByte", "LastIndexFunc", "Lines", "Map", "Repeat", "Replace", "ReplaceAll", "Runes", "Split", "SplitAfter", "SplitAfterN", "SplitN", "SplitSeq",
	"Title", "ToLower", "ToLowerSpecial", "ToTitle", "ToTitleSpecial", "ToUpper", "ToUpperSpecial", "ToValidUTF8", "Trim", "TrimFunc", "TrimLeft", "TrimLeftFunc", "TrimPrefix", "TrimRight", "TrimRightFunc", "TrimSpace", "TrimSuffix", "MinRead", "NewReader", "NewBuffer", "Equals"}

var goRegexpMethods = []string{"Match", "MatchString", "Find", "FindString", "FindAll", "FindAllString", "FindSubmatch", "FindStringSubmatch", "FindAllSubmatch", "FindAllStringSubmatch", "FindIndex", "FindStringIndex", "FindAllIndex", "ReplaceAll", "ReplaceAllString",
	"ReplaceAllLiteral", "ReplaceAllLiteralString", "ReplaceAllFunc", "Split", "String", "NumSubexp", "SubexpNames", "SubexpIndex", "Longest", "LiteralPrefix", "Expand", "ExpandString", "Replace", "FindSubmatchIndex", "Pattern", "Groups", "Search", "Sub", "Test", "Exec"}

var commonNames = []string{"upper", "lower", "strip", "lstrip", "rstrip", "startswith", "endswith", "starts_with", "ends_with", "find", "rfind", "len", "length", "size", "reverse", "reversed", "format", "title", "capitalize", "is_empty", "to_string", "string",
	"bytes", "runes", "chars", "lines", "substr", "substring", "slice", "at", "get", "pad_left", "pad_right", "center", "encode", "decode", "to_int", "to_float", "int", "float", "hex", "base64", "append", "extend", "copy", "equal", "equals", "eq", "cmp", "hash",
	"is_valid", "valid", "write", "read", "trim_left", "trim_right", "splitn", "split_n", "split_after", "to_title", "equal_fold", "cut", "fields", "first", "last", "insert", "remove", "pop", "push", "clear", "keys", "values", "items", "each", "map", "filter", "sort"}

func methodCandidates() []string {
	set := map[string]bool{}
	for _, l := range [][]string{goStringsBytesFuncs, goRegexpMethods} {
		for _, n := range l {
			set[snake(n)] = true
			set[strings.ToLower(n)] = true
		}
	}
	for _, n := range commonNames {
		set[n] = true
	}
	out := make([]string, 0, len(set))
	for n := range set {
		out = append(out, n)
	}
	sort.Strings(out)
	return out
}

var codecCandidates = []string{"csv", "yaml", "yml", "toml", "xml", "base16", "base58", "base85", "ascii85", "url", "urlpath", "urlencode", "percent", "zlib", "deflate", "flate", "bzip2", "zstd", "snappy", "brotli", "lz4", "lzw", "xz", "utf8", "utf16", "utf-8",
	"rot13", "binary", "gob", "msgpack", "cbor", "protobuf", "pem", "jwt", "html", "quoted-printable", "uuencode", "base64url", "base64-url", "base64_url", "rawbase64", "base32hex", "hexdump", "ini", "tsv", "json5", "ndjson", "jsonl", "text", "string", "bytes"}

func checkCompleteness(v *env, table []*entry) *completeness {
	c := &completeness{}
	known := map[string]bool{}
	for _, e := range table {
		known[e.key()] = true
	}
	add := func(f string, a ...any) { c.Problems = append(c.Problems, fmt.Sprintf(f, a...)) }

	// --- modules
	for _, name := range modulesInScope {
		m, err := v.module(name)
		if err != nil {
			add("module %s: %v", name, err)
			continue
		}
		for _, attr := range m.VerifAttrNames() {
			key := name + "." + attr
			if known[key] {
				c.Functions++
				continue
			}
			if _, ok := outOfScope[key]; ok {
				continue
			}
			add("%s exists in the live module but has no table entry and is not listed as out of scope", key)
		}
	}
	for _, e := range table {
		switch e.Kind {
		case kFunc, kConst:
			m, err := v.module(e.Mod)
			if err != nil {
				continue
			}
			if _, ok := m.GetAttr(e.Name); !ok {
				add("table entry %s has no live counterpart", e.key())
			}
		}
	}

	// --- methods
	recvs := []struct {
		mod, file, typ string
		obj            func() object.Object
	}{
		{"string", "object/string.go", "String", func() object.Object { return object.NewString("x") }},
		{"byte_slice", "object/byte_slice.go", "ByteSlice", func() object.Object { return object.NewByteSlice([]byte("x")) }},
		{"regexp.object", "modules/regexp/regexp_object.go", "Regexp", func() object.Object {
			m, err := v.module("regexp")
			if err != nil {
				return nil
			}
			comp, _ := m.GetAttr("compile")
			r := callBuiltinObj(comp, object.NewString("x"))
			return r.obj
		}},
	}
	dir := repoDir()
	c.SourceScan = true
	for _, rc := range recvs {
		o := rc.obj()
		if o == nil {
			add("cannot build a %s object", rc.mod)
			continue
		}
		names, err := getAttrCases(filepath.Join(dir, rc.file), rc.typ)
		if err != nil {
			c.SourceScan = false
			c.Notes = append(c.Notes, fmt.Sprintf("source scan of %s failed (%v): methods of %s enumerated by probing only", rc.file, err, rc.mod))
		}
		for _, n := range names {
			if _, ok := o.GetAttr(n); !ok {
				continue // a case that does not yield an attribute
			}
			if !known[rc.mod+"."+n] {
				add("%s.%s is a case of GetAttr in %s but has no table entry", rc.mod, n, rc.file)
			} else {
				c.Functions++
			}
		}
		inSource := map[string]bool{}
		for _, n := range names {
			inSource[n] = true
		}
		for _, n := range methodCandidates() {
			if _, ok := o.GetAttr(n); ok && !known[rc.mod+"."+n] {
				add("%s.%s answers GetAttr but has no table entry", rc.mod, n)
			}
		}
		for _, e := range table {
			if e.Mod != rc.mod {
				continue
			}
			if _, ok := o.GetAttr(e.Name); !ok {
				add("table entry %s has no live counterpart", e.key())
			}
			if err == nil && !inSource[e.Name] {
				c.Notes = append(c.Notes, fmt.Sprintf("%s answers GetAttr but was not found by the source scan", e.key()))
			}
		}
	}

	// --- codecs
	for _, n := range codecsInScope {
		if _, err := builtins.GetCodec(n); err != nil {
			add("codec %q is not registered: %v", n, err)
		}
	}
	inScope := map[string]bool{}
	for _, n := range codecsInScope {
		inScope[n] = true
	}
	for _, n := range codecCandidates {
		if _, err := builtins.GetCodec(n); err == nil && !inScope[n] {
			if _, ok := codecsOutOfScope[n]; !ok {
				add("codec %q is registered but unknown to the check", n)
			}
		}
	}
	// the registrations in the source of the tree the binary was built from
	if names, err := registeredCodecs(filepath.Join(dir, "builtins/codecs.go")); err != nil {
		c.Notes = append(c.Notes, fmt.Sprintf("source scan of builtins/codecs.go failed (%v): codecs enumerated by probing only", err))
	} else {
		for _, n := range names {
			if _, err := builtins.GetCodec(n); err != nil {
				continue
			}
			if _, out := codecsOutOfScope[n]; !inScope[n] && !out {
				add("codec %q is registered (RegisterCodec in builtins/codecs.go) but unknown to the check", n)
			}
		}
	}
	for _, n := range []string{"encode", "decode"} {
		if _, err := v.builtin(n); err != nil {
			add("builtin %s: %v", n, err)
		}
	}
	return c
}

// registeredCodecs returns the string literals passed as first argument to RegisterCodec in file.
func registeredCodecs(file string) ([]string, error) {
	fset := token.NewFileSet()
	f, err := parser.ParseFile(fset, file, nil, 0)
	if err != nil {
		return nil, err
	}
	var names []string
	ast.Inspect(f, func(n ast.Node) bool {
		call, ok := n.(*ast.CallExpr)
		if !ok || len(call.Args) == 0 {
			return true
		}
		if id, ok := call.Fun.(*ast.Ident); ok && id.Name == "RegisterCodec" {
			if bl, ok := call.Args[0].(*ast.BasicLit); ok && bl.Kind == token.STRING {
				if sv, err := strconv.Unquote(bl.Value); err == nil {
					names = append(names, sv)
				}
			}
		}
		return true
	})
	if len(names) == 0 {
		return nil, fmt.Errorf("no RegisterCodec call found")
	}
	return names, nil
}
