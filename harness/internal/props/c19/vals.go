package c19

import (
	"fmt"
	"math"
	"sort"
	"strings"
	"unicode/utf8"

	"github.com/risor-io/risor/object"
)

// V is the harness-side description of a value that crosses the Go <-> risor boundary.
// It is JSON-serialisable without loss: string/bytes contents travel as []byte (base64 in
// JSON, so invalid UTF-8 survives) and floats as their IEEE bit pattern (NaN, ±Inf, -0 survive).
type V struct {
	K  string   `json:"k"`           // str bytes int float bool nil list map byte other
	S  []byte   `json:"s,omitempty"` // str / bytes content; for "other": type + inspect text
	I  int64    `json:"i,omitempty"`
	F  uint64   `json:"f,omitempty"` // float64 bits
	B  bool     `json:"b,omitempty"`
	L  []V      `json:"l,omitempty"` // list items / map values (keys in MK)
	MK [][]byte `json:"mk,omitempty"`
}

func vStr(s string) V   { return V{K: "str", S: []byte(s)} }
func vBytes(b []byte) V { return V{K: "bytes", S: append([]byte{}, b...)} }
func vInt(i int64) V    { return V{K: "int", I: i} }
func vFloat(f float64) V {
	return V{K: "float", F: math.Float64bits(f)}
}
func vBool(b bool) V { return V{K: "bool", B: b} }
func vNil() V        { return V{K: "nil"} }
func vList(l ...V) V { return V{K: "list", L: l} }
func vOther(t, s string) V {
	return V{K: "other", S: []byte(t + ":" + s)}
}
func vStrList(ss []string) V {
	v := V{K: "list"}
	for _, s := range ss {
		v.L = append(v.L, vStr(s))
	}
	return v
}
func vMap(keys []string, vals []V) V {
	v := V{K: "map", L: vals}
	for _, k := range keys {
		v.MK = append(v.MK, []byte(k))
	}
	return v
}

func (v V) Str() string    { return string(v.S) }
func (v V) Float() float64 { return math.Float64frombits(v.F) }

// Num returns the value of an int or float argument as the float64 that AsFloat produces.
func (v V) Num() float64 {
	if v.K == "int" || v.K == "byte" {
		return float64(v.I)
	}
	return v.Float()
}

func (v V) StrSlice() []string {
	out := make([]string, len(v.L))
	for i, e := range v.L {
		out[i] = e.Str()
	}
	return out
}

func (v V) String() string {
	switch v.K {
	case "str":
		return fmt.Sprintf("%q", v.S)
	case "bytes":
		return fmt.Sprintf("byte_slice(%q)", v.S)
	case "int":
		return fmt.Sprintf("%d", v.I)
	case "byte":
		return fmt.Sprintf("byte(%d)", v.I)
	case "float":
		f := v.Float()
		return fmt.Sprintf("float(%v /*0x%016x*/)", f, v.F)
	case "bool":
		return fmt.Sprintf("%t", v.B)
	case "nil":
		return "nil"
	case "list":
		parts := make([]string, len(v.L))
		for i, e := range v.L {
			parts[i] = e.String()
		}
		return "[" + strings.Join(parts, ", ") + "]"
	case "map":
		parts := make([]string, len(v.L))
		for i, e := range v.L {
			parts[i] = fmt.Sprintf("%q: %s", v.MK[i], e.String())
		}
		return "{" + strings.Join(parts, ", ") + "}"
	case "other":
		return "<" + string(v.S) + ">"
	}
	return "?" + v.K
}

// Obj builds a fresh risor object.
func (v V) Obj() object.Object {
	switch v.K {
	case "str":
		return object.NewString(string(v.S))
	case "bytes":
		return object.NewByteSlice(append([]byte{}, v.S...))
	case "int":
		return object.NewInt(v.I)
	case "byte":
		return object.NewByte(byte(v.I))
	case "float":
		return object.NewFloat(v.Float())
	case "bool":
		return object.NewBool(v.B)
	case "nil":
		return object.Nil
	case "list":
		items := make([]object.Object, len(v.L))
		for i, e := range v.L {
			items[i] = e.Obj()
		}
		return object.NewList(items)
	case "map":
		m := map[string]object.Object{}
		for i, e := range v.L {
			m[string(v.MK[i])] = e.Obj()
		}
		return object.NewMap(m)
	}
	panic("c19: cannot build object of kind " + v.K)
}

// fromObj is the pinned conversion risor -> harness value. Errors are handled by the caller.
func fromObj(o object.Object) V {
	switch o := o.(type) {
	case nil:
		return vOther("go-nil", "")
	case *object.String:
		return vStr(o.Value())
	case *object.ByteSlice:
		return vBytes(o.Value())
	case *object.Int:
		return vInt(o.Value())
	case *object.Byte:
		return V{K: "byte", I: int64(o.Value())}
	case *object.Float:
		return vFloat(o.Value())
	case *object.Bool:
		return vBool(o.Value())
	case *object.NilType:
		return vNil()
	case *object.List:
		v := V{K: "list"}
		for _, e := range o.Value() {
			v.L = append(v.L, fromObj(e))
		}
		return v
	case *object.Map:
		m := o.Value()
		keys := make([]string, 0, len(m))
		for k := range m {
			keys = append(keys, k)
		}
		sort.Strings(keys)
		v := V{K: "map"}
		for _, k := range keys {
			v.MK = append(v.MK, []byte(k))
			v.L = append(v.L, fromObj(m[k]))
		}
		return v
	}
	return vOther(string(o.Type()), o.Inspect())
}

// same is strict equality under the pinned conversion: same kind, same content; floats
// bit-exact except that every NaN equals every NaN; map entries compared by sorted key.
func same(a, b V) bool {
	if a.K != b.K {
		return false
	}
	switch a.K {
	case "str", "bytes", "other":
		return string(a.S) == string(b.S)
	case "int", "byte":
		return a.I == b.I
	case "float":
		fa, fb := a.Float(), b.Float()
		if math.IsNaN(fa) || math.IsNaN(fb) {
			return math.IsNaN(fa) && math.IsNaN(fb)
		}
		return a.F == b.F
	case "bool":
		return a.B == b.B
	case "nil":
		return true
	case "list":
		if len(a.L) != len(b.L) {
			return false
		}
		for i := range a.L {
			if !same(a.L[i], b.L[i]) {
				return false
			}
		}
		return true
	case "map":
		if len(a.L) != len(b.L) {
			return false
		}
		am, bm := a.sortedMap(), b.sortedMap()
		for i := range am.L {
			if string(am.MK[i]) != string(bm.MK[i]) || !same(am.L[i], bm.L[i]) {
				return false
			}
		}
		return true
	}
	return false
}

func (v V) sortedMap() V {
	idx := make([]int, len(v.L))
	for i := range idx {
		idx[i] = i
	}
	sort.SliceStable(idx, func(i, j int) bool { return string(v.MK[idx[i]]) < string(v.MK[idx[j]]) })
	out := V{K: "map"}
	for _, i := range idx {
		out.MK = append(out.MK, v.MK[i])
		out.L = append(out.L, v.L[i])
	}
	return out
}

// ---------------------------------------------------------------------------------------
// argument classes (the "shape of the input" part of signatures and of the distinct rule)

func classStr(b []byte) string {
	switch {
	case len(b) == 0:
		return "empty"
	case !utf8.Valid(b):
		return "invalid-utf8"
	}
	for _, c := range b {
		if c >= 0x80 {
			return "unicode"
		}
	}
	return "ascii"
}

func classInt(i int64) string {
	switch {
	case i == 0:
		return "zero"
	case i == math.MaxInt64:
		return "max-int"
	case i == math.MinInt64:
		return "min-int"
	case i > 1<<53:
		return "int>2^53"
	case i < -(1 << 53):
		return "int<-2^53"
	case i > 0:
		return "pos"
	}
	return "neg"
}

func classFloat(f float64) string {
	switch {
	case math.IsNaN(f):
		return "nan"
	case math.IsInf(f, 1):
		return "inf"
	case math.IsInf(f, -1):
		return "neg-inf"
	case f == 0 && math.Signbit(f):
		return "neg-zero"
	case f == 0:
		return "fzero"
	case math.Abs(f) < 2.2250738585072014e-308:
		return "subnormal"
	case math.Abs(f) >= 1<<53:
		return "float>=2^53"
	}
	_, frac := math.Modf(f)
	switch {
	case frac == 0:
		return "int-valued"
	case math.Abs(frac) == 0.5:
		return "half"
	}
	return "frac"
}

func classOf(v V) string {
	switch v.K {
	case "str":
		return classStr(v.S)
	case "bytes":
		return "b-" + classStr(v.S)
	case "int":
		return classInt(v.I)
	case "byte":
		return "byte"
	case "float":
		return classFloat(v.Float())
	case "bool":
		return fmt.Sprintf("%t", v.B)
	case "nil":
		return "nil"
	case "list":
		if len(v.L) == 0 {
			return "list0"
		}
		// the most notable member class
		best := ""
		rank := map[string]int{"invalid-utf8": 5, "b-invalid-utf8": 5, "nan": 5, "empty": 4, "b-empty": 4, "unicode": 3, "b-unicode": 3, "int>2^53": 3, "inf": 3}
		for _, e := range v.L {
			c := classOf(e)
			if best == "" || rank[c] > rank[best] {
				best = c
			}
		}
		n := "N"
		if len(v.L) == 1 {
			n = "1"
		}
		return "list" + n + "<" + best + ">"
	case "map":
		return fmt.Sprintf("map%d", len(v.L))
	}
	return v.K
}

func classTuple(args []V) string {
	if len(args) == 0 {
		return "noargs"
	}
	parts := make([]string, len(args))
	for i, a := range args {
		parts[i] = classOf(a)
	}
	return strings.Join(parts, ",")
}
