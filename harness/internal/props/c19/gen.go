package c19

import (
	"math"
	"strings"
	"unicode/utf8"

	"verif/internal/mon"
)

// ---------------------------------------------------------------------------------------
// strings

var (
	atomsASCII = []string{"a", "b", "ab", "abc", "aaa", "abab", "Hello", "hello world", "x", "X", "Z", "0", "-1", "a,b,c", ",", ",,", "x=y",
		"foo.bar", "/", "//", "..", "%", "+", "$1", "*", "?", "[", "\\", "\x00", "\x7f", "oink oink", "Go", "go", "=", "==", "AbC"}
	atomsSpace = []string{" ", "  ", "\t", "\n", "\r\n", "\v", "\f", " a ", "\u00a0", "\u0085", "\u2028", "\u3000", "\u1680", "\u200b", "\ufeff"}
	atomsUni   = []string{"é", "É", "日本語", "日", "😀", "ß", "ẞ", "İ", "ı", "ǅ", "ǆ", "Ǆ", "ſ", "\u212a", "é", "σ", "ς", "Σ", "ÿ", "Ÿ", "¡", "ǰ", "ŉ", "ﬁ", "ÿ", "\U0010ffff",
		"�", "ä", "Ω", "ω", "я", "Я", "ᾳ", "ᾼ"}
	atomsBad = []string{"\xff", "\xc3", "\xe2\x82", "a\xffb", "\xed\xa0\x80", "\xf8\x88\x80\x80\x80", "\xc0\xaf", "\x80", "\xfe", "\xf0\x9f\x98", "\xc3\x28", "\xbf"}
)

// genStrClass produces a string of the requested broad class.
func genStrClass(r *mon.Rand, cls int) string {
	switch cls {
	case 0:
		return ""
	case 1: // ascii
		n := r.Range(1, 5)
		var sb strings.Builder
		for i := 0; i < n; i++ {
			sb.WriteString(mon.Pick(r, atomsASCII))
		}
		return sb.String()
	case 2: // whitespace-heavy
		n := r.Range(1, 6)
		var sb strings.Builder
		for i := 0; i < n; i++ {
			if r.Bool() {
				sb.WriteString(mon.Pick(r, atomsSpace))
			} else if r.Bool() {
				sb.WriteString(mon.Pick(r, atomsASCII))
			} else {
				sb.WriteString(mon.Pick(r, atomsUni))
			}
		}
		return sb.String()
	case 3: // unicode
		n := r.Range(1, 5)
		var sb strings.Builder
		for i := 0; i < n; i++ {
			if r.Chance(2, 3) {
				sb.WriteString(mon.Pick(r, atomsUni))
			} else {
				sb.WriteString(mon.Pick(r, atomsASCII))
			}
		}
		s := sb.String()
		if classStr([]byte(s)) != "unicode" {
			s += mon.Pick(r, atomsUni)
		}
		return s
	case 4: // invalid UTF-8
		n := r.Range(1, 4)
		var sb strings.Builder
		pos := r.Intn(n)
		for i := 0; i < n; i++ {
			switch {
			case i == pos:
				sb.WriteString(mon.Pick(r, atomsBad))
			case r.Bool():
				sb.WriteString(mon.Pick(r, atomsUni))
			default:
				sb.WriteString(mon.Pick(r, atomsASCII))
			}
		}
		return sb.String()
	default: // random bytes / random runes
		n := r.Range(1, 12)
		b := make([]byte, 0, n*4)
		if r.Bool() {
			for i := 0; i < n; i++ {
				b = append(b, byte(r.Intn(256)))
			}
		} else {
			for i := 0; i < n; i++ {
				b = utf8.AppendRune(b, rune(r.Intn(0x11000)))
			}
		}
		return string(b)
	}
}

func pickByte(r *mon.Rand, s string) byte { return s[r.Intn(len(s))] }

func genStr(r *mon.Rand) string { return genStrClass(r, r.Intn(6)) }

// genSub produces a second string argument related to s half of the time (a piece of s, cut at
// arbitrary byte offsets so that it may split a multi-byte rune, or at rune boundaries).
func genSub(r *mon.Rand, s string) string {
	switch k := r.Intn(10); {
	case k == 0:
		return ""
	case k <= 4 && len(s) > 0:
		if r.Bool() {
			i := r.Intn(len(s) + 1)
			j := r.Range(i, min(len(s), i+r.Range(1, 6)))
			return s[i:j]
		}
		rs := []rune(s)
		i := r.Intn(len(rs) + 1)
		j := r.Range(i, min(len(rs), i+r.Range(1, 3)))
		return string(rs[i:j])
	case k == 5 && len(s) > 0:
		// prefix / suffix / whole
		switch r.Intn(3) {
		case 0:
			return s[:r.Range(0, len(s))]
		case 1:
			return s[r.Range(0, len(s)):]
		}
		return s
	case k == 6:
		// a case variant of a piece (matters for to_lower/has_prefix style functions)
		return strings.ToUpper(s)
	}
	return genStr(r)
}

// genCutset: a set of characters, often drawn from the ends of s.
func genCutset(r *mon.Rand, s string) string {
	rs := []rune(s)
	switch k := r.Intn(6); {
	case k == 0:
		return ""
	case k <= 3 && len(rs) > 0:
		out := []rune{rs[0], rs[len(rs)-1]}
		if r.Bool() {
			out = append(out, rs[r.Intn(len(rs))])
		}
		if r.Chance(1, 3) {
			out = out[:1]
		}
		return string(out)
	case k == 4:
		return mon.Pick(r, atomsSpace) + mon.Pick(r, atomsUni)
	}
	return genStr(r)
}

func genStrList(r *mon.Rand) []string {
	n := mon.Pick(r, []int{0, 0, 1, 1, 2, 3, 4, 7})
	out := make([]string, n)
	for i := range out {
		out[i] = genStr(r)
	}
	return out
}

// genLong: byte strings for the codecs (empty, all byte values, long).
func genBlob(r *mon.Rand, thorough bool) []byte {
	switch r.Intn(10) {
	case 0:
		return []byte{}
	case 1:
		b := make([]byte, 256)
		for i := range b {
			b[i] = byte(i)
		}
		return b
	case 2:
		n := r.Range(1000, 20000)
		if thorough && r.Chance(1, 8) {
			n = r.Range(100000, 400000)
		}
		b := make([]byte, n)
		if r.Bool() {
			for i := range b {
				b[i] = byte(r.Uint64())
			}
		} else { // compressible
			for i := range b {
				b[i] = "abcabcabd\x00\xff"[i%11]
			}
		}
		return b
	case 3:
		return []byte(genStr(r))
	case 4:
		// lengths 1..6 exercise every padding length of base64/base32
		n := r.Range(1, 6)
		b := make([]byte, n)
		for i := range b {
			b[i] = byte(r.Uint64())
		}
		return b
	case 5:
		// bytes whose base64 contains '+' and '/' (0xfb 0xff ...), i.e. differs from the URL alphabet
		n := r.Range(1, 9)
		b := make([]byte, n)
		for i := range b {
			b[i] = mon.Pick(r, []byte{0xfb, 0xff, 0xfe, 0xef, 0xbf, 0x3e, 0x3f})
		}
		return b
	}
	n := r.Range(1, 64)
	b := make([]byte, n)
	for i := range b {
		b[i] = byte(r.Uint64())
	}
	return b
}

// ---------------------------------------------------------------------------------------
// numbers

var intPool = []int64{0, 1, -1, 2, -2, 3, 7, 10, 64, 100, 255, 256, 308, 309, -323, -324, -325, 1 << 31, -(1 << 31), 1<<53 - 1, 1 << 53, 1<<53 + 1, -(1 << 53), -(1<<53 + 1),
	math.MaxInt64, math.MaxInt64 - 1, math.MinInt64, math.MinInt64 + 1, 1 << 62, math.MaxInt64 - 511, math.MaxInt64 - 512, math.MaxInt64 - 513, 1<<63 - 1025, -(1 << 62)}

var floatPool = []float64{0, math.Copysign(0, -1), 1, -1, 0.5, -0.5, 1.5, -1.5, 2.5, -2.5, 3.5, 0.49999999999999994, -0.49999999999999994, 4503599627370495.5, 4503599627370496.5, 4503599627370497,
	1 << 53, 1<<53 + 2, -(1 << 53), math.Inf(1), math.Inf(-1), math.NaN(), math.SmallestNonzeroFloat64, -math.SmallestNonzeroFloat64, math.MaxFloat64, -math.MaxFloat64, 1e-310,
	math.Pi, math.E, math.Pi / 2, math.Pi / 4, -math.Pi, 1e22, 1e23, 308, 309, -323, -324, 0.1, 1.0 / 3, 9.223372036854775807e18, -9.223372036854775808e18, 9.223372036854777e18, 2, 3, 10, 100, 1e300, 1e-300, 4, 8, 1024, 1e15 + 0.5}

func genInt(r *mon.Rand) int64 {
	switch r.Intn(4) {
	case 0:
		return int64(r.Range(-20, 20))
	case 1:
		return int64(r.Uint64())
	}
	return mon.Pick(r, intPool)
}

func genFloat(r *mon.Rand) float64 {
	switch r.Intn(6) {
	case 0:
		return float64(r.Range(-2000, 2000)) / 4 // quarters: many .5 and .25 cases
	case 1:
		return math.Float64frombits(r.Uint64()) // any bit pattern
	case 2:
		return (r.Float64() - 0.5) * math.Pow(10, float64(r.Range(-5, 20)))
	}
	return mon.Pick(r, floatPool)
}

// genNum: a risor "number" (int or float)
func genNum(r *mon.Rand) V {
	if r.Chance(2, 5) {
		return vInt(genInt(r))
	}
	return vFloat(genFloat(r))
}

// genCount: a repeat / replace count such that total output stays small for the given unit
// length, or so extreme that Go rejects it before allocating.
func genCount(r *mon.Rand, unit int) int64 {
	switch r.Intn(10) {
	case 0:
		return 0
	case 1:
		return 1
	case 2:
		return -1
	case 3:
		return mon.Pick(r, []int64{math.MinInt64, -2, -(1 << 40)})
	case 4:
		// huge: only where Go's own overflow check fires (unit >= 2) or the result is empty (unit == 0)
		if unit == 0 || unit >= 2 {
			return mon.Pick(r, []int64{math.MaxInt64, math.MaxInt64 - 1, 1 << 62})
		}
		return 3
	case 5:
		if unit == 0 {
			return 1 << 40
		}
		return int64(r.Range(2, max(2, 65536/unit)))
	}
	return int64(r.Range(2, 9))
}

// ---------------------------------------------------------------------------------------
// numeric-looking strings (strconv)

var numStrs = []string{"0", "-0", "+0", "+5", "5", "007", "0x1f", "0X1F", "1_000", "0b101", "0o17", "017", "9223372036854775807", "9223372036854775808", "-9223372036854775808", "-9223372036854775809",
	" 1", "1 ", "1e3", "1E3", "1.5", "-1.5", "inf", "-Inf", "+Inf", "infinity", "NaN", "nan", "1e400", "-1e400", "1e-400", "0x1p-2", "0x1.8p1", "١٢٣", "", "abc", "t", "T", "TRUE", "true", "True", "tRUE", "f", "F", "FALSE", "false", "False",
	"1", "yes", "no", "1\xff", ".5", "5.", "1e", "--1", "+-1", "ff", "FF", "zz", "ZZ", "z", "-ff", "7fffffffffffffff", "8000000000000000", "127", "128", "-128", "-129", "32767", "32768", "2147483647", "2147483648",
	"1.7976931348623157e308", "1.7976931348623159e308", "4.9e-324", "2.4e-324", "0.1", "1e23", "8.41e21", "2.2250738585072011e-308", "1_0", "_1", "1__0", "0_x1", "0x_1f", "1.0", "١", "1\x00", " 1", "99999999999999999999999999999999",
	"0.000000000000000000000000000000000000001", "1p3", "0x", "0b", "0b2", "0o8", "e5", ".", "+", "-", "1e+5", "1e-5", "1,5"}

func genNumStr(r *mon.Rand) string {
	switch r.Intn(6) {
	case 0:
		return genStr(r)
	case 1:
		// random decimal of random length
		n := r.Range(1, 25)
		var sb strings.Builder
		if r.Chance(1, 3) {
			sb.WriteByte(pickByte(r, "+-"))
		}
		for i := 0; i < n; i++ {
			sb.WriteByte(byte('0' + r.Intn(10)))
		}
		if r.Chance(1, 3) {
			sb.WriteByte('.')
			for i := 0; i < r.Range(0, 20); i++ {
				sb.WriteByte(byte('0' + r.Intn(10)))
			}
		}
		if r.Chance(1, 4) {
			sb.WriteString("e")
			sb.WriteString([]string{"", "+", "-"}[r.Intn(3)])
			sb.WriteString([]string{"1", "10", "308", "309", "400", "22", "23"}[r.Intn(7)])
		}
		return sb.String()
	case 2:
		// mutate a pool member
		s := mon.Pick(r, numStrs)
		if len(s) > 0 && r.Bool() {
			i := r.Intn(len(s))
			return s[:i] + string([]byte{pickByte(r, "0123456789abcdefxXeE_.+- \xffz")}) + s[i:]
		}
		return s + mon.Pick(r, []string{"", " ", "0", "e", "\n"})
	}
	return mon.Pick(r, numStrs)
}

// ---------------------------------------------------------------------------------------
// paths and glob patterns (filepath)

var pathComps = []string{"", ".", "..", "a", "b", "b.txt", "é", "a b", ".hidden", "x.tar.gz", "\xff", "*", "c.", "...", "d:e", "日本", "-", "a.b.c", " "}
var globPats = []string{"*", "?", "[a-z]", "[", "[]a]", "\\", "a*b", "[^a]", "[a-", "*/x", "*.txt", "a?c", "[!a]", "\\*", "[a-z]*", "**", "a\\", "[\\]]", "[a-]", "[-a]", "é*", "[é-ü]", "\xff", "[^", "[a-b-c]", "x", ""}

func genPath(r *mon.Rand) string {
	if r.Chance(1, 12) {
		return genStr(r)
	}
	n := r.Intn(5)
	var sb strings.Builder
	if r.Chance(2, 5) {
		sb.WriteString(mon.Pick(r, []string{"/", "//", "/./", "/../"}))
	}
	for i := 0; i < n; i++ {
		if i > 0 {
			sb.WriteString(mon.Pick(r, []string{"/", "/", "/", "//", "/./"}))
		}
		sb.WriteString(mon.Pick(r, pathComps))
	}
	if r.Chance(1, 4) {
		sb.WriteString("/")
	}
	return sb.String()
}

func genGlob(r *mon.Rand) string {
	switch r.Intn(4) {
	case 0:
		return genPath(r)
	case 1:
		return mon.Pick(r, globPats) + mon.Pick(r, globPats)
	}
	return mon.Pick(r, globPats)
}

func genPathList(r *mon.Rand) string {
	n := r.Intn(4)
	parts := make([]string, n)
	for i := range parts {
		parts[i] = genPath(r)
	}
	return strings.Join(parts, mon.Pick(r, []string{":", ":", "::", ";"}))
}

// ---------------------------------------------------------------------------------------
// regular expressions

var rePats = []string{"a+", "(du)+", "a(b+)a", "[0-9]+", "", ".", "^$", "\\s+", "(?i)é+", "[^a]", "(a)|(b)", "a{2,3}", "\\pL+", "x*", ".*?", "\\b", "\\w+", "(?P<n>x)(y)?", "^", "$", "(?s).", "(?m)^a",
	"[[:alpha:]]+", "\\d", "a|", "()", "(a*)*", "\\x{1F600}", "日", "[é-ü]", ".{0,2}", "a??", "(?U)a+", "\\Qa.b\\E", ",", " ", "\\.", "o"}
var reBad = []string{"(", "[", "a**", "\\", "(?P<n>", "a{2,1}", "[z-a]", "(?<n>x", "\\8", "a{1001}", "\xff", "*", "+", "?", ")", "(?i", "[[:foo:]]", "\\pX", "x{2,1}", "(?z)"}
var reRepl = []string{"x", "", "$1", "${1}x", "$0$0", "$", "$$", "${", "é", "$n", "${n}", "$2", "\\1", "$1x", "\xff", "<$0>"}

func genRegexp(r *mon.Rand, allowBad bool) string {
	switch k := r.Intn(8); {
	case k == 0 && allowBad:
		return mon.Pick(r, reBad)
	case k == 1 && allowBad:
		return genStr(r)
	case k == 2:
		return mon.Pick(r, rePats) + mon.Pick(r, rePats)
	case k == 3:
		return "(" + mon.Pick(r, rePats) + ")" + mon.Pick(r, []string{"", "*", "+", "?"})
	}
	return mon.Pick(r, rePats)
}

func genSubject(r *mon.Rand) string {
	if r.Bool() {
		return genStr(r)
	}
	n := r.Intn(8)
	var sb strings.Builder
	for i := 0; i < n; i++ {
		sb.WriteString(mon.Pick(r, []string{"a", "aa", "b", "ab", "abba", "du", "dunk ", "1", "23", " ", "\n", "é", "É", "x", "y", "xy", "日", ",", ".", "o", "😀"}))
	}
	return sb.String()
}
