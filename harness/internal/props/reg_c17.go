package props

import "verif/internal/props/c17"

func init() { registrars = append(registrars, c17.Register) }
