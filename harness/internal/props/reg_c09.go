package props

import "verif/internal/props/c09"

func init() { registrars = append(registrars, c09.Register) }
