// Package c15: algebraic laws of equality, ordering and hashing (law monitor over a value pool).
//
// The oracle is the list of laws in the property statement, evaluated on the real object API
// (Equals, Compare, HashKey, Contains, IsTruthy, object.Sort, builtins.Sorted) and, sampled,
// through scripts. No model of "what the answer should be" is involved except for one rule that
// is beyond doubt: numbers that are exactly representable in both int64 and float64 compare by
// their mathematical value.
package c15

import (
	"context"
	"encoding/json"
	"errors"
	"fmt"
	"math"
	"sort"
	"strings"

	"github.com/risor-io/risor"
	"github.com/risor-io/risor/builtins"
	"github.com/risor-io/risor/object"
	"github.com/risor-io/risor/op"

	"verif/internal/mon"
)

const ID = "C15"

func Register() {
	mon.Register(&mon.Prop{ID: ID, Drive: drive})
	mon.RegisterWorker(ID, worker)
}

// ---------------------------------------------------------------------------------------
// value specs (harness-side description of a value; objects are built from it on demand so that
// every use gets fresh, unshared objects)

type V struct {
	K  string   `json:"k"` // int float byte string bytes bool nil error list map set
	I  int64    `json:"i,omitempty"`
	F  float64  `json:"f,omitempty"`
	S  string   `json:"s,omitempty"`
	B  bool     `json:"b,omitempty"`
	L  []V      `json:"l,omitempty"` // list / set members / map values (with MK keys)
	MK []string `json:"mk,omitempty"`
}

func (v V) String() string {
	switch v.K {
	case "int":
		return fmt.Sprintf("%d", v.I)
	case "float":
		return fmt.Sprintf("float(%v)", v.F)
	case "byte":
		return fmt.Sprintf("byte(%d)", v.I)
	case "string":
		return fmt.Sprintf("%q", v.S)
	case "bytes":
		return fmt.Sprintf("byte_slice(%q)", v.S)
	case "bool":
		return fmt.Sprintf("%t", v.B)
	case "nil":
		return "nil"
	case "error":
		if v.B {
			return fmt.Sprintf("raised-error(%q)", v.S)
		}
		return fmt.Sprintf("error(%q)", v.S)
	case "list", "set":
		parts := make([]string, len(v.L))
		for i, e := range v.L {
			parts[i] = e.String()
		}
		if v.K == "set" {
			return "set{" + strings.Join(parts, ", ") + "}"
		}
		return "[" + strings.Join(parts, ", ") + "]"
	case "map":
		parts := make([]string, len(v.L))
		for i, e := range v.L {
			parts[i] = fmt.Sprintf("%q: %s", v.MK[i], e.String())
		}
		return "{" + strings.Join(parts, ", ") + "}"
	}
	return "?"
}

func (v V) Obj() object.Object {
	switch v.K {
	case "int":
		return object.NewInt(v.I)
	case "float":
		return object.NewFloat(v.F)
	case "byte":
		return object.NewByte(byte(v.I))
	case "string":
		return object.NewString(v.S)
	case "bytes":
		return object.NewByteSlice([]byte(v.S))
	case "bool":
		return object.NewBool(v.B)
	case "nil":
		return object.Nil
	case "error":
		e := object.NewError(errors.New(v.S))
		if !v.B {
			e.WithRaised(false)
		}
		return e
	case "list":
		items := make([]object.Object, len(v.L))
		for i, e := range v.L {
			items[i] = e.Obj()
		}
		return object.NewList(items)
	case "set":
		items := make([]object.Object, len(v.L))
		for i, e := range v.L {
			items[i] = e.Obj()
		}
		return object.NewSet(items)
	case "map":
		m := map[string]object.Object{}
		for i, e := range v.L {
			m[v.MK[i]] = e.Obj()
		}
		return object.NewMap(m)
	}
	panic("bad kind " + v.K)
}

func vi(i int64) V                 { return V{K: "int", I: i} }
func vf(f float64) V               { return V{K: "float", F: f} }
func vb(b byte) V                  { return V{K: "byte", I: int64(b)} }
func vs(s string) V                { return V{K: "string", S: s} }
func vbs(s string) V               { return V{K: "bytes", S: s} }
func vbool(b bool) V               { return V{K: "bool", B: b} }
func vlist(l ...V) V               { return V{K: "list", L: l} }
func vset(l ...V) V                { return V{K: "set", L: l} }
func verr(s string, raised bool) V { return V{K: "error", S: s, B: raised} }
func vmap(kv ...any) V {
	v := V{K: "map"}
	for i := 0; i+1 < len(kv); i += 2 {
		v.MK = append(v.MK, kv[i].(string))
		v.L = append(v.L, kv[i+1].(V))
	}
	return v
}

// orderType returns the type name under which v takes part in the within-type ordering laws,
// or "" when it does not (maps, sets, errors, nil, heterogeneous lists).
func orderType(v V) string {
	switch v.K {
	case "int", "float", "byte", "string", "bool":
		return v.K
	case "list":
		// lists are ordered among lists of the same homogeneous element class
		cls := listClass(v)
		if cls == "" {
			return ""
		}
		return "list<" + cls + ">"
	}
	return ""
}

// listClass: "" = not usable for ordering; "*" = empty list (comparable with every list class).
func listClass(v V) string {
	if len(v.L) == 0 {
		return "*"
	}
	cls := ""
	for _, e := range v.L {
		var c string
		switch e.K {
		case "int", "float", "byte", "string", "bool":
			c = e.K
		case "list":
			lc := listClass(e)
			if lc == "" {
				return ""
			}
			c = "list<" + lc + ">"
		default:
			return ""
		}
		if cls == "" {
			cls = c
		} else if cls != c {
			return ""
		}
	}
	return cls
}

// sameOrderType reports whether a and b fall under one "type" of the ordering laws.
func sameOrderType(a, b V) bool {
	ta, tb := orderType(a), orderType(b)
	if ta == "" || tb == "" {
		return false
	}
	if ta == tb {
		return true
	}
	// a list class containing "*" (an empty list at some level) is compatible only when equal; the
	// element-wise comparison never reaches below a length difference, but keep the rule simple
	// and sound: lists of different length are always comparable whatever their classes.
	if strings.HasPrefix(ta, "list<") && strings.HasPrefix(tb, "list<") && len(a.L) != len(b.L) {
		return true
	}
	return false
}

func isNumeric(v V) bool { return v.K == "int" || v.K == "float" || v.K == "byte" }

// exactNum returns the value as a float64 when it is exactly representable both as int64 and
// float64 semantics would see it (|x| <= 2^53, finite).
func exactNum(v V) (float64, bool) {
	switch v.K {
	case "int", "byte":
		if v.I >= -(1<<53) && v.I <= (1<<53) {
			return float64(v.I), true
		}
	case "float":
		if !math.IsNaN(v.F) && !math.IsInf(v.F, 0) && math.Abs(v.F) <= (1<<53) {
			return v.F, true
		}
	}
	return 0, false
}

// Pool is the fixed boundary-value pool (independent of the seed).
func Pool() []V {
	p := []V{
		vi(0), vi(1), vi(-1), vi(2), vi(3), vi(7), vi(255), vi(256), vi(-255), vi(1 << 31), vi(1<<53 - 1), vi(1 << 53), vi(1<<53 + 1), vi(-(1 << 53)), vi(-(1<<53 + 1)),
		vi(math.MaxInt64), vi(math.MaxInt64 - 1), vi(math.MinInt64), vi(math.MinInt64 + 1),
		vf(0), vf(math.Copysign(0, -1)), vf(1), vf(-1), vf(1.5), vf(0.5), vf(-0.5), vf(2), vf(3), vf(255), vf(255.5), vf(256), vf(1 << 53), vf(1<<53 + 2), vf(-(1 << 53)),
		vf(math.Inf(1)), vf(math.Inf(-1)), vf(math.SmallestNonzeroFloat64), vf(-math.SmallestNonzeroFloat64), vf(math.MaxFloat64), vf(9.223372036854775807e18), vf(-9.223372036854775808e18), vf(0.1), vf(1e-300),
		vb(0), vb(1), vb(2), vb(3), vb(127), vb(128), vb(254), vb(255),
		vs(""), vs("a"), vs("b"), vs("ab"), vs("A"), vs("a "), vs(" a"), vs("0"), vs("1"), vs("é"), vs("é"), vs("日本"), vs("日"), vs("\xff"), vs("\xfe\xff"), vs("a\x00"), vs("\x00"), vs("😀"), vs("z"), vs("nil"), vs("true"),
		vbs(""), vbs("a"), vbs("b"), vbs("ab"), vbs("\xff"), vbs("\x00"), vbs("é"), vbs("1"),
		vbool(true), vbool(false),
		{K: "nil"},
		verr("", true), verr("x", true), verr("x", false), verr("y", true), verr("a", false),
		vlist(), vlist(vi(0)), vlist(vi(1)), vlist(vi(1), vi(2)), vlist(vi(2), vi(1)), vlist(vi(1), vi(2), vi(3)), vlist(vi(3)), vlist(vi(-1), vi(5)),
		vlist(vf(1)), vlist(vf(1.5)), vlist(vf(0.5), vf(2)),
		vlist(vs("a")), vlist(vs("a"), vs("b")), vlist(vs("b")), vlist(vs("")), vlist(vs("b"), vs("a")),
		vlist(vbool(true)), vlist(vbool(false)), vlist(vbool(false), vbool(true)),
		vlist(vlist()), vlist(vlist(vi(1))), vlist(vlist(vi(1)), vlist(vi(2))), vlist(vlist(vi(2))), vlist(vlist(vi(1), vi(2))), vlist(vlist(vlist())),
		vlist(V{K: "nil"}), vlist(vi(1), vs("a")), vlist(vs("a"), vi(1)), vlist(vmap()), vlist(vmap("a", vi(1))), vlist(vset(vi(1))), vlist(vi(1), vf(1)), vlist(vf(1), vi(1)), vlist(vbs("a")), vlist(vs("a"), vbs("a")),
		vmap(), vmap("a", vi(1)), vmap("a", vi(2)), vmap("b", vi(1)), vmap("a", vi(1), "b", vi(2)), vmap("b", vi(2), "a", vi(1)), vmap("a", vf(1)), vmap("a", vlist(vi(1))), vmap("a", vmap("a", vi(1))), vmap("a", V{K: "nil"}), vmap("", vi(0)),
		vset(), vset(vi(1)), vset(vi(2)), vset(vi(1), vi(2)), vset(vi(2), vi(1)), vset(vs("a")), vset(vs("1")), vset(vf(1)), vset(vi(1), vf(1)), vset(vbool(true)), vset(V{K: "nil"}), vset(vb(1)), vset(vi(1), vs("a"), vbool(false)), vset(vbs("a")), vset(vbs("a"), vbs("b")),
	}
	return p
}

// ---------------------------------------------------------------------------------------
// law evaluation

type viol struct {
	Law    string `json:"law"`
	Detail string `json:"detail"`
	Vals   []V    `json:"vals"`
}

type out struct {
	Checks   int64            `json:"checks"`
	ByLaw    map[string]int64 `json:"by_law"`
	Viols    []viol           `json:"viols"`
	Distinct []string         `json:"distinct,omitempty"`
	Samples  []string         `json:"samples,omitempty"`
}

func (o *out) count(law string) {
	o.Checks++
	o.ByLaw[law]++
}

func (o *out) fail(law, detail string, vals ...V) {
	if len(o.Viols) < 50 {
		o.Viols = append(o.Viols, viol{Law: law, Detail: detail, Vals: vals})
	}
}

func eq(a, b object.Object) bool {
	r := a.Equals(b)
	bo, ok := r.(*object.Bool)
	if !ok {
		panic(fmt.Sprintf("Equals returned %T", r))
	}
	return bo.Value()
}

func cmp(a, b object.Object) (int, error) {
	c, ok := a.(object.Comparable)
	if !ok {
		return 0, fmt.Errorf("not comparable: %s", a.Type())
	}
	return c.Compare(b)
}

func sgn(x int) int {
	if x < 0 {
		return -1
	}
	if x > 0 {
		return 1
	}
	return 0
}

func relop(o op.CompareOpType, a, b object.Object) (bool, error) {
	r, err := object.Compare(o, a, b)
	if err != nil {
		return false, err
	}
	bo, ok := r.(*object.Bool)
	if !ok {
		return false, fmt.Errorf("compare returned %T", r)
	}
	return bo.Value(), nil
}

func hashable(v V) bool {
	switch v.K {
	case "int", "float", "byte", "string", "bool", "nil":
		return true
	}
	return false
}

func lenOf(v V) (int, bool) {
	switch v.K {
	case "list", "set", "map":
		if v.K == "set" {
			// distinct by (kind, value)
			return -1, true
		}
		return len(v.L), true
	case "string":
		return len(v.S), true
	}
	return 0, false
}

func checkSingle(o *out, a V) {
	A := a.Obj()
	o.count("eq-reflexive")
	if !eq(A, a.Obj()) || !eq(A, A) {
		o.fail("eq-reflexive", "a == a is false", a)
	}
	if ne, err := relop(op.NotEqual, A, a.Obj()); err != nil || ne {
		o.fail("ne-negation", fmt.Sprintf("a != a gave %v, %v", ne, err), a)
	}
	if orderType(a) != "" {
		o.count("cmp-reflexive")
		if c, err := cmp(A, a.Obj()); err != nil || c != 0 {
			o.fail("cmp-reflexive", fmt.Sprintf("compare(a, a) = %d, %v", c, err), a)
		}
	}
	// truthiness of containers
	switch a.K {
	case "list", "map", "string":
		n, _ := lenOf(a)
		o.count("truthy-len")
		if A.IsTruthy() != (n != 0) {
			o.fail("truthy-len", fmt.Sprintf("truthy=%v but len=%d", A.IsTruthy(), n), a)
		}
		if l, ok := builtins.Len(context.Background(), A).(*object.Int); !ok {
			o.fail("truthy-len", "len() did not return an int", a)
		} else if a.K != "string" && int(l.Value()) != n {
			o.fail("truthy-len", fmt.Sprintf("len()=%d, spec has %d", l.Value(), n), a)
		} else if A.IsTruthy() != (l.Value() != 0) {
			o.fail("truthy-len", fmt.Sprintf("truthy=%v but len()=%d", A.IsTruthy(), l.Value()), a)
		}
	case "set":
		o.count("truthy-len")
		s := A.(*object.Set)
		if A.IsTruthy() != (s.Size() != 0) {
			o.fail("truthy-len", fmt.Sprintf("truthy=%v but size=%d", A.IsTruthy(), s.Size()), a)
		}
	}
}

func checkPair(o *out, a, b V) {
	A, B := a.Obj(), b.Obj()
	ab, ba := eq(A, B), eq(B, A)
	o.count("eq-symmetric")
	if ab != ba {
		o.fail("eq-symmetric", fmt.Sprintf("a==b is %v but b==a is %v", ab, ba), a, b)
	}
	o.count("ne-negation")
	if ne, err := relop(op.NotEqual, A, B); err != nil || ne == ab {
		o.fail("ne-negation", fmt.Sprintf("a==b is %v and a!=b is %v (%v)", ab, ne, err), a, b)
	}
	// ordering within a type
	if sameOrderType(a, b) {
		o.count("order-within-type")
		c1, e1 := cmp(A, B)
		c2, e2 := cmp(B, A)
		if e1 != nil || e2 != nil {
			o.fail("order-total", fmt.Sprintf("compare failed within one type: %v / %v", e1, e2), a, b)
		} else {
			if sgn(c1) != -sgn(c2) {
				o.fail("order-antisymmetric", fmt.Sprintf("compare(a,b)=%d compare(b,a)=%d", c1, c2), a, b)
			}
			if (c1 == 0) != ab {
				o.fail("order-agrees-with-eq", fmt.Sprintf("compare(a,b)=%d but a==b is %v", c1, ab), a, b)
			}
			lt, _ := relop(op.LessThan, A, B)
			le, _ := relop(op.LessThanOrEqual, A, B)
			gt, _ := relop(op.GreaterThan, A, B)
			ge, _ := relop(op.GreaterThanOrEqual, A, B)
			n := 0
			for _, x := range []bool{lt, ab, gt} {
				if x {
					n++
				}
			}
			if n != 1 || le != (lt || ab) || ge != (gt || ab) || lt != (c1 < 0) || gt != (c1 > 0) {
				o.fail("order-operators", fmt.Sprintf("<:%v <=:%v >:%v >=:%v ==:%v compare=%d", lt, le, gt, ge, ab, c1), a, b)
			}
		}
	}
	// across numeric types
	if isNumeric(a) && isNumeric(b) {
		o.count("numeric-cross")
		lt1, e1 := relop(op.LessThan, A, B)
		lt2, e2 := relop(op.LessThan, B, A)
		gt1, e3 := relop(op.GreaterThan, A, B)
		gt2, e4 := relop(op.GreaterThan, B, A)
		if e1 != nil || e2 != nil || e3 != nil || e4 != nil {
			o.fail("numeric-cross", fmt.Sprintf("numeric comparison failed: %v %v %v %v", e1, e2, e3, e4), a, b)
		} else if (lt1 && lt2) || (gt1 && gt2) {
			o.fail("numeric-cross", "both a<b and b<a (or both a>b and b>a)", a, b)
		}
		if x, ok1 := exactNum(a); ok1 {
			if y, ok2 := exactNum(b); ok2 {
				o.count("numeric-exact")
				c, err := cmp(A, B)
				want := 0
				if x < y {
					want = -1
				} else if x > y {
					want = 1
				}
				if err != nil || sgn(c) != want || ab != (want == 0) || lt1 != (want < 0) || gt1 != (want > 0) {
					o.fail("numeric-exact", fmt.Sprintf("exactly representable %v vs %v: compare=%d (%v) ==:%v <:%v >:%v", x, y, c, err, ab, lt1, gt1), a, b)
				}
			}
		}
	}
	// one slot per equal value of one type
	if hashable(a) && hashable(b) && a.K == b.K {
		o.count("set-slot")
		s, ok := object.NewSet([]object.Object{A, B}).(*object.Set)
		if !ok {
			o.fail("set-slot", "set construction failed for hashable values", a, b)
		} else {
			want := 2
			if ab {
				want = 1
			}
			if s.Size() != want {
				o.fail("set-slot", fmt.Sprintf("a==b is %v but set{a,b} has %d members", ab, s.Size()), a, b)
			}
			ha, hb := A.(object.Hashable).HashKey(), B.(object.Hashable).HashKey()
			if ab != (ha == hb) {
				o.fail("set-slot", fmt.Sprintf("a==b is %v but hash keys equal is %v", ab, ha == hb), a, b)
			}
		}
	}
	// membership agrees with iterate-and-compare: b as container, a as needle
	checkMembership(o, a, b)
}

// iterate returns the members that iteration over the container yields for comparison with "in":
// list elements, set members, map keys.
func iterate(c object.Object) ([]object.Object, bool) {
	it, ok := c.(object.Iterable)
	if !ok {
		return nil, false
	}
	iter := it.Iter()
	var res []object.Object
	for i := 0; i < 10000; i++ {
		_, ok := iter.Next(context.Background())
		if !ok {
			break
		}
		e, ok := iter.Entry()
		if !ok {
			break
		}
		switch c.(type) {
		case *object.List:
			res = append(res, e.Value())
		case *object.Set, *object.Map:
			res = append(res, e.Key())
		default:
			res = append(res, e.Value())
		}
	}
	return res, true
}

func checkMembership(o *out, needle, cont V) {
	switch cont.K {
	case "list", "set", "map":
	default:
		return
	}
	C := cont.Obj()
	N := needle.Obj()
	container, ok := C.(object.Container)
	if !ok {
		return
	}
	members, ok := iterate(C)
	if !ok {
		return
	}
	found := false
	sameTypeFound := false
	for _, m := range members {
		if eq(m, N) {
			found = true
			if m.Type() == N.Type() {
				sameTypeFound = true
			}
		}
	}
	got := container.Contains(N).Value()
	law := "in-" + cont.K
	o.count(law)
	if got != found {
		if cont.K == "map" && found && !sameTypeFound && !got {
			// a byte_slice needle that equals a (string) key: map keys are looked up as strings only
			o.fail("in-map-cross-type", fmt.Sprintf("needle equals a key of another type; in=%v iterate-and-compare=%v", got, found), needle, cont)
			return
		}
		if cont.K == "set" && found && !sameTypeFound && !got {
			// an equal member of a *different* numeric type: reported under its own signature
			o.fail("in-set-cross-type", fmt.Sprintf("needle equals a member of another type; in=%v iterate-and-compare=%v", got, found), needle, cont)
			return
		}
		o.fail(law, fmt.Sprintf("in=%v but iterate-and-compare=%v", got, found), needle, cont)
	}
}

func checkTriple(o *out, a, b, c V, A, B, C object.Object) {
	if a.K == b.K && b.K == c.K {
		o.count("eq-transitive")
		if eq(A, B) && eq(B, C) && !eq(A, C) {
			o.fail("eq-transitive", "a==b and b==c but not a==c", a, b, c)
		}
	}
	if sameOrderType(a, b) && sameOrderType(b, c) && sameOrderType(a, c) {
		o.count("order-transitive")
		c1, e1 := cmp(A, B)
		c2, e2 := cmp(B, C)
		c3, e3 := cmp(A, C)
		if e1 != nil || e2 != nil || e3 != nil {
			o.fail("order-total", fmt.Sprintf("compare failed: %v %v %v", e1, e2, e3), a, b, c)
		} else if c1 <= 0 && c2 <= 0 && c3 > 0 {
			o.fail("order-transitive", "a<=b and b<=c but a>c", a, b, c)
		} else if c1 <= 0 && c2 <= 0 && (c1 < 0 || c2 < 0) && c3 == 0 {
			o.fail("order-transitive", "a<b<=c (or a<=b<c) but compare(a,c)==0", a, b, c)
		}
	}
}

// ---------------------------------------------------------------------------------------
// sort laws

func sortable(vs []V) bool {
	if len(vs) == 0 {
		return true
	}
	// mutually comparable: one order type; or all numeric and exactly representable; or numeric with ints
	// beyond 2^53 whose float64 image equals no float in the list (int/float comparison converts the int:
	// rounding is monotone, so the verdict is the mathematical one unless the image coincides with the float)
	allNum := true
	for _, v := range vs {
		if !isNumeric(v) {
			allNum = false
		} else if _, ok := exactNum(v); !ok {
			if v.K == "float" {
				allNum = false
				continue
			}
			for _, w := range vs {
				if w.K == "float" && (w.F == float64(v.I) || math.IsNaN(w.F)) {
					allNum = false
				}
			}
		}
	}
	if allNum {
		return true
	}
	for i := range vs {
		for j := i + 1; j < len(vs); j++ {
			if !sameOrderType(vs[i], vs[j]) {
				return false
			}
		}
	}
	return true
}

func identity(xs []object.Object, orig []object.Object) []int {
	idx := map[object.Object]int{}
	for i, o := range orig {
		idx[o] = i
	}
	res := make([]int, len(xs))
	for i, x := range xs {
		j, ok := idx[x]
		if !ok {
			j = -1
		}
		res[i] = j
	}
	return res
}

func checkSort(o *out, vs []V, via string) {
	objs := make([]object.Object, len(vs))
	for i, v := range vs {
		// fresh, distinct objects so that identity identifies the original position
		switch v.K {
		case "bool", "nil":
			objs[i] = v.Obj()
		default:
			objs[i] = v.Obj()
		}
	}
	// identity only works for non-interned objects; ints in the small-int cache and bools are shared.
	// Use wrapper lists [x, tag]? That would change the order. Instead track stability through
	// positions of *equal-comparing but distinguishable* values: int vs float vs byte of equal value.
	var sorted []object.Object
	switch via {
	case "object.Sort":
		sorted = append([]object.Object{}, objs...)
		if err := object.Sort(sorted); err != nil {
			o.fail("sort-total", "object.Sort failed on mutually comparable input: "+err.Message().Value(), vs...)
			return
		}
	case "builtin":
		r := builtins.Sorted(context.Background(), object.NewList(append([]object.Object{}, objs...)))
		l, ok := r.(*object.List)
		if !ok {
			o.fail("sort-total", "sorted() failed on mutually comparable input: "+r.Inspect(), vs...)
			return
		}
		sorted = l.Value()
		// input must be unchanged
	}
	o.count("sort-" + via)
	if len(sorted) != len(objs) {
		o.fail("sort-permutation", fmt.Sprintf("sorted has %d items, input %d", len(sorted), len(objs)), vs...)
		return
	}
	// permutation by rendering multiset (type+inspect)
	key := func(x object.Object) string { return string(x.Type()) + ":" + x.Inspect() }
	cnt := map[string]int{}
	for _, x := range objs {
		cnt[key(x)]++
	}
	for _, x := range sorted {
		cnt[key(x)]--
	}
	for k, n := range cnt {
		if n != 0 {
			o.fail("sort-permutation", fmt.Sprintf("sorted output is not a permutation of the input (%s off by %d)", k, n), vs...)
			return
		}
	}
	// ordered
	for i := 0; i+1 < len(sorted); i++ {
		c, err := cmp(sorted[i], sorted[i+1])
		if err != nil || c > 0 {
			o.fail("sort-ordered", fmt.Sprintf("position %d: compare=%d err=%v", i, c, err), vs...)
			return
		}
	}
	// stable: among elements comparing equal, original relative order is kept. Checked on the
	// rendering sequence of each tie group (distinguishable members: 1, 1.0, byte(1); "a" vs "a" are
	// indistinguishable and cannot witness instability).
	i := 0
	for i < len(sorted) {
		j := i + 1
		for j < len(sorted) {
			c, _ := cmp(sorted[i], sorted[j])
			if c != 0 {
				break
			}
			j++
		}
		if j-i > 1 {
			var want []string
			for _, x := range objs {
				c, err := cmp(x, sorted[i])
				if err == nil && c == 0 {
					want = append(want, key(x))
				}
			}
			var got []string
			for _, x := range sorted[i:j] {
				got = append(got, key(x))
			}
			if strings.Join(want, "|") != strings.Join(got, "|") {
				o.fail("sort-stable", fmt.Sprintf("tie group order %v, original order %v", got, want), vs...)
				return
			}
		}
		i = j
	}
	// idempotent
	again := append([]object.Object{}, sorted...)
	if err := object.Sort(again); err != nil {
		o.fail("sort-idempotent", "sorting the sorted list failed", vs...)
		return
	}
	for i := range again {
		if key(again[i]) != key(sorted[i]) {
			o.fail("sort-idempotent", fmt.Sprintf("sorting again changed position %d", i), vs...)
			return
		}
	}
}

// ---------------------------------------------------------------------------------------
// random values

func randScalar(r *mon.Rand, kind string) V {
	switch kind {
	case "int":
		switch r.Intn(4) {
		case 0:
			return vi(int64(r.Range(-3, 3)))
		case 1:
			return vi(int64(r.Uint64()))
		case 2:
			return vi(int64(1<<53) + int64(r.Range(-2, 2)))
		default:
			return vi(int64(r.Range(-1000, 1000)))
		}
	case "float":
		switch r.Intn(5) {
		case 0:
			return vf(float64(r.Range(-3, 3)))
		case 1:
			return vf(float64(r.Range(-6, 6)) / 2)
		case 2:
			return vf(math.Float64frombits(r.Uint64()&^(0x7ff<<52) | uint64(r.Range(1000, 1100))<<52))
		case 3:
			return vf(float64(int64(1<<53) + int64(r.Range(-4, 4))))
		default:
			return vf((r.Float64() - 0.5) * 1000)
		}
	case "byte":
		return vb(byte(r.Intn(256)))
	case "string":
		alphabet := []string{"", "a", "b", "ab", "é", "日", "\xff", "z", "0", " "}
		n := r.Intn(3)
		s := ""
		for i := 0; i <= n; i++ {
			s += mon.Pick(r, alphabet)
		}
		return vs(s)
	case "bool":
		return vbool(r.Bool())
	}
	return V{K: "nil"}
}

var scalarKinds = []string{"int", "float", "byte", "string", "bool"}

func randValue(r *mon.Rand, depth int) V {
	k := r.Intn(10)
	if depth <= 0 && k >= 6 {
		k = r.Intn(6)
	}
	switch {
	case k < 5:
		return randScalar(r, scalarKinds[k])
	case k == 5:
		if r.Bool() {
			return V{K: "nil"}
		}
		return verr(mon.Pick(r, []string{"", "x", "y"}), r.Bool())
	case k == 6 || k == 7:
		// homogeneous list most of the time (takes part in ordering), else mixed
		n := r.Intn(4)
		l := make([]V, n)
		if r.Chance(3, 4) {
			kind := mon.Pick(r, scalarKinds)
			nested := depth > 0 && r.Chance(1, 4)
			for i := range l {
				if nested {
					m := r.Intn(3)
					in := make([]V, m)
					for j := range in {
						in[j] = randScalar(r, kind)
					}
					l[i] = vlist(in...)
				} else {
					l[i] = randScalar(r, kind)
				}
			}
		} else {
			for i := range l {
				l[i] = randValue(r, depth-1)
			}
		}
		return vlist(l...)
	case k == 8:
		n := r.Intn(3)
		v := V{K: "map"}
		for i := 0; i < n; i++ {
			key := mon.Pick(r, []string{"a", "b", "c", ""})
			dup := false
			for _, e := range v.MK {
				if e == key {
					dup = true
				}
			}
			if dup {
				continue
			}
			v.MK = append(v.MK, key)
			v.L = append(v.L, randValue(r, depth-1))
		}
		return v
	default:
		n := r.Intn(4)
		l := make([]V, n)
		for i := range l {
			l[i] = randScalar(r, mon.Pick(r, []string{"int", "float", "byte", "string", "bool"}))
		}
		return vset(l...)
	}
}

// ---------------------------------------------------------------------------------------
// script level

func scriptBool(src string, globals map[string]any) (bool, error) {
	res, err := risor.Eval(context.Background(), src, risor.WithGlobals(globals))
	if err != nil {
		return false, err
	}
	b, ok := res.(*object.Bool)
	if !ok {
		return false, fmt.Errorf("script returned %s", res.Type())
	}
	return b.Value(), nil
}

func checkScriptPair(o *out, a, b V) {
	A, B := a.Obj(), b.Obj()
	g := map[string]any{"a": A, "b": B}
	ab := eq(A, B)
	o.count("script-eq")
	if got, err := scriptBool("a == b", g); err != nil || got != ab {
		o.fail("script-eq", fmt.Sprintf("script a==b gave %v (%v), object API %v", got, err, ab), a, b)
	}
	if got, err := scriptBool("a != b", g); err != nil || got == ab {
		o.fail("script-ne", fmt.Sprintf("script a!=b gave %v (%v), a==b is %v", got, err, ab), a, b)
	}
	if sameOrderType(a, b) || (isNumeric(a) && isNumeric(b)) {
		c, cerr := cmp(A, B)
		for _, t := range []struct {
			src  string
			want bool
		}{{"a < b", c < 0}, {"a <= b", c <= 0}, {"a > b", c > 0}, {"a >= b", c >= 0}} {
			o.count("script-order")
			got, err := scriptBool(t.src, g)
			if cerr != nil || err != nil || got != t.want {
				o.fail("script-order", fmt.Sprintf("script %q gave %v (%v), compare=%d (%v)", t.src, got, err, c, cerr), a, b)
			}
		}
	}
	switch b.K {
	case "list", "set", "map":
		C := B.(object.Container)
		want := C.Contains(A).Value()
		o.count("script-in")
		got, err := scriptBool("a in b", g)
		got2, err2 := scriptBool("a not in b", g)
		if err != nil || err2 != nil || got != want || got2 == want {
			o.fail("script-in", fmt.Sprintf("script `a in b`=%v (%v) `a not in b`=%v (%v), Contains=%v", got, err, got2, err2, want), a, b)
		}
		o.count("script-truthy")
		members, _ := iterate(B)
		tr, err := scriptBool("if b { true } else { false }", g)
		if err != nil || tr != (len(members) != 0) {
			o.fail("script-truthy", fmt.Sprintf("container truthy=%v (%v) with %d members", tr, err, len(members)), b)
		}
		ln, err := scriptBool(fmt.Sprintf("len(b) == %d", len(members)), g)
		if err != nil || !ln {
			o.fail("script-truthy", fmt.Sprintf("len(b) != %d members seen by iteration (%v)", len(members), err), b)
		}
	}
}

// ---------------------------------------------------------------------------------------
// worker

type caseData struct {
	Kind string `json:"kind"`
	Lo   int    `json:"lo"`
	Hi   int    `json:"hi"`
	Seed uint64 `json:"seed"`
	N    int    `json:"n"`
	Vals []V    `json:"vals,omitempty"` // replay
}

func worker(kind string, data json.RawMessage) any {
	var c caseData
	if err := json.Unmarshal(data, &c); err != nil {
		panic(err)
	}
	o := &out{ByLaw: map[string]int64{}}
	pool := Pool()
	switch kind {
	case "pairs":
		for i := c.Lo; i < c.Hi && i < len(pool); i++ {
			checkSingle(o, pool[i])
			for j := 0; j < len(pool); j++ {
				checkPair(o, pool[i], pool[j])
			}
		}
	case "triples":
		objs := make([]object.Object, len(pool))
		for i, v := range pool {
			objs[i] = v.Obj()
		}
		for i := c.Lo; i < c.Hi && i < len(pool); i++ {
			for j := range pool {
				for k := range pool {
					checkTriple(o, pool[i], pool[j], pool[k], objs[i], objs[j], objs[k])
				}
			}
		}
	case "random":
		r := mon.NewRand(c.Seed)
		for n := 0; n < c.N; n++ {
			a, b, d := randValue(r, 2), randValue(r, 2), randValue(r, 2)
			if r.Chance(1, 3) {
				// related values are more interesting than independent ones
				b = a
				if r.Bool() && len(b.L) > 0 {
					b.L = append([]V{}, b.L...)
					b.L[r.Intn(len(b.L))] = randValue(r, 1)
				}
			}
			checkSingle(o, a)
			checkPair(o, a, b)
			checkPair(o, b, d)
			checkTriple(o, a, b, d, a.Obj(), b.Obj(), d.Obj())
			if n < 3 {
				o.Samples = append(o.Samples, fmt.Sprintf("(%s, %s, %s)", a, b, d))
			}
		}
	case "sort":
		r := mon.NewRand(c.Seed)
		for n := 0; n < c.N; n++ {
			var vs []V
			ln := r.Intn(51)
			mode := r.Intn(9)
			for i := 0; i < ln; i++ {
				switch mode {
				case 8: // ints beyond 2^53 (distinct ints with one float64 image) among a few small floats and bytes
					switch r.Intn(5) {
					case 0:
						vs = append(vs, vi(int64(1<<53)+int64(r.Range(-3, 3))))
					case 1:
						vs = append(vs, vi(int64(math.MaxInt64)-int64(r.Intn(4))))
					case 2:
						vs = append(vs, vi(-(int64(1)<<62)-int64(r.Intn(3))))
					case 3:
						vs = append(vs, vf([]float64{1.5, -2.5, 0.5, 1e10, -1e300, 3}[r.Intn(6)]))
					default:
						vs = append(vs, vb(byte(r.Intn(4))))
					}
				case 0, 1: // mixed numerics, exactly representable
					switch r.Intn(3) {
					case 0:
						vs = append(vs, vi(int64(r.Range(-4, 4))))
					case 1:
						vs = append(vs, vf(float64(r.Range(-8, 8))/2))
					default:
						vs = append(vs, vb(byte(r.Intn(5))))
					}
				case 2:
					vs = append(vs, randScalar(r, "int"))
				case 3:
					vs = append(vs, randScalar(r, "float"))
				case 4:
					vs = append(vs, randScalar(r, "string"))
				case 5:
					vs = append(vs, randScalar(r, "bool"))
				case 6:
					m := r.Intn(3)
					in := make([]V, m)
					for j := range in {
						in[j] = vi(int64(r.Range(0, 2)))
					}
					vs = append(vs, vlist(in...))
				default:
					vs = append(vs, mon.Pick(r, pool))
				}
			}
			if !sortable(vs) {
				continue
			}
			checkSort(o, vs, "object.Sort")
			checkSort(o, vs, "builtin")
			if n < 2 {
				parts := make([]string, len(vs))
				for i, v := range vs {
					parts[i] = v.String()
				}
				o.Samples = append(o.Samples, "sort["+strings.Join(parts, ", ")+"]")
			}
			o.Distinct = append(o.Distinct, fmt.Sprintf("sort:mode%d:len%d", mode, ln))
		}
	case "script":
		r := mon.NewRand(c.Seed)
		for n := 0; n < c.N; n++ {
			a, b := mon.Pick(r, pool), mon.Pick(r, pool)
			if r.Chance(1, 4) {
				a, b = randValue(r, 2), randValue(r, 2)
			}
			checkScriptPair(o, a, b)
			if n < 2 {
				o.Samples = append(o.Samples, fmt.Sprintf("script(%s, %s)", a, b))
			}
		}
	case "replay":
		for _, v := range c.Vals {
			checkSingle(o, v)
		}
		for _, a := range c.Vals {
			for _, b := range c.Vals {
				checkPair(o, a, b)
				checkScriptPair(o, a, b)
				for _, d := range c.Vals {
					checkTriple(o, a, b, d, a.Obj(), b.Obj(), d.Obj())
				}
			}
		}
		if sortable(c.Vals) {
			checkSort(o, c.Vals, "object.Sort")
			checkSort(o, c.Vals, "builtin")
		}
	}
	return o
}

// ---------------------------------------------------------------------------------------
// driver

func drive(d *mon.Driver, replay string) int {
	d.Rule = "pool of boundary values (ints, floats incl. ±0/±Inf/2^53 edges, bytes, strings incl. multi-byte and invalid UTF-8, bools, nil, errors, nested lists, maps, sets): ALL ordered pairs and ALL ordered triples of pool values are checked against every law (exhaustive over the pool), plus seed-determined random nested values, sort inputs of 0..50 values and script-level samples. distinct_nontrivial = unordered pairs of distinct pool values + distinct (mode,len) classes of sort inputs + laws that were exercised at least once"
	d.Assume = []string{"float NaN is excluded, as the statement says", "within-type ordering laws are checked for lists whose elements are of one scalar class (recursively); heterogeneous lists only take part in the equality laws", "numbers exactly representable in int64 and float64 (|x| <= 2^53) must compare by mathematical value"}
	pool := Pool()
	var cases []mon.Case
	if replay != "" {
		var c caseData
		if err := mon.LoadReplay(replay, &c); err != nil {
			fmt.Println("cannot load replay:", err)
			return 3
		}
		c.Kind = "replay"
		cases = append(cases, mon.NewCase("replay", "replay", c))
	} else {
		step := 8
		for lo := 0; lo < len(pool); lo += step {
			cases = append(cases, mon.NewCase(fmt.Sprintf("pairs-%d", lo), "pairs", caseData{Lo: lo, Hi: lo + step}))
			cases = append(cases, mon.NewCase(fmt.Sprintf("triples-%d", lo), "triples", caseData{Lo: lo, Hi: lo + step}))
		}
		r := d.Rand("cases")
		nr := d.N(32, 128)
		for i := 0; i < nr; i++ {
			cases = append(cases, mon.NewCase(fmt.Sprintf("random-%d", i), "random", caseData{Seed: r.Uint64(), N: d.N(8000, 40000)}))
			cases = append(cases, mon.NewCase(fmt.Sprintf("sort-%d", i), "sort", caseData{Seed: r.Uint64(), N: d.N(1000, 6000)}))
			cases = append(cases, mon.NewCase(fmt.Sprintf("script-%d", i), "script", caseData{Seed: r.Uint64(), N: d.N(400, 2500)}))
		}
	}
	laws := map[string]int64{}
	d.RunPool(cases, mon.PoolOpts{BatchSize: 1, BatchTimeout: 600e9}, func(c mon.Case, res mon.Result) {
		if res.Status != "done" || res.Panic != "" {
			// the object API killed or panicked the worker: that is a violation of C03's kind, but it
			// also means the laws could not be evaluated here
			detail := res.Panic
			if res.Crash != nil {
				detail = res.Crash.Exit + "\n" + res.Crash.StderrTail
			}
			var cd caseData
			_ = json.Unmarshal(c.Data, &cd)
			d.Violation("law-evaluation-crashed:"+c.Kind, detail, cd)
			return
		}
		var o out
		if err := json.Unmarshal(res.Data, &o); err != nil {
			d.Fatal("bad worker output: " + err.Error())
			return
		}
		d.Eval(int(o.Checks))
		for k, v := range o.ByLaw {
			laws[k] += v
			d.Event(k, int(v))
		}
		for _, s := range o.Distinct {
			d.Distinct(s)
		}
		for _, s := range o.Samples {
			d.Sample(s)
		}
		for _, v := range o.Viols {
			sig := v.Law
			if v.Law == "in-map-cross-type" {
				sig = "in-map-cross-type"
			}
			if v.Law == "in-set-cross-type" {
				sig = "in-set-cross-type"
			}
			parts := make([]string, len(v.Vals))
			for i, x := range v.Vals {
				parts[i] = x.String()
			}
			d.Violation(sig, v.Law+": "+v.Detail+"\nvalues: "+strings.Join(parts, " ; "), caseData{Kind: "replay", Vals: v.Vals})
		}
	})
	if replay == "" {
		n := len(pool)
		// unordered pairs of distinct pool values (all enumerated)
		for i := 0; i < n; i++ {
			for j := i + 1; j < n; j++ {
				d.Distinct(fmt.Sprintf("p%d-%d", i, j))
			}
		}
		d.Extra("exhaustive", true)
		d.Extra("pool_size", n)
		d.Extra("ordered_triples", n*n*n)
		keys := make([]string, 0, len(laws))
		for k := range laws {
			keys = append(keys, k)
			d.Distinct("law:" + k)
		}
		sort.Strings(keys)
		d.Sample(fmt.Sprintf("pool[0..9] = %v", pool[:10]))
		return d.Finish(100000, 1000)
	}
	return d.Finish(1, 0)
}
