package props

import "verif/internal/props/c20"

func init() { registrars = append(registrars, c20.Register) }
