// Package c07: runs on a reused VM are independent of earlier runs and their contexts.
//
// Differential history monitor. A history is a set-up invocation followed by 1..6 invocations on ONE
// virtual machine: RunCode(code_i) and Call(fn) on a VM made with vm.NewEmpty ("runcode" session), or
// Run of successively appended source pieces (the REPL protocol of cmd/risor/repl: one compiler, one
// vm.New, Run again and again, SetIP(end) after a failing run) and Call(fn) ("repl" session). Each
// invocation behaves in one of six ways (value, run-time error at call depth d, recovered Go panic,
// operand-stack overflow, frame overflow, cancelled at its k-th tick), has its own fresh context, and may
// be accompanied by cancel(ctx_j) of an EARLIER invocation's context, placed before it or at a chosen
// tick() of it.
//
// Oracle: every invocation is self-contained (its result depends only on its code / arguments and on
// the global x, which the generator tracks), so the reference is the same invocation on a FRESH VM
// (for Call and Run: a fresh session whose set-up gives x the tracked value). Result rendering (type +
// Inspect) and error text must be equal, and the VM must be at rest afterwards exactly like the fresh one
// (frame pointer, operand stack pointer relative to the invocation's start, running flag).
//
// The race between a stale watcher goroutine and the current run is made deterministic: the tick() that
// cancels an old context then polls machine.VerifHalt() for a bounded grace period, so a watcher that
// is going to flip the current run's halt flag has done so before the script continues.
package c07

import (
	"context"
	"encoding/json"
	"errors"
	"fmt"
	"os"
	"path/filepath"
	"runtime"
	"sort"
	"strings"
	"sync/atomic"
	"testing/fstest"
	"time"

	"github.com/risor-io/risor"
	"github.com/risor-io/risor/compiler"
	"github.com/risor-io/risor/importer"
	"github.com/risor-io/risor/object"
	ros "github.com/risor-io/risor/os"
	"github.com/risor-io/risor/parser"
	"github.com/risor-io/risor/vm"

	"verif/internal/mon"
	"verif/internal/props/racelog"
)

const ID = "C07"

func Register() {
	mon.Register(&mon.Prop{ID: ID, Drive: drive})
	mon.RegisterWorker(ID, worker)
}

const (
	grace        = 30 * time.Millisecond // how long tick() waits for a stale watcher to flip the halt flag
	ownHaltWait  = 3 * time.Second       // upper bound on waiting for the invocation's own cancellation to arrive
	setupX       = 5
	watchdogHist = 60 * time.Second
)

// ---------------------------------------------------------------------------------------
// a session = one VM driven through one of the two protocols

type tickPlan struct {
	n         atomic.Int64
	ownK      int64 // cancel own context at this tick (0: never)
	ownCancel context.CancelFunc
	oldTick   int64 // cancel an old context at this tick (0: never)
	oldCancel context.CancelFunc
	flipped   bool // the current run's halt flag was seen set after cancelling the OLD context
	ownSeen   bool
	modBeh    map[string]int // what modbeh(name) returns during this invocation
	skipBeh   int            // the first skipBeh calls of modbeh return 0 (modules pre-loaded by a reference)
	ownMissed bool           // the invocation's own cancellation did not reach the halt flag within ownHaltWait
}

type session struct {
	kind    string // runcode | repl
	cfg     *risor.Config
	machine *vm.VirtualMachine
	comp    *compiler.Compiler // repl
	code    *compiler.Code     // repl: the main code
	plan    *tickPlan          // plan of the invocation in progress
	codes   map[string]*compiler.Code
	// optsOnce: VM options only with the first RunCode; vmOS: the VM gets vm.WithOS(C)
	optsOnce bool
	vmOS     bool
	ran      bool
	oses     map[string]*osBox
	ctxOS    string // the next invocation's context carries this virtual OS ("" = none)
}

// osBox is one tenant's virtual OS: own environment value, own cwd, own stdout buffer
type osBox struct {
	os  *ros.VirtualOS
	out *ros.BufferFile
}

func (s *session) osFor(name string) *osBox {
	if s.oses == nil {
		s.oses = map[string]*osBox{}
	}
	if b := s.oses[name]; b != nil {
		return b
	}
	out := ros.NewBufferFile(nil)
	b := &osBox{out: out, os: ros.NewVirtualOS(context.Background(),
		ros.WithEnvironment(map[string]string{"C07VAR": "env-of-" + name}), ros.WithCwd("/home-"+name), ros.WithStdout(out))}
	s.oses[name] = b
	return b
}

func (s *session) vmOpts() []vm.Option {
	opts := s.cfg.VMOpts()
	if s.vmOS {
		opts = append(opts, vm.WithOS(s.osFor("C").os))
	}
	return opts
}

// printed names the virtual OSes whose stdout received something since mark
func (s *session) outLens() map[string]int {
	m := map[string]int{}
	for n, b := range s.oses {
		m[n] = len(b.out.Bytes())
	}
	return m
}

// One configuration (default globals + tick) per worker process; tick() acts on the session whose
// invocation is in progress (invocations never overlap inside a worker).
var (
	current   *session
	sharedCfg *risor.Config
)

func tickBuiltin(_ context.Context, args ...object.Object) object.Object {
	s := current
	if s == nil || s.plan == nil {
		return object.Nil
	}
	p := s.plan
	n := p.n.Add(1)
	if p.oldTick > 0 && n == p.oldTick && p.oldCancel != nil {
		p.oldCancel()
		// if a watcher left from the earlier run is going to halt THIS run, let it do so now
		deadline := time.Now().Add(grace)
		for time.Now().Before(deadline) {
			if s.machine != nil && s.machine.VerifHalt() {
				p.flipped = true
				break
			}
			time.Sleep(time.Millisecond)
		}
	}
	if p.ownK > 0 && n == p.ownK && p.ownCancel != nil {
		p.ownCancel()
		deadline := time.Now().Add(ownHaltWait)
		for time.Now().Before(deadline) {
			if s.machine != nil && s.machine.VerifHalt() {
				p.ownSeen = true
				break
			}
			time.Sleep(200 * time.Microsecond)
		}
		if !p.ownSeen {
			p.ownMissed = true
		}
	}
	return object.Nil
}

func modbehBuiltin(_ context.Context, args ...object.Object) object.Object {
	s := current
	if s == nil || s.plan == nil || len(args) != 1 {
		return object.NewInt(0)
	}
	p := s.plan
	if p.skipBeh > 0 {
		p.skipBeh--
		return object.NewInt(0)
	}
	name, _ := args[0].(*object.String)
	if name == nil {
		return object.NewInt(0)
	}
	return object.NewInt(int64(p.modBeh[name.Value()]))
}

func newSession(kind string) *session {
	if sharedCfg == nil {
		globals := map[string]any{"tick": object.NewBuiltin("tick", tickBuiltin), "modbeh": object.NewBuiltin("modbeh", modbehBuiltin),
			// host values that scripts rebind / mutate in place (converted anew for every VM and RunCode)
			"hq": 100, "hl": []int{1, 2, 3}, "hm": map[string]any{"n": 1}}
		names := risor.NewConfig(risor.WithGlobals(globals)).GlobalNames()
		files := fstest.MapFS{}
		for name, src := range moduleFiles() {
			files[name] = &fstest.MapFile{Data: []byte(src)}
		}
		// one in-memory importer per process: it only caches compiled code, every import gets a new module object
		im := importer.NewFSImporter(importer.FSImporterOptions{GlobalNames: names, SourceFS: files})
		sharedCfg = risor.NewConfig(risor.WithGlobals(globals), risor.WithImporter(im))
	}
	return &session{kind: kind, codes: map[string]*compiler.Code{}, cfg: sharedCfg}
}

func (s *session) compile(ctx context.Context, src string) (*compiler.Code, error) {
	ast, err := parser.Parse(ctx, src)
	if err != nil {
		return nil, fmt.Errorf("harness: parse: %w", err)
	}
	if s.kind == "repl" {
		if s.comp == nil {
			s.comp, err = compiler.New(s.cfg.CompilerOpts()...)
			if err != nil {
				return nil, fmt.Errorf("harness: compiler: %w", err)
			}
		}
		code, err := s.comp.Compile(ast)
		if err != nil {
			return nil, fmt.Errorf("harness: compile: %w", err)
		}
		return code, nil
	}
	code, err := compiler.Compile(ast, s.cfg.CompilerOpts()...)
	if err != nil {
		return nil, fmt.Errorf("harness: compile: %w", err)
	}
	return code, nil
}

// outcome of one invocation
type outcome struct {
	Value   string `json:"value,omitempty"` // type:inspect, "" when an error was returned
	Err     string `json:"err,omitempty"`
	ErrKind string `json:"err_kind,omitempty"` // "" | canceled | deadline | other
	NilNil  bool   `json:"nil_nil,omitempty"`  // no error and no value object at all
	GetErr  string `json:"get_err,omitempty"`
	FP      int    `json:"fp"`
	SPDelta int    `json:"sp_delta"` // Call: sp after - sp before ; RunCode/Run: sp after
	Running bool   `json:"running,omitempty"`
	IsCall  bool   `json:"is_call,omitempty"`
	Out     string `json:"out,omitempty"` // the virtual OSes whose stdout received output during the invocation
	Flipped bool   `json:"flipped,omitempty"`
	// OwnMissed: the invocation cancelled its own context but the halt flag was not seen set in time
	// (machine overloaded, or cancellation broken altogether, which is C06's subject): not judged
	OwnMissed bool   `json:"own_missed,omitempty"`
	Harness   string `json:"harness,omitempty"`
}

func render(v object.Object) string {
	if v == nil {
		return ""
	}
	return string(v.Type()) + ":" + mon.Truncate(v.Inspect(), 300)
}

func (o *outcome) setErr(ctx context.Context, err error) {
	o.Err = mon.Truncate(err.Error(), 300)
	switch {
	case errors.Is(err, context.Canceled):
		o.ErrKind = "canceled"
	case errors.Is(err, context.DeadlineExceeded):
		o.ErrKind = "deadline"
	default:
		o.ErrKind = "other"
	}
}

// runcodeSource / replPiece build the source of an invocation
func runcodeSource(x int, expr string) string {
	return fmt.Sprintf("x := %d\n", x) + prelude() + expr + "\n"
}

func (s *session) rest(o *outcome, spBefore int, call bool) {
	if s.machine == nil {
		return
	}
	o.FP = s.machine.VerifFP()
	o.SPDelta = s.machine.VerifSP()
	if call {
		o.SPDelta -= spBefore
		o.IsCall = true
	}
	o.Running = s.machine.VerifRunning()
}

// invoke performs one invocation with the given plan; src is the RunCode source / REPL piece (RunCode,
// Run) and fn/args the function (Call).
func (s *session) invoke(ctx context.Context, api string, src string, sameCode bool, fn string, args []int, plan *tickPlan) (o outcome) {
	defer func() {
		if r := recover(); r != nil {
			o.Harness = fmt.Sprintf("Go panic escaped from %s: %v", api, r)
		}
		s.plan = nil
		current = nil
	}()
	s.plan = plan
	current = s
	if s.vmOS {
		s.osFor("C")
	}
	if s.ctxOS != "" {
		ctx = ros.WithOS(ctx, s.osFor(s.ctxOS).os)
		s.ctxOS = ""
	}
	before := s.outLens()
	defer func() {
		var names []string
		for n, b := range s.oses {
			if len(b.out.Bytes()) > before[n] {
				names = append(names, n)
			}
		}
		sort.Strings(names)
		o.Out = strings.Join(names, ",")
	}()
	switch api {
	case "RunCode":
		var code *compiler.Code
		if sameCode {
			code = s.codes[src]
		}
		if code == nil {
			var err error
			code, err = s.compile(ctx, src)
			if err != nil {
				o.Harness = err.Error()
				return
			}
			s.codes[src] = code
		}
		if s.machine == nil {
			m, err := vm.NewEmpty()
			if err != nil {
				o.Harness = err.Error()
				return
			}
			s.machine = m
		}
		var opts []vm.Option
		if !s.optsOnce || !s.ran {
			opts = s.vmOpts()
		}
		s.ran = true
		err := s.machine.RunCode(ctx, code, opts...)
		s.result(ctx, &o, err)
		s.rest(&o, 0, false)
	case "Run":
		code, err := s.compile(ctx, src)
		if err != nil {
			o.Harness = err.Error()
			return
		}
		s.code = code
		if s.machine == nil {
			s.machine = vm.New(code, s.vmOpts()...)
		}
		err = s.machine.Run(ctx)
		if err != nil {
			// the REPL protocol: continue after the last instruction next time
			if e2 := s.machine.SetIP(code.InstructionCount()); e2 != nil {
				o.Harness = "SetIP: " + e2.Error()
			}
		}
		s.result(ctx, &o, err)
		s.rest(&o, 0, false)
	case "Call":
		if s.machine == nil {
			o.Harness = "Call without a VM"
			return
		}
		obj, err := s.machine.Get(fn)
		if err != nil {
			o.GetErr = err.Error()
			return
		}
		f, ok := obj.(*object.Function)
		if !ok {
			o.GetErr = fmt.Sprintf("global %s is a %T", fn, obj)
			return
		}
		oargs := make([]object.Object, len(args))
		for i, a := range args {
			oargs[i] = object.NewInt(int64(a))
		}
		spBefore := s.machine.VerifSP()
		v, err := s.machine.Call(ctx, f, oargs)
		if err != nil {
			o.setErr(ctx, err)
		} else if v == nil {
			o.NilNil = true
		} else {
			o.Value = render(v)
		}
		s.rest(&o, spBefore, true)
	}
	o.Flipped = plan != nil && plan.flipped
	o.OwnMissed = plan != nil && plan.ownMissed
	return
}

func (s *session) result(ctx context.Context, o *outcome, err error) {
	if err != nil {
		o.setErr(ctx, err)
		return
	}
	v, ok := s.machine.TOS()
	if !ok || v == nil {
		// vm.Run / the REPL report Nil in this case
		o.Value = "nil:nil(empty stack)"
		return
	}
	o.Value = render(v)
}

// ---------------------------------------------------------------------------------------
// running a history against the shared VM and against fresh references

type step struct {
	I        int     `json:"i"`
	Inv      inv     `json:"inv"`
	XBefore  int     `json:"x_before"`
	Loaded   string  `json:"loaded,omitempty"`
	Got      outcome `json:"got"`
	Want     outcome `json:"want"`
	Mismatch string  `json:"mismatch,omitempty"` // symptom
}

type hres struct {
	ID        string `json:"id"`
	Steps     []step `json:"steps,omitempty"` // only kept when something mismatched
	Symptom   string `json:"symptom,omitempty"`
	Victim    int    `json:"victim,omitempty"`
	Preceded  string `json:"preceded,omitempty"`
	API       string `json:"api,omitempty"`
	Invs      int    `json:"invs"`
	Flips     int    `json:"flips"`
	Abnormal  int    `json:"abnormal"` // invocations whose reference outcome is an error
	Victims   int    `json:"victims"`  // normal invocations after an abnormal one
	OldEv     int    `json:"old_ev"`
	Harness   string `json:"harness,omitempty"`
	Undecided string `json:"undecided,omitempty"`
	// the first wrong OUTCOME of a later invocation after a rest-state finding
	Follow         string `json:"follow,omitempty"`
	FollowVictim   int    `json:"follow_victim,omitempty"`
	FollowAPI      string `json:"follow_api,omitempty"`
	FollowPreceded string `json:"follow_preceded,omitempty"`
}

func setupSource(kind string, x int) string {
	return fmt.Sprintf("x := %d\n", x) + prelude() + "x\n"
}

// setupLoaded: the set-up of a reference whose VM has the given modules loaded already
func setupLoaded(x int, loaded map[string]bool) string {
	pre, _ := preloadLines(loaded)
	return fmt.Sprintf("x := %d\n", x) + prelude() + pre + "x\n"
}

func modPlan(v *inv, p *tickPlan) {
	if v.Flavor == "mod" && v.FailIn != "" {
		p.modBeh = map[string]int{v.FailIn: v.ModB}
	}
}

// reference: the same invocation on a fresh VM whose global x has the tracked value
func reference(h *history, v *inv, x int, loaded map[string]bool) outcome {
	ref := newSession(h.Session)
	ref.vmOS = h.VMOS
	bg := context.Background()
	fn, args, _ := callOf(v)
	expr := exprOf(v)
	ctx, cancel := context.WithCancel(bg)
	defer cancel()
	plan := &tickPlan{ownCancel: cancel}
	if v.Beh == "cancelled" {
		plan.ownK = int64(v.K)
	}
	modPlan(v, plan)
	switch v.API {
	case "RunCode":
		ref.ctxOS = v.OS
		return ref.invoke(ctx, "RunCode", runcodeSource(v.Inc, expr), false, "", nil, plan)
	case "Run":
		// whole-program semantics: the set-up (with the tracked x), the modules the session has loaded
		// already, and the piece as ONE program
		pre, n := preloadLines(loaded)
		plan.skipBeh = n
		ref.ctxOS = v.OS
		return ref.invoke(ctx, "Run", fmt.Sprintf("x := %d\n", x)+prelude()+pre+replPiece(h, v, x), false, "", nil, plan)
	default: // Call
		api := "RunCode"
		if h.Session == "repl" {
			api = "Run"
		}
		if o := ref.invoke(bg, api, setupLoaded(x, loaded), false, "", nil, nil); o.Err != "" || o.Harness != "" {
			o.Harness = "reference set-up failed: " + o.Err + o.Harness
			return o
		}
		ref.ctxOS = v.OS
		return ref.invoke(ctx, "Call", "", false, fn, args, plan)
	}
}

func compare(got, want *outcome) string {
	if got.Harness != "" || want.Harness != "" {
		return "harness"
	}
	if got.GetErr != want.GetErr {
		return "get-failed"
	}
	if want.Err == "" {
		switch {
		case got.NilNil && !want.NilNil:
			return "nil-error-nil-value"
		case got.Err == "" && got.Value != want.Value:
			if strings.HasPrefix(got.Value, "nil:") {
				return "nil-error-nil-value"
			}
			return "wrong-value"
		case got.Err != "":
			switch {
			case strings.Contains(got.Err, "imports are disabled"):
				return "unexpected-error-imports-disabled"
			case strings.Contains(got.Err, "import cycle detected"):
				return "unexpected-error-import-cycle"
			case strings.Contains(got.Err, "already running"):
				return "unexpected-error-vm-already-running"
			case got.ErrKind == "canceled" || got.ErrKind == "deadline":
				return "unexpected-error-context"
			case strings.HasPrefix(got.Err, "panic:"):
				return "unexpected-error-panic"
			}
			return "unexpected-error-other"
		}
	} else {
		if got.Err == "" {
			return "missing-error"
		}
		if got.Err != want.Err {
			if strings.Contains(got.Err, "import cycle detected") && !strings.Contains(want.Err, "import cycle detected") {
				return "wrong-error-import-cycle"
			}
			return "wrong-error"
		}
	}
	if got.Out != want.Out {
		return "output-went-to-another-os"
	}
	if got.Running {
		return "still-running"
	}
	// absolute rest-state invariants (a leak that a fresh VM shows as well is still a dependence of
	// later invocations on earlier ones): every invocation unwinds all frames, and a Call leaves the
	// operand stack exactly as it found it, whatever its outcome
	if got.FP != 0 {
		return "frames-not-unwound"
	}
	if got.IsCall && got.SPDelta != 0 {
		return "stack-not-restored"
	}
	if got.FP != want.FP {
		return "frames-not-unwound"
	}
	if got.SPDelta != want.SPDelta {
		return "stack-not-restored"
	}
	return ""
}

func behClass(b string) string {
	switch b {
	case "value":
		return "after-normal-run"
	case "error":
		return "after-error"
	case "panic":
		return "after-panic"
	case "sovf":
		return "after-stack-overflow"
	case "fovf":
		return "after-frame-overflow"
	case "cancelled":
		return "after-cancelled-run"
	}
	return "after-" + b
}

func runHistory(h *history) (res hres) {
	res.ID = h.ID
	res.Invs = len(h.Invs)
	bg := context.Background()
	s := newSession(h.Session)
	s.optsOnce, s.vmOS = h.OptsOnce, h.VMOS
	type ctxRec struct {
		cancel context.CancelFunc
	}
	var ctxs []ctxRec
	defer func() {
		for _, c := range ctxs {
			if c.cancel != nil {
				c.cancel()
			}
		}
	}()
	// set-up invocation (index 0)
	ctx0, cancel0 := context.WithCancel(bg)
	ctxs = append(ctxs, ctxRec{cancel0})
	api0 := "RunCode"
	if h.Session == "repl" {
		api0 = "Run"
	}
	s.ctxOS = h.SetupOS
	o0 := s.invoke(ctx0, api0, setupSource(h.Session, setupX), false, "", nil, nil)
	if o0.Harness != "" {
		res.Harness = "set-up failed: " + o0.Harness
		return
	}
	// the set-up is the first run on a new VM; what it must give is known by construction
	want0 := outcome{Value: fmt.Sprintf("int:%d", setupX)}
	if m := compare(&o0, &want0); m != "" {
		res.Symptom, res.Victim, res.API, res.Preceded = m, 0, api0, "first-run"
		res.Steps = []step{{I: 0, Inv: inv{API: api0, Beh: "value", Flavor: "set-up"}, XBefore: setupX, Got: o0, Want: want0, Mismatch: m}}
		return
	}
	x := setupX
	loaded := map[string]bool{}
	prevBeh := "value"
	sawAbnormal := false
	var steps []step
	for i := range h.Invs {
		v := &h.Invs[i]
		st := step{I: i + 1, Inv: *v, XBefore: x}
		fn, args, _ := callOf(v)
		expr := exprOf(v)
		// the invocation's own context
		var ctx context.Context
		var cancel context.CancelFunc
		if v.Background {
			ctx, cancel = bg, nil
		} else {
			ctx, cancel = context.WithCancel(bg)
		}
		plan := &tickPlan{ownCancel: cancel}
		if v.Beh == "cancelled" {
			plan.ownK = int64(v.K)
		}
		if v.OldWhen != "" && v.OldJ < len(ctxs) && ctxs[v.OldJ].cancel != nil {
			res.OldEv++
			if v.OldWhen == "before" {
				ctxs[v.OldJ].cancel()
				runtime.Gosched()
			} else {
				plan.oldTick = int64(v.OldTick)
				plan.oldCancel = ctxs[v.OldJ].cancel
			}
		}
		ctxs = append(ctxs, ctxRec{cancel})
		// reference first (it needs x as it is before the invocation)
		modPlan(v, plan)
		if v.API != "RunCode" {
			pre, _ := preloadLines(loaded)
			st.Loaded = strings.ReplaceAll(strings.TrimSpace(strings.ReplaceAll(pre, "import ", "")), "\n", ",")
		}
		st.Want = reference(h, v, x, loaded)
		loaded = loadedAfter(v, loaded)
		s.ctxOS = v.OS
		switch v.API {
		case "RunCode":
			st.Got = s.invoke(ctx, "RunCode", runcodeSource(v.Inc, expr), v.SameCode, "", nil, plan)
			x = v.Inc
		case "Run":
			st.Got = s.invoke(ctx, "Run", replPiece(h, v, x), false, "", nil, plan)
			x += v.Inc
		case "Call":
			st.Got = s.invoke(ctx, "Call", "", false, fn, args, plan)
		}
		if v.Beh == "value" && v.Flavor == "inc" {
			x++
		}
		if st.Got.Flipped {
			res.Flips++
		}
		if st.Want.Err != "" {
			res.Abnormal++
			sawAbnormal = true
		} else if sawAbnormal {
			res.Victims++
		}
		if st.Got.OwnMissed || st.Want.OwnMissed {
			res.Undecided = "the invocation's own cancellation did not reach the halt flag within " + ownHaltWait.String()
			break
		}
		st.Mismatch = compare(&st.Got, &st.Want)
		if st.Mismatch == "wrong-value" && v.Flavor == "os" {
			st.Mismatch = "wrong-value-os-of-another-invocation"
		}
		if st.Mismatch == "wrong-value" && v.Flavor == "hostmut" {
			st.Mismatch = "wrong-value-host-globals-not-reset"
		}
		if st.Mismatch == "unexpected-error-other" && v.Flavor == "hostmut" {
			st.Mismatch = "unexpected-error-host-globals-not-reset"
		}
		steps = append(steps, st)
		if st.Mismatch != "" {
			preceded := behClass(prevBeh)
			switch {
			case v.OldWhen == "during" && plan.oldCancel != nil:
				preceded = "old-context-cancelled-during-run"
			case v.OldWhen == "before":
				preceded = "old-context-cancelled-before-run"
			}
			restOnly := st.Mismatch == "frames-not-unwound" || st.Mismatch == "stack-not-restored" || st.Mismatch == "still-running"
			if res.Symptom == "" {
				res.Symptom, res.Victim, res.API, res.Preceded = st.Mismatch, i+1, v.API, preceded
				if st.Mismatch == "harness" {
					res.Harness = st.Got.Harness + " / " + st.Want.Harness
				}
				if !restOnly {
					// the state of the VM is now unknown; what follows would only repeat the finding
					break
				}
				// the invocation's result was right but the VM was not left at rest: go on, to see
				// what this does to the invocations that follow
			} else if !restOnly {
				res.Follow, res.FollowVictim, res.FollowAPI, res.FollowPreceded = st.Mismatch, i+1, v.API, preceded
				break
			}
		}
		prevBeh = v.Beh
	}
	if res.Symptom != "" {
		res.Steps = steps
	}
	return
}

// ---------------------------------------------------------------------------------------
// worker

type chunk struct {
	Hist []history `json:"hist"`
}

type chunkRes struct {
	Res []hres `json:"res"`
}

func worker(kind string, data json.RawMessage) any {
	var c chunk
	if err := json.Unmarshal(data, &c); err != nil {
		return chunkRes{Res: []hres{{Harness: "bad case: " + err.Error()}}}
	}
	// what the real OS says when no virtual OS is configured anywhere (only ever read)
	_ = os.Setenv("C07VAR", "env-of-the-worker-process")
	var out chunkRes
	for i := range c.Hist {
		h := &c.Hist[i]
		done := make(chan hres, 1)
		go func() {
			defer func() {
				if r := recover(); r != nil {
					done <- hres{ID: h.ID, Harness: fmt.Sprintf("harness panic: %v", r)}
				}
			}()
			done <- runHistory(h)
		}()
		select {
		case r := <-done:
			out.Res = append(out.Res, r)
		case <-time.After(watchdogHist):
			out.Res = append(out.Res, hres{ID: h.ID, Symptom: "no-return", Harness: "watchdog"})
			return out // the stuck goroutine may keep a processor busy: leave the rest to a new process
		}
	}
	return out
}

// ---------------------------------------------------------------------------------------
// driver

func describe(h *history, r *hres) string {
	var b strings.Builder
	fmt.Fprintf(&b, "session %s %s (set-up: x := %d + prelude, run with its own context ctx0)\n", h.Session, h.XStyle, setupX)
	fmt.Fprintf(&b, "VM options only with the first RunCode: %v; VM created with vm.WithOS(C): %v; virtual OS carried by the set-up's context: %q\n", h.OptsOnce, h.VMOS, h.SetupOS)
	for _, st := range r.Steps {
		v := st.Inv
		fmt.Fprintf(&b, "#%d %s %s/%s", st.I, v.API, v.Beh, v.Flavor)
		if v.Flavor == "mod" {
			what := "every module body behaves"
			if v.FailIn != "" {
				what = fmt.Sprintf("the body of module %s gets behaviour code %d from modbeh()", v.FailIn, v.ModB)
			}
			fmt.Fprintf(&b, " [imports module %s (%s); %s; modules loaded in the VM before, by the model: %s]", v.Mod, v.Where, what, st.Loaded)
		}
		if v.API == "Call" {
			fn, args, _ := callOf(&v)
			fmt.Fprintf(&b, " %s%v", fn, args)
		} else {
			fmt.Fprintf(&b, " `%s`", mon.Truncate(strings.ReplaceAll(exprOf(&v), "\n", "; "), 80))
			if v.API == "RunCode" {
				fmt.Fprintf(&b, " (x := %d, same code object: %v)", v.Inc, v.SameCode)
			} else {
				if h.XStyle == "fn" {
					fmt.Fprintf(&b, " (after fset(%d))", st.XBefore+v.Inc)
				} else {
					fmt.Fprintf(&b, " (after x = x + %d)", v.Inc)
				}
			}
		}
		if v.Beh == "cancelled" {
			fmt.Fprintf(&b, " own context cancelled at its tick %d", v.K)
		}
		if v.OS != "" {
			fmt.Fprintf(&b, " context carries virtual OS %s", v.OS)
		}
		if v.Background {
			b.WriteString(" context.Background()")
		}
		if v.OldWhen == "before" {
			fmt.Fprintf(&b, "; cancel(ctx%d) just before it", v.OldJ)
		}
		if v.OldWhen == "during" {
			fmt.Fprintf(&b, "; cancel(ctx%d) at its tick %d (halt flag of the current run seen set afterwards: %v)", v.OldJ, v.OldTick, st.Got.Flipped)
		}
		fmt.Fprintf(&b, "\n     x before = %d\n     on the reused VM: %s\n     on a fresh VM   : %s\n", st.XBefore, outStr(&st.Got), outStr(&st.Want))
		if st.Mismatch != "" {
			fmt.Fprintf(&b, "     => %s\n", st.Mismatch)
		}
	}
	return b.String()
}

func outStr(o *outcome) string {
	var s string
	switch {
	case o.Harness != "":
		s = "HARNESS: " + o.Harness
	case o.GetErr != "":
		s = "vm.Get failed: " + o.GetErr
	case o.NilNil:
		s = "(nil, nil)"
	case o.Err != "":
		s = "error " + fmt.Sprintf("%q", o.Err)
	default:
		s = "value " + o.Value
	}
	return fmt.Sprintf("%s  [fp=%d sp%+d running=%v stdout-of=%q]", s, o.FP, o.SPDelta, o.Running, o.Out)
}

func drive(d *mon.Driver, replay string) int {
	d.Rule = "a history (session kind, then per invocation: api, behaviour, flavour, depth, instants, same-code / background flags, event on an earlier context) is non-trivial when it contains >= 1 abnormal invocation (error, recovered panic, stack or frame overflow, cancellation) followed by >= 1 normal one; distinct = distinct such histories"
	d.Assume = []string{
		"Run (REPL protocol) and RunCode are not mixed on one VM: what Run should resume after a RunCode replaced the VM's code is not defined by the statement; Call is mixed with both",
		"Call uses a function of the VM's current code, obtained with vm.Get immediately before the call",
		"an invocation's own cancellation is made deterministic by waiting inside tick() until the VM's halt flag is set (at most " + ownHaltWait.String() + ")",
		fmt.Sprintf("after cancelling an OLD context during a later run, tick() polls VerifHalt() for %v; a stale watcher that needs longer than that to run is not observed", grace),
		"error texts are compared literally (the same code runs on both VMs)",
	}
	if replay != "" {
		var h history
		if err := mon.LoadReplay(replay, &h); err != nil {
			fmt.Println("cannot load replay:", err)
			return 3
		}
		if h.Session == "" {
			// the witness of a race report (or of a dead worker) is the workload as a whole
			return drive(d, "")
		}
		h.ID = "replay"
		judgeAll(d, []history{h}, mon.PoolOpts{BatchSize: 1, NoRetry: true}, 1, "")
		return d.Finish(1, 0)
	}
	r := d.Rand("histories")
	hs := exhaustive(r.Split("exhaustive"), 3, d.N(1, 8))
	nEx := len(hs)
	hs = append(hs, sampled(r.Split("sampled"), d.N(500, 40000))...)
	for i := range hs {
		hs[i].ID = fmt.Sprintf("h%06d", i)
	}
	d.Extra("exhaustive", true)
	d.Extra("exhaustive_histories_len_le_3", nEx)
	d.Extra("sampled_histories_len_4_to_6", len(hs)-nEx)
	judgeAll(d, hs, mon.PoolOpts{BatchTimeout: 20 * time.Minute}, d.N(40, 200), "")

	// the quick list once more under the race detector
	if rb := os.Getenv("VERIF_RACE_BIN"); rb != "" {
		if _, err := os.Stat(rb); err == nil {
			sub := hs
			if d.Thorough() {
				sub = hs[:len(hs)/8]
			}
			var every []history
			step := d.N(6, 1)
			for i := 0; i < len(sub); i += step {
				every = append(every, sub[i])
			}
			judgeAll(d, every, mon.PoolOpts{Binary: rb, BatchTimeout: 30 * time.Minute,
				Env: []string{"GORACE=halt_on_error=0 log_path=race"}}, d.N(40, 200), "race")
		} else {
			d.Event("race-binary-missing", 1)
		}
	} else {
		d.Event("race-binary-missing", 1)
	}
	return d.Finish(d.N(3000, 80000), d.N(1500, 30000))
}

func judgeAll(d *mon.Driver, hs []history, o mon.PoolOpts, per int, pass string) {
	byID := map[string]*history{}
	var cases []mon.Case
	for i := 0; i < len(hs); i += per {
		j := min(i+per, len(hs))
		for k := i; k < j; k++ {
			byID[hs[k].ID] = &hs[k]
		}
		cases = append(cases, mon.NewCase(fmt.Sprintf("%schunk-%06d", pass, i), "chunk", chunk{Hist: hs[i:j]}))
	}
	if o.BatchSize == 0 {
		o.BatchSize = 1
	}
	raceSeen := map[string]int{}
	if pass == "race" {
		o.AfterBatch = func(dir string, _ []mon.Case) {
			files, _ := filepath.Glob(filepath.Join(dir, "race.*"))
			for _, f := range files {
				b, err := os.ReadFile(f)
				if err != nil {
					continue
				}
				for _, rep := range racelog.Parse(string(b)) {
					d.Event("race-reports", 1)
					if rep.Sig == "" {
						d.Event("race-reports-without-risor-frame", 1)
						continue
					}
					raceSeen[rep.Sig]++
					if raceSeen[rep.Sig] == 1 {
						d.Violation(rep.Sig, "the race detector reported, while histories ran on one VM:\n"+mon.Truncate(rep.Text, 3500), map[string]any{"race": rep.Sig})
					}
				}
			}
		}
	}
	sampleN := 0
	sigCount := map[string]int{}
	defer func() {
		if len(sigCount) > 0 {
			d.Extra("violation_signatures_"+pass+"pass", sigCount)
		}
	}()
	d.RunPool(cases, o, func(mc mon.Case, res mon.Result) {
		if res.Status != "done" || res.Panic != "" {
			var ck chunk
			_ = json.Unmarshal(mc.Data, &ck)
			txt := res.Status + ": " + res.Panic
			if res.Crash != nil {
				txt = res.Status + ": " + res.Crash.Exit + " " + res.Crash.FatalLine + "\n" + res.Crash.StderrTail
			}
			if res.Status == "timeout" {
				d.Inconclusive("worker watchdog in " + mc.ID)
				return
			}
			var first any
			if len(ck.Hist) > 0 {
				first = ck.Hist[0]
			}
			d.Violation("crash:worker-died-in-history-chunk", "the worker process died while running a chunk of histories\n"+txt, first)
			return
		}
		var cr chunkRes
		if err := json.Unmarshal(res.Data, &cr); err != nil {
			d.Fatal("bad worker output")
			return
		}
		for i := range cr.Res {
			r := &cr.Res[i]
			h := byID[r.ID]
			if h == nil {
				continue
			}
			d.Eval(1)
			if pass == "race" {
				d.Event("histories-under-race-detector", 1)
			}
			d.Event("invocations", r.Invs)
			d.Event("abnormal-invocations", r.Abnormal)
			d.Event("normal-after-abnormal", r.Victims)
			d.Event("old-context-cancel-events", r.OldEv)
			if r.Flips > 0 {
				d.Event("halt-flag-flipped-by-old-context", r.Flips)
			}
			if r.Undecided != "" {
				d.Inconclusive(r.Undecided + ": " + h.key())
				continue
			}
			if r.Symptom == "no-return" {
				d.Inconclusive("history did not finish within the watchdog: " + h.key())
				continue
			}
			if r.Harness != "" && r.Symptom == "" || r.Symptom == "harness" {
				d.Violation("harness-problem", r.Harness+"\n"+describe(h, r), h)
				continue
			}
			if h.nontrivial() && r.Victims > 0 {
				d.Distinct(h.key())
			}
			if r.Symptom == "" {
				if sampleN%977 == 0 && h.nontrivial() {
					d.Sample(map[string]any{"history": h.key(), "invocations": r.Invs, "all_equal_to_fresh_vm": true})
				}
				sampleN++
				continue
			}
			sig := fmt.Sprintf("history:%s:%s:%s", r.API, r.Preceded, r.Symptom)
			// the minimal witness: the history up to the victim
			hh := *h
			hh.Invs = hh.Invs[:r.Victim]
			sigCount[sig]++
			if dbg := os.Getenv("VERIF_C07_DEBUG_SIG"); dbg != "" && strings.Contains(sig, dbg) && sigCount[sig] <= 2 {
				fmt.Printf("DEBUG %s\n%s\n", sig, describe(h, r))
			}
			d.Violation(sig, describe(h, r), hh)
			if r.Follow != "" {
				sig2 := fmt.Sprintf("history:%s:%s:%s", r.FollowAPI, r.FollowPreceded, r.Follow)
				h2 := *h
				h2.Invs = h2.Invs[:r.FollowVictim]
				sigCount[sig2]++
				d.Violation(sig2, describe(h, r), h2)
			}
		}
	})
	if pass == "race" {
		keys := make([]string, 0, len(raceSeen))
		for k := range raceSeen {
			keys = append(keys, k)
		}
		sort.Strings(keys)
		d.Extra("race_signatures", keys)
	}
}
