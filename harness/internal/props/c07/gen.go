package c07

import (
	"fmt"
	"strings"

	"verif/internal/mon"
)

// ---------------------------------------------------------------------------------------
// histories

// An invocation of one history. Every invocation is self-contained: what it returns depends only on
// its own code / arguments and on the global x, whose value the generator tracks (x is changed only
// by statements that cannot fail and that come before anything that can).
type inv struct {
	API    string `json:"api"`           // RunCode | Call | Run
	Beh    string `json:"beh"`           // value | error | panic | sovf | fovf | cancelled
	Flavor string `json:"flavor"`        // see behaviours below
	D      int    `json:"d,omitempty"`   // call depth of the failure
	A      int    `json:"a,omitempty"`   // argument
	K      int    `json:"k,omitempty"`   // cancelled: the k-th tick of the invocation cancels its own context
	Inc    int    `json:"inc,omitempty"` // RunCode: x := Inc ; Run: x = x + Inc
	// flavour "mod": the behaviour happens while the top-level code of a module is being evaluated by
	// an import. Mod is the module the invocation imports (ma, mb = imports ma, mc), FailIn the module
	// whose body misbehaves (mb may import a failing ma, or fail itself after ma was imported), ModB the
	// behaviour code the host builtin modbeh() hands to that body, Where whether the import statement is
	// at top level of the code / piece or inside a function.
	Mod    string `json:"mod,omitempty"`
	FailIn string `json:"fail_in,omitempty"`
	ModB   int    `json:"mod_b,omitempty"`
	Where  string `json:"where,omitempty"` // top | fn
	// OS: the invocation's context carries its own virtual OS ("A" or "B": own environment, own cwd,
	// own stdout buffer); "" = a plain context
	OS string `json:"os,omitempty"`
	// Quiet (flavour "os"): no OS is configured anywhere, so the real one is in effect: only read
	Quiet bool `json:"quiet,omitempty"`

	forceHostmut bool // generator only: an earlier RunCode of the history has flavour hostmut
	// SameCode: RunCode passes the very same *compiler.Code object as the last RunCode with identical source
	SameCode bool `json:"same_code,omitempty"`
	// Background: the invocation gets context.Background() (no Done channel, hence no watcher)
	Background bool `json:"background,omitempty"`
	// an event concerning an EARLIER invocation's context
	OldJ    int    `json:"old_j,omitempty"`    // index (0 = the set-up invocation) of the context to cancel
	OldWhen string `json:"old_when,omitempty"` // "" | before | during
	OldTick int    `json:"old_tick,omitempty"` // during: at which tick of this invocation
}

type history struct {
	ID      string `json:"id"`
	Session string `json:"session"` // runcode | repl
	// XStyle (repl sessions): how a Run piece updates the global x before its behaviour: "top" by the
	// top-level statement `x = x + inc`, "fn" through the function fset defined by the set-up
	XStyle string `json:"xstyle,omitempty"`
	// OptsOnce (runcode sessions): the VM options (globals, importer) are passed with the set-up RunCode
	// only; the later RunCode calls get the code object and nothing else
	OptsOnce bool `json:"opts_once,omitempty"`
	// VMOS: the VM is created with vm.WithOS(C); SetupOS: the set-up invocation's context carries that OS
	VMOS    bool   `json:"vm_os,omitempty"`
	SetupOS string `json:"setup_os,omitempty"`
	Invs    []inv  `json:"invs"`
}

func (h *history) key() string {
	var b strings.Builder
	b.WriteString(h.Session)
	if h.XStyle != "" {
		b.WriteString("(" + h.XStyle + ")")
	}
	if h.OptsOnce {
		b.WriteString("(opts-once)")
	}
	if h.VMOS {
		b.WriteString("(vm-os)")
	}
	if h.SetupOS != "" {
		b.WriteString("(setup-os-" + h.SetupOS + ")")
	}
	for _, v := range h.Invs {
		fmt.Fprintf(&b, "/%s.%s.%s", v.API, v.Beh, v.Flavor)
		if v.Flavor == "mod" {
			fmt.Fprintf(&b, ".%s-%s-fail-in-%s-b%d", v.Where, v.Mod, v.FailIn, v.ModB)
		}
		if v.D > 0 {
			fmt.Fprintf(&b, ".d%d", v.D)
		}
		if v.K > 0 {
			fmt.Fprintf(&b, ".k%d", v.K)
		}
		if v.SameCode {
			b.WriteString(".same")
		}
		if v.OS != "" {
			b.WriteString(".os" + v.OS)
		}
		if v.Background {
			b.WriteString(".bg")
		}
		if v.OldWhen != "" {
			fmt.Fprintf(&b, ".old-%s-%d", v.OldWhen, v.OldJ)
		}
	}
	return b.String()
}

// nontrivial: at least one abnormal invocation followed by at least one normal one
func (h *history) nontrivial() bool {
	abnormal := false
	for _, v := range h.Invs {
		if v.Beh != "value" {
			abnormal = true
		} else if abnormal {
			return true
		}
	}
	return false
}

var behaviours = []string{"value", "error", "panic", "sovf", "fovf", "cancelled"}

var flavours = map[string][]string{
	// "mod": the behaviour happens in a module body during an import; "hostmut": the code rebinds /
	// mutates host-provided globals; "os": the result depends on the OS in effect for the invocation
	"value": {"plain", "tick", "tick", "inc", "try", "import", "callback", "mod", "mod", "mod", "hostmut", "hostmut", "hostmut", "os", "os", "os"},
	"error": {"index", "mid", "loop", "switch", "raise", "top", "under-defers", "mod"},
	"panic": {"div", "modulo", "closure", "div-under-defers", "callback-under-defers", "defer-fails-during-panic", "mod", "mod", "mod"},
	"sovf":  {"fn", "top", "mod"},
	// frame overflow: plain runaway recursion, and recursion whose every level has a pending script-level
	// defer (of a function / of a closure), so that the overflow panic unwinds through the deferred calls;
	// "defer-self": the deferred call itself recurses during the unwind
	"fovf":      {"rec", "defer-fn", "defer-closure", "defer-fn", "defer-closure", "defer-self", "mod", "mod", "mod"},
	"cancelled": {"tick", "tick", "mod", "hostmut"},
}

const bigList = 1100 // more literal elements than the operand stack has slots

// prelude: the functions every code / REPL session defines
func prelude() string {
	big := "[" + strings.Repeat("1, ", bigList-1) + "1]"
	return `func fval(a) { return a * 2 + x }
func ftick(n) {
	s := 0
	for i := 0; i < n; i++ {
		tick()
		s = s + i
	}
	return s + x
}
func finc() {
	x = x + 1
	return x
}
func fset(v) {
	x = v
	return v
}
func ferr(d) {
	if d == 0 { return 1 + [0][5] }
	return ferr(d - 1) + 1
}
func fmid(d) { return [1, 2, ferr(d)] }
func floop(d) {
	for i, v := range [1, 2, 3] { ferr(d) }
	return 0
}
func fswitch(d) {
	switch d {
	case d:
		return ferr(d)
	}
	return 0
}
func fraise(d) {
	if d == 0 { error("boom %d", x) }
	return fraise(d - 1) + 1
}
func ftry(a) { return try(func() { return ferr(2) }, a) + x }
func fcallback(a) { return [1, 2, 3].map(func(v) { return v * a + x }) }
func fdiv(a) { return 10 / a }
func fmod(a) { return 10 % a }
func fclos(a) { return func(b) { return func(c) { return a + b + c } } }
func fclos3(a) { return fclos(a)(2)(3) }
func frec(n) { return frec(n + 1) + 1 }
func noop() { return 0 }
func fos(a) {
	print("c07-mark")
	return os.getenv("C07VAR") + "|" + os.getwd() + "|" + string(a + x)
}
func fosq(a) { return os.getenv("C07VAR") + "|" + string(a + x) }
func fimpa(a) {
	import ma
	return ma.val + a + x
}
func fimpb(a) {
	import mb
	return mb.bv + mb.get(1) + a + x
}
func fimpc(a) {
	import mc
	return mc.cv + a + x
}
func fdrec(n) {
	defer noop()
	return fdrec(n + 1) + 1
}
func fdcrec(n) {
	defer func() { return n }()
	return fdcrec(n + 1) + 1
}
func fdself(n) {
	defer fdself(n + 1)
	return n
}
func fddiv(n) {
	defer noop()
	if n == 0 { return 10 / n }
	return fddiv(n - 1) + 1
}
func fdcb(n) {
	defer func() { return n }()
	if n == 0 { return [1, 2].map(func(v) { return v / n }) }
	return fdcb(n - 1)
}
func fdfail(n) {
	defer func() { return [0][5] }()
	if n == 0 { return 10 / n }
	return fdfail(n - 1) + 1
}
func fderr(n) {
	defer noop()
	if n == 0 { return 1 + [0][5] }
	return fderr(n - 1) + 1
}
func fsovf(a) { return len(` + big + `) + a }
`
}

// callOf returns the function name and the int arguments that realise the invocation's behaviour as a
// call; top reports that the behaviour is written inline at top level instead (RunCode / Run only).
func callOf(v *inv) (fn string, args []int, inline string) {
	if v.Flavor == "mod" {
		if v.Where == "top" && v.API != "Call" {
			switch v.Mod {
			case "mb":
				return "", nil, fmt.Sprintf("import mb\nmb.bv + mb.get(1) + %d + x", v.A)
			case "mc":
				return "", nil, fmt.Sprintf("import mc\nmc.cv + %d + x", v.A)
			}
			return "", nil, fmt.Sprintf("import ma\nma.val + %d + x", v.A)
		}
		return "fimp" + v.Mod[1:], []int{v.A}, ""
	}
	if v.Flavor == "hostmut" && v.API == "RunCode" {
		// the code rebinds a host-provided int, mutates a host-provided list and map in place; every
		// RunCode starts from the host's values (100, [1, 2, 3], {"n": 1})
		return "", nil, fmt.Sprintf("hq = hq - 60\nif hq < 0 { error(\"quota exceeded\") }\nhl.append(hq)\nhm[\"n\"] = hm[\"n\"] + 1\n[hq, hl, hm[\"n\"], ftick(%d)]", v.A)
	}
	if v.Flavor == "os" {
		if v.Quiet {
			return "fosq", []int{v.A}, ""
		}
		return "fos", []int{v.A}, ""
	}
	switch v.Beh {
	case "value":
		switch v.Flavor {
		case "tick":
			return "ftick", []int{v.A}, ""
		case "inc":
			return "finc", nil, ""
		case "try":
			return "ftry", []int{v.A}, ""
		case "callback":
			return "fcallback", []int{v.A}, ""
		case "import":
			if v.API != "Call" {
				return "", nil, fmt.Sprintf("import math\nmath.abs(-%d) + x", v.A)
			}
		}
		return "fval", []int{v.A}, ""
	case "error":
		switch v.Flavor {
		case "mid":
			return "fmid", []int{v.D}, ""
		case "loop":
			return "floop", []int{v.D}, ""
		case "switch":
			return "fswitch", []int{v.D}, ""
		case "raise":
			return "fraise", []int{v.D}, ""
		case "top":
			if v.API != "Call" {
				return "", nil, "[1, 2 + [0][5], 3]"
			}
		case "under-defers":
			return "fderr", []int{v.D}, ""
		}
		return "ferr", []int{v.D}, ""
	case "panic":
		switch v.Flavor {
		case "modulo":
			return "fmod", []int{0}, ""
		case "closure":
			return "fclos3", []int{1}, ""
		case "div-under-defers":
			return "fddiv", []int{v.A % 7}, ""
		case "callback-under-defers":
			return "fdcb", []int{v.A % 7}, ""
		case "defer-fails-during-panic":
			return "fdfail", []int{v.A % 7}, ""
		}
		return "fdiv", []int{0}, ""
	case "sovf":
		if v.Flavor == "top" && v.API != "Call" {
			return "", nil, "len([" + strings.Repeat("1, ", bigList-1) + "1])"
		}
		return "fsovf", []int{v.A}, ""
	case "fovf":
		switch v.Flavor {
		case "defer-fn":
			return "fdrec", []int{0}, ""
		case "defer-closure":
			return "fdcrec", []int{0}, ""
		case "defer-self":
			return "fdself", []int{0}, ""
		}
		return "frec", []int{0}, ""
	case "cancelled":
		return "ftick", []int{1000000}, ""
	}
	return "fval", []int{v.A}, ""
}

func exprOf(v *inv) string {
	fn, args, inline := callOf(v)
	if inline != "" {
		return inline
	}
	parts := make([]string, len(args))
	for i, a := range args {
		parts[i] = fmt.Sprint(a)
	}
	return fn + "(" + strings.Join(parts, ", ") + ")"
}

// ticks reports whether the invocation calls tick() (so that an event can be placed "during" it)
func ticks(v *inv) bool {
	return (v.Beh == "value" && (v.Flavor == "tick" || (v.Flavor == "hostmut" && v.API == "RunCode"))) || v.Beh == "cancelled"
}

func fillParams(r *mon.Rand, v *inv, session string, i int, withEvents bool) {
	fl := flavours[v.Beh]
	v.Flavor = fl[r.Intn(len(fl))]
	if v.forceHostmut {
		v.Flavor = "hostmut"
	}
	v.A = r.Range(3, 40)
	v.Inc = r.Range(1, 9)
	if v.Beh == "error" {
		v.D = mon.Pick(r, []int{0, 1, 3, 40})
	}
	if v.Beh == "cancelled" {
		v.K = mon.Pick(r, []int{1, 2, 50})
	}
	if v.Flavor == "mod" {
		v.Mod = mon.Pick(r, []string{"ma", "mb", "mb", "mc"})
		v.Where = mon.Pick(r, []string{"top", "fn"})
		v.FailIn, v.ModB = "", 0
		if v.Beh != "value" {
			v.FailIn = v.Mod
			if v.Mod == "mb" && r.Bool() {
				v.FailIn = "ma" // nested: the module that mb imports fails
			}
			switch v.Beh {
			case "fovf":
				v.ModB = 1
			case "panic":
				v.ModB = mon.Pick(r, []int{2, 6})
			case "error":
				v.ModB = 3
			case "cancelled":
				v.ModB = 4
			case "sovf":
				v.ModB = 5
			}
		}
	}
	v.OS = mon.Pick(r, []string{"", "", "A", "B"})
	if v.Flavor == "hostmut" {
		if v.API != "RunCode" {
			if v.Beh == "value" {
				v.Flavor = "plain"
			} else {
				v.Flavor = "tick"
			}
		} else if v.Beh == "cancelled" {
			v.K = mon.Pick(r, []int{1, 2})
		}
	}
	if v.API == "RunCode" && (r.Chance(1, 4) || (v.Flavor == "hostmut" && (v.forceHostmut || r.Chance(2, 3)))) {
		v.SameCode = true
	}
	if v.Beh != "cancelled" && r.Chance(1, 8) {
		v.Background = true
	}
	if withEvents && r.Chance(2, 3) {
		v.OldJ = r.Intn(i + 1) // 0..i: an earlier invocation (0 is the set-up)
		if r.Bool() {
			v.OldWhen = "before"
		} else {
			v.OldWhen = "during"
			if v.Beh == "value" && !ticks(v) {
				v.Flavor = "tick"
				v.Mod, v.FailIn, v.ModB, v.Where = "", "", 0, ""
			}
			if !ticks(v) {
				v.OldWhen = "before"
			} else {
				hi := v.A
				if v.Beh == "cancelled" {
					hi = v.K
				}
				v.OldTick = r.Range(1, hi)
			}
		}
	}
}

func apisOf(session string) []string {
	if session == "repl" {
		return []string{"Run", "Call"}
	}
	return []string{"RunCode", "Call"}
}

// exhaustive: all histories of length 1..maxLen over the alphabet api x behaviour, for both sessions;
// parameters (flavour, depth, instants, events) are drawn from the seed, once without and once with
// events on earlier contexts.
func exhaustive(r *mon.Rand, maxLen int, reps int) []history {
	var out []history
	for _, session := range []string{"runcode", "repl"} {
		apis := apisOf(session)
		type sym struct{ api, beh string }
		var alphabet []sym
		for _, a := range apis {
			for _, b := range behaviours {
				alphabet = append(alphabet, sym{a, b})
			}
		}
		var rec func(prefix []sym)
		rec = func(prefix []sym) {
			if len(prefix) > 0 {
				for rep := 0; rep < reps; rep++ {
					for _, ev := range []bool{false, true} {
						h := history{Session: session}
						rr := r.Split(fmt.Sprint(session, prefix, rep, ev))
						if session == "repl" {
							h.XStyle = mon.Pick(rr, []string{"top", "fn"})
						}
						historyParams(rr, &h)
						for i, s := range prefix {
							v := inv{API: s.api, Beh: s.beh}
							v.forceHostmut = repeatsHostmut(rr, &h, &v)
							fillParams(rr, &v, session, i+1, ev)
							h.Invs = append(h.Invs, v)
						}
						normalise(&h)
						finish(&h)
						out = append(out, h)
					}
				}
			}
			if len(prefix) == maxLen {
				return
			}
			for _, s := range alphabet {
				rec(append(append([]sym{}, prefix...), s))
			}
		}
		rec(nil)
	}
	return out
}

func sampled(r *mon.Rand, n int) []history {
	var out []history
	for k := 0; k < n; k++ {
		rr := r.SplitN(k)
		session := mon.Pick(rr, []string{"runcode", "repl"})
		apis := apisOf(session)
		h := history{Session: session}
		if session == "repl" {
			h.XStyle = mon.Pick(rr, []string{"top", "fn"})
		}
		historyParams(rr, &h)
		l := rr.Range(4, 6)
		for i := 0; i < l; i++ {
			v := inv{API: mon.Pick(rr, apis)}
			// half of the invocations are normal, so that abnormal ones are followed by victims
			if rr.Bool() {
				v.Beh = "value"
			} else {
				v.Beh = mon.Pick(rr, behaviours[1:])
			}
			v.forceHostmut = repeatsHostmut(rr, &h, &v)
			fillParams(rr, &v, session, i+1, rr.Chance(3, 4))
			h.Invs = append(h.Invs, v)
		}
		normalise(&h)
		finish(&h)
		out = append(out, h)
	}
	return out
}

// replPiece is the source of a Run invocation: update x, then the behaviour.
func replPiece(h *history, v *inv, xBefore int) string {
	if h.XStyle == "fn" {
		return fmt.Sprintf("fset(%d)\n%s\n", xBefore+v.Inc, exprOf(v))
	}
	return fmt.Sprintf("x = x + %d\n%s\n", v.Inc, exprOf(v))
}

// normalise makes SameCode meaningful: a RunCode marked SameCode repeats the parameters of the most
// recent earlier RunCode of the same behaviour (so that the source text, and with it the compiled code
// object, is the same one); without such a predecessor the mark is dropped.
func normalise(h *history) {
	for i := range h.Invs {
		v := &h.Invs[i]
		if !v.SameCode {
			continue
		}
		found := false
		for j := i - 1; j >= 0 && !found; j-- {
			p := &h.Invs[j]
			if v.Flavor == "hostmut" && p.API == "RunCode" && p.Flavor == "hostmut" {
				// the same code object whatever the earlier run's end (value or cancelled at its k-th tick)
				v.A, v.Inc = p.A, p.Inc
				if v.OldWhen == "during" && v.OldTick > v.A {
					v.OldTick = v.A
				}
				found = true
				continue
			}
			if p.API == "RunCode" && p.Beh == v.Beh && v.Flavor != "hostmut" && p.Flavor != "hostmut" && (v.OldWhen != "during" || ticks(p)) {
				v.Flavor, v.D, v.A, v.K, v.Inc = p.Flavor, p.D, p.A, p.K, p.Inc
				v.Mod, v.FailIn, v.ModB, v.Where = p.Mod, p.FailIn, p.ModB, p.Where
				if v.OldWhen == "during" {
					hi := v.A
					if v.Beh == "cancelled" {
						hi = v.K
					}
					if v.OldTick > hi {
						v.OldTick = hi
					}
				}
				found = true
			}
		}
		if !found {
			v.SameCode = false
		}
	}
}

// ---------------------------------------------------------------------------------------
// modules served by an in-memory importer. What a module body does is decided at run time by the host
// builtin modbeh(name): 0 = nothing special (the import succeeds), 1 = frame overflow in a function
// called from the body, 2 = integer division by zero at top level (Go panic), 3 = run-time error,
// 4 = a long ticking loop (cancelled mid-import), 5 = operand-stack overflow at top level, 6 = division
// by zero inside a function.

func moduleSource(name, importLine, valLine string) string {
	big := "[" + strings.Repeat("1, ", bigList-1) + "1]"
	return importLine + `func mrec(n) { return mrec(n + 1) + 1 }
func mdiv(a) { return 10 / a }
b := modbeh("` + name + `")
if b == 1 { mrec(0) }
if b == 2 { 10 / (b - 2) }
if b == 3 { [0][5] }
if b == 4 {
	for i := 0; i < 1000000; i++ { tick() }
}
if b == 5 { len(` + big + `) }
if b == 6 { mdiv(0) }
` + valLine + `
func get(a) { return a + b }
`
}

func moduleFiles() map[string]string {
	return map[string]string{
		"ma.risor": moduleSource("ma", "", "val := 40"),
		"mb.risor": moduleSource("mb", "import ma\n", "bv := ma.val + 2"),
		"mc.risor": moduleSource("mc", "", "cv := 7"),
	}
}

// loadedAfter is the model of the VM's module cache: which modules are loaded after an invocation that
// imports v.Mod, given the set loaded before. A RunCode starts with an empty cache (only the modules
// supplied as globals survive resetForNewCode); Run and Call keep it.
func loadedAfter(v *inv, before map[string]bool) map[string]bool {
	l := map[string]bool{}
	if v.API != "RunCode" {
		for k := range before {
			l[k] = true
		}
	}
	if v.Flavor != "mod" {
		return l
	}
	beh := func(m string) int {
		if m == v.FailIn {
			return v.ModB
		}
		return 0
	}
	var imp func(m string) bool
	imp = func(m string) bool {
		if l[m] {
			return true
		}
		if m == "mb" && !imp("ma") {
			return false
		}
		if beh(m) != 0 {
			return false
		}
		l[m] = true
		return true
	}
	imp(v.Mod)
	return l
}

// preloadLines imports the given modules (in dependency order)
func preloadLines(l map[string]bool) (string, int) {
	var b strings.Builder
	n := 0
	for _, m := range []string{"ma", "mb", "mc"} {
		if l[m] {
			b.WriteString("import " + m + "\n")
			n++
		}
	}
	return b.String(), n
}

func historyParams(r *mon.Rand, h *history) {
	if h.Session == "runcode" {
		h.OptsOnce = r.Bool()
	}
	h.VMOS = r.Chance(1, 4)
	h.SetupOS = mon.Pick(r, []string{"", "A", "B"})
}

// finish fixes what depends on the whole history: an "os" invocation may print only when some virtual OS
// is in effect for it
func finish(h *history) {
	for i := range h.Invs {
		v := &h.Invs[i]
		if v.Flavor == "os" {
			v.Quiet = v.OS == "" && !h.VMOS
		}
	}
}

// repeatsHostmut: a RunCode (value or cancelled) that follows a RunCode of flavour hostmut runs, two
// times out of three, the very same code object again
func repeatsHostmut(r *mon.Rand, h *history, v *inv) bool {
	if v.API != "RunCode" || (v.Beh != "value" && v.Beh != "cancelled") {
		return false
	}
	for _, p := range h.Invs {
		if p.API == "RunCode" && p.Flavor == "hostmut" {
			return r.Chance(2, 3)
		}
	}
	return false
}
