// Package c20: layout and comments never change meaning; diagnostics point into the source
// (differential monitor over layout variants + invariant monitor over reported error positions).
package c20

import (
	"bytes"
	"context"
	"encoding/json"
	"fmt"
	"os"
	"regexp"
	"runtime/debug"
	"strconv"
	"strings"
	"unicode/utf8"

	"github.com/risor-io/risor"
	"github.com/risor-io/risor/compiler"
	"github.com/risor-io/risor/errz"
	"github.com/risor-io/risor/parser"

	"verif/internal/eng"
	"verif/internal/gen"
	"verif/internal/mon"
)

const ID = "C20"

func Register() {
	mon.Register(&mon.Prop{ID: ID, Drive: drive})
	mon.RegisterWorker(ID, worker)
}

// ---------------------------------------------------------------------------------------
// layout variants

var blockComments = []string{"/* c */", "/**/", "/* // */", "/* # */", "/* \" */", "/* ' */", "/* { ( [ */", "/* a */ /* b */", "/* a *//* b */", "/*\t*/", "/* é */", "/* * / */",
	"/***/", "/****/", "/*****/", "/* banner **/", "/** doc */", "/** b **/", "/****** b ******/", "/* a * b ** c *** d */", "/* **/", "/***\t***/", "/* / * / */"}
var lineComments = []string{"// c", "# c", "//", "#", "// \"unterminated", "# /* not a block", "// */", "#!x", "// é 日本"}
var spaces = []string{" ", "\t", "  ", " \t ", "\t\t"}

// edit describes what was inserted into one gap (for signatures)
type edit struct {
	Gap  int    `json:"gap"`
	Kind string `json:"kind"`
	Text string `json:"text"`
}

func tokClass(t gen.Tok) string {
	if t.Sep {
		return "EOL"
	}
	if t.Str {
		return "string"
	}
	s := t.Text
	c := s[0]
	switch {
	case c >= '0' && c <= '9':
		return "number"
	case c == '_' || (c >= 'a' && c <= 'z') || (c >= 'A' && c <= 'Z') || c >= 0x80:
		switch s {
		case "as", "break", "case", "const", "continue", "default", "defer", "else", "false", "for", "from", "func", "go", "if", "import", "in", "nil", "not", "range", "return", "struct", "switch", "true", "var":
			return "kw:" + s
		}
		return "ident"
	}
	return s
}

// build renders tokens with the given per-gap insertions. ins[i] is inserted in the gap before token i
// (after the default space, if any); sepText[i] replaces separator token i when non-empty; eol is the
// line terminator used for plain separators.
func build(toks []gen.Tok, ins map[int]string, sepText map[int]string, eol string, prefix, suffix string) string {
	var b strings.Builder
	b.WriteString(prefix)
	atLineStart := true
	for i, t := range toks {
		if t.Sep {
			if s, ok := sepText[i]; ok {
				b.WriteString(s)
			} else {
				b.WriteString(eol)
			}
			atLineStart = true
			continue
		}
		if !atLineStart && t.Space && i > 0 {
			b.WriteString(" ")
		}
		if s, ok := ins[i]; ok {
			b.WriteString(s)
		}
		b.WriteString(t.Text)
		atLineStart = false
	}
	b.WriteString(eol)
	b.WriteString(suffix)
	return b.String()
}

type variant struct {
	Src   string
	Edits []edit
	Kind  string // dominant kind, for the signature
	Class string // gap class of the (first) edit
}

func gapClass(toks []gen.Tok, i int) string {
	prev := "BOF"
	for j := i - 1; j >= 0; j-- {
		prev = tokClass(toks[j])
		break
	}
	return prev + "|" + tokClass(toks[i])
}

// oneEdit returns an insertion for the gap before token i of the given kind ("" if not applicable).
func oneEdit(toks []gen.Tok, i int, kind string, r *mon.Rand, eol string) (string, bool) {
	t := toks[i]
	switch kind {
	case "space":
		return mon.Pick(r, spaces), true
	case "block-comment":
		c := mon.Pick(r, blockComments)
		switch r.Intn(3) {
		case 0:
			return c, true
		case 1:
			return c + " ", true
		default:
			return " " + c + " ", true
		}
	case "newline":
		if !t.NL {
			return "", false
		}
		return eol + mon.Pick(r, []string{"", "  ", "\t", "    "}), true
	case "comment-newline":
		if !t.NL {
			return "", false
		}
		return " " + mon.Pick(r, lineComments) + eol + mon.Pick(r, []string{"", "  "}), true
	case "blank-lines":
		if !t.NL {
			return "", false
		}
		return eol + eol + "  ", true
	}
	return "", false
}

var editKinds = []string{"space", "block-comment", "newline", "comment-newline", "blank-lines"}
var sepKinds = []string{"blank-line", "line-comment", "hash-comment", "trailing-space", "comment-own-line", "crlf-one"}

func sepEdit(kind string, r *mon.Rand, eol string) string {
	switch kind {
	case "blank-line":
		return eol + eol
	case "line-comment":
		return " " + mon.Pick(r, lineComments[:1]) + mon.Pick(r, []string{"", " x", " \"q"}) + eol
	case "hash-comment":
		return " # " + mon.Pick(r, []string{"c", "/* x", "'", ""}) + eol
	case "trailing-space":
		return mon.Pick(r, spaces) + eol
	case "comment-own-line":
		return eol + mon.Pick(r, blockComments) + eol
	case "crlf-one":
		return "\r\n"
	}
	return eol
}

// randomVariant perturbs many gaps at once.
func randomVariant(toks []gen.Tok, r *mon.Rand) variant {
	eol := "\n"
	kindTag := "mixed"
	if r.Chance(1, 5) {
		eol = "\r\n"
		kindTag = "mixed-crlf"
	}
	ins := map[int]string{}
	seps := map[int]string{}
	var edits []edit
	density := 4 + r.Intn(20) // one gap in <density>
	for i, t := range toks {
		if i == 0 {
			continue
		}
		if t.Sep {
			if r.Chance(1, density) {
				k := mon.Pick(r, sepKinds)
				seps[i] = sepEdit(k, r, eol)
				edits = append(edits, edit{Gap: i, Kind: "sep:" + k, Text: seps[i]})
			}
			continue
		}
		if toks[i-1].Sep {
			// first token of a line: indentation / leading comment
			if r.Chance(1, density) {
				s := mon.Pick(r, []string{"  ", "\t", "/* lead */ ", "    "})
				ins[i] = s
				edits = append(edits, edit{Gap: i, Kind: "line-start", Text: s})
			}
			continue
		}
		if r.Chance(1, density) {
			k := mon.Pick(r, editKinds)
			if s, ok := oneEdit(toks, i, k, r, eol); ok {
				ins[i] = s
				edits = append(edits, edit{Gap: i, Kind: k, Text: s})
			}
		}
	}
	prefix, suffix := "", ""
	if r.Chance(1, 6) {
		prefix = mon.Pick(r, []string{eol, eol + eol, "/* head */ ", "// head" + eol, "# head" + eol, "  "})
		edits = append(edits, edit{Gap: 0, Kind: "prefix", Text: prefix})
	}
	if r.Chance(1, 6) {
		suffix = mon.Pick(r, []string{eol, "/* tail */", "// tail", "# tail", "  ", eol + eol})
		edits = append(edits, edit{Gap: len(toks), Kind: "suffix", Text: suffix})
	}
	v := variant{Src: build(toks, ins, seps, eol, prefix, suffix), Edits: edits, Kind: kindTag}
	return v
}

// singleVariant perturbs exactly one gap (used to exercise every gap and to localise failures).
func singleVariant(toks []gen.Tok, i int, kind string, r *mon.Rand) (variant, bool) {
	eol := "\n"
	if toks[i].Sep {
		s := sepEdit(kind, r, eol)
		return variant{Src: build(toks, nil, map[int]string{i: s}, eol, "", ""), Edits: []edit{{Gap: i, Kind: "sep:" + kind, Text: s}}, Kind: "sep:" + kind, Class: "EOL"}, true
	}
	if i > 0 && toks[i-1].Sep {
		return variant{}, false
	}
	s, ok := oneEdit(toks, i, kind, r, eol)
	if !ok {
		return variant{}, false
	}
	return variant{Src: build(toks, map[int]string{i: s}, nil, eol, "", ""), Edits: []edit{{Gap: i, Kind: kind, Text: s}}, Kind: kind, Class: gapClass(toks, i)}, true
}

// ---------------------------------------------------------------------------------------
// front end observation

type front struct {
	AST      string
	Code     []byte
	Stage    string // "" ok, "parse", "compile"
	Err      string
	Panic    string
	PosLine  int // 1-based line/column reported by a parse error (0 = none)
	PosCol   int
	Quoted   string
	HasPos   bool
	Friendly string
}

var traceFile = func() string {
	if d := os.Getenv("VERIF_BATCH_DIR"); d != "" {
		return d + "/current.src"
	}
	return os.Getenv("VERIF_C20_TRACE")
}()

// compilerOpts carries the default global names (print, len, ...), as risor.Eval would supply them.
var compilerOpts = risor.NewConfig().CompilerOpts()

func frontEnd(src string) (f front) {
	// the input is on disk before the front end sees it: a hang or a crash is attributed to it
	if traceFile != "" {
		_ = os.WriteFile(traceFile, []byte(src), 0o644)
	}
	defer func() {
		if r := recover(); r != nil {
			f.Panic = fmt.Sprintf("%v\n%s", r, debug.Stack())
		}
	}()
	ctx := context.Background()
	f.Stage = "parse"
	prog, err := parser.Parse(ctx, src)
	if err != nil {
		f.Err = err.Error()
		if pe, ok := err.(parser.ParserError); ok {
			f.HasPos = true
			f.PosLine = pe.StartPosition().LineNumber()
			f.PosCol = pe.StartPosition().ColumnNumber()
			f.Quoted = pe.SourceCode()
		}
		if fe, ok := err.(errz.FriendlyError); ok {
			f.Friendly = fe.FriendlyErrorMessage()
		}
		return
	}
	f.AST = prog.String()
	f.Stage = "compile"
	code, err := compiler.Compile(prog, compilerOpts...)
	if err != nil {
		f.Err = err.Error()
		if fe, ok := err.(errz.FriendlyError); ok {
			f.Friendly = fe.FriendlyErrorMessage()
		}
		return
	}
	f.Stage = ""
	b, err := compiler.MarshalCode(code)
	if err != nil {
		f.Err = "marshal: " + err.Error()
		return
	}
	f.Code = b
	return
}

// ---------------------------------------------------------------------------------------
// diagnostics

var tokenAlphabet = []string{"(", ")", "[", "]", "{", "}", ",", ":", ";", ".", "+", "-", "*", "/", "%", "**", "==", "!=", "<", ">", "<=", ">=", "&&", "||", "!", "=", ":=", "+=", "-=", "*=", "/=", "++", "--", "?", "|", "<-", "&", "<<", ">>",
	"in", "not", "if", "else", "for", "func", "return", "break", "continue", "switch", "case", "default", "range", "var", "const", "import", "from", "as", "defer", "go", "struct", "nil", "true", "false",
	"x", "y1", "é", "1", "017", "0x1f", "1.5", "\"s\"", "'t{x}'", "`r`", "\n",
	"\"unterminated", "'{x", "'}'", "`raw", "0x", "1.2.3", "09", "@", "$", "~", "^", "\\", "/*", "*/", "…", "\x00", "1e5"}

var compilePos = regexp.MustCompile(`\(line (\d+), column (\d+)\)`)

type diagCheck struct {
	Sig    string
	Detail string
}

// checkDiagnostic verifies the error-position invariants for one (erroneous or not) source.
func checkDiagnostic(src string, f front) (checks int, bad *diagCheck) {
	if f.Panic != "" {
		site := panicSite(f.Panic)
		return 1, &diagCheck{Sig: "diagnostic-panic:" + site, Detail: mon.Truncate(f.Panic, 1500)}
	}
	if f.Stage == "" {
		return 0, nil
	}
	lines := strings.Split(src, "\n")
	within := func(line, col int) string {
		if line < 1 || line > len(lines) {
			// a position just past a trailing newline (EOF on a new empty line) is the line after the last
			return fmt.Sprintf("line %d does not exist (source has %d lines)", line, len(lines))
		}
		l := strings.TrimSuffix(lines[line-1], "\r")
		n := utf8.RuneCountInString(l)
		if col < 1 || col > n+2 {
			return fmt.Sprintf("column %d does not exist in line %d (%d characters)", col, line, n)
		}
		return ""
	}
	if f.Stage == "parse" {
		if !f.HasPos {
			return 1, &diagCheck{Sig: "parse-error-without-position", Detail: f.Err}
		}
		if msg := within(f.PosLine, f.PosCol); msg != "" {
			return 1, &diagCheck{Sig: "parse-error-position-outside-source", Detail: msg + "\nerror: " + f.Err}
		}
		want := strings.TrimSuffix(lines[f.PosLine-1], "\r")
		got := strings.TrimSuffix(f.Quoted, "\r")
		if got != want {
			// one precise, recorded shape: the error is at end of input after a final newline; the position
			// names the (empty) line after it while the quoted text is the last line with content
			if f.PosLine == len(lines) && want == "" && f.PosLine >= 2 {
				k := f.PosLine - 2
				for k > 0 && strings.TrimSuffix(lines[k], "\r") == "" {
					k--
				}
				if strings.TrimSuffix(lines[k], "\r") == got {
					return 1, &diagCheck{Sig: "parse-error-quotes-wrong-line:eof-after-final-newline", Detail: fmt.Sprintf("reported line %d is the empty line after the final newline, quoted %q (line %d)\nerror: %s", f.PosLine, got, k+1, f.Err)}
				}
			}
			return 1, &diagCheck{Sig: "parse-error-quotes-wrong-line", Detail: fmt.Sprintf("reported line %d is %q, quoted %q\nerror: %s", f.PosLine, want, got, f.Err)}
		}
		if f.Friendly == "" {
			return 1, &diagCheck{Sig: "parse-error-friendly-message-empty", Detail: f.Err}
		}
		return 1, nil
	}
	// compile error
	m := compilePos.FindStringSubmatch(f.Err)
	if m == nil {
		return 0, nil // no position reported (counted by the caller as information)
	}
	line, _ := strconv.Atoi(m[1])
	col, _ := strconv.Atoi(m[2])
	if msg := within(line, col); msg != "" {
		return 1, &diagCheck{Sig: "compile-error-position-outside-source", Detail: msg + "\nerror: " + f.Err}
	}
	return 1, nil
}

func panicSite(stack string) string {
	for _, l := range strings.Split(stack, "\n") {
		if strings.HasPrefix(l, "github.com/risor-io/risor/") {
			s := strings.TrimPrefix(l, "github.com/risor-io/risor/")
			if i := strings.Index(s, "("); i > 0 && !strings.HasPrefix(s, "parser.(*") && !strings.Contains(s[:i], ".") {
				s = s[:i]
			}
			if i := strings.LastIndex(s, "("); i > 0 {
				s = s[:i]
			}
			return s
		}
	}
	return "unknown"
}

var templateLit = regexp.MustCompile(`'(?:[^'\\\n]|\\.)*'`)
var templateExpr = regexp.MustCompile(`\{[^{}]*\}`)

// neutraliseTemplates replaces every interpolated expression of every '...' template with {0}.
func neutraliseTemplates(src string) string {
	return templateLit.ReplaceAllStringFunc(src, func(lit string) string {
		lit = strings.ReplaceAll(lit, "{{", "\x00")
		lit = templateExpr.ReplaceAllString(lit, "{0}")
		return strings.ReplaceAll(lit, "\x00", "{{")
	})
}

// refine attributes a diagnostic failure to template expressions when neutralising them makes the
// same error disappear: positions inside an interpolated expression are reported relative to that
// expression's text (a recorded finding), which is a different defect from a wrong position elsewhere.
func refine(src string, f front, bad *diagCheck) *diagCheck {
	if bad == nil || !strings.Contains(bad.Sig, "position-outside-source") && !strings.Contains(bad.Sig, "quotes-wrong-line") {
		return bad
	}
	n := neutraliseTemplates(src)
	if n == src {
		return bad
	}
	f2 := frontEnd(n)
	if f2.Err != f.Err {
		return &diagCheck{Sig: bad.Sig + ":inside-template-expression", Detail: bad.Detail}
	}
	return bad
}

// mutate returns the default rendering of a token-level mutation of toks.
func mutate(toks []gen.Tok, r *mon.Rand) (string, string) {
	// indices of real tokens
	var idx []int
	for i, t := range toks {
		if !t.Sep {
			idx = append(idx, i)
		}
	}
	if len(idx) == 0 {
		return "", ""
	}
	out := append([]gen.Tok{}, toks...)
	i := idx[r.Intn(len(idx))]
	kind := ""
	switch r.Intn(5) {
	case 0:
		kind = "delete"
		out = append(out[:i:i], out[i+1:]...)
	case 1:
		kind = "duplicate"
		out = append(out[:i+1:i+1], out[i:]...)
	case 2:
		kind = "insert"
		t := gen.Tok{Text: mon.Pick(r, tokenAlphabet), Space: true}
		out = append(out[:i:i], append([]gen.Tok{t}, out[i:]...)...)
	case 3:
		kind = "swap"
		j := idx[r.Intn(len(idx))]
		out[i], out[j] = out[j], out[i]
	default:
		kind = "substitute"
		out[i] = gen.Tok{Text: mon.Pick(r, tokenAlphabet), Space: true}
	}
	src := gen.Source(out)
	switch r.Intn(6) {
	case 0:
		src = strings.ReplaceAll(src, "\n", "\r\n")
		kind += "+crlf"
	case 1:
		src = strings.TrimSuffix(src, "\n") // no trailing newline: errors at EOF
		kind += "+noeol"
	}
	return src, kind
}

// ---------------------------------------------------------------------------------------

type caseData struct {
	eng.Batch
	Variants  int    `json:"variants"` // random variants per program
	Singles   int    `json:"singles"`  // single-gap variants per program (0 = none; -1 = every gap x every kind)
	Mutants   int    `json:"mutants"`  // token-level mutations per program
	Witnesses bool   `json:"witnesses,omitempty"`
	Src       string `json:"src,omitempty"`  // replay: explicit sources
	Base      string `json:"base,omitempty"` // replay: the base source of a layout case
}

type failure struct {
	Sig    string `json:"sig"`
	Detail string `json:"detail"`
	Src    string `json:"src"`
	Base   string `json:"base,omitempty"`
}

type out struct {
	Programs    int            `json:"programs"`
	Variants    int            `json:"variants"`
	GapsEdited  int            `json:"gaps_edited"`
	ByKind      map[string]int `json:"by_kind"`
	Mutants     int            `json:"mutants"`
	ParseErrs   int            `json:"parse_errs"`
	CompileErrs int            `json:"compile_errs"`
	NoPosErrs   int            `json:"no_pos_errs"`
	PosChecked  int            `json:"pos_checked"`
	Fail        []failure      `json:"fail"`
	Classes     []string       `json:"classes"`
	Samples     []string       `json:"samples"`
}

func layoutDiff(base, v front) string {
	switch {
	case v.Panic != "":
		return "panic in front end: " + mon.Truncate(v.Panic, 800)
	case v.Stage != base.Stage:
		return fmt.Sprintf("base stage %q, variant stage %q (%s)", base.Stage, v.Stage, v.Err)
	case v.AST != base.AST:
		return fmt.Sprintf("syntax tree differs:\n  base:    %s\n  variant: %s", mon.Truncate(base.AST, 600), mon.Truncate(v.AST, 600))
	case !bytes.Equal(v.Code, base.Code):
		return "compiled code differs although the syntax tree rendering is equal"
	}
	return ""
}

func worker(kind string, data json.RawMessage) any {
	var c caseData
	if err := json.Unmarshal(data, &c); err != nil {
		panic(err)
	}
	o := &out{ByKind: map[string]int{}}
	seen := map[string]bool{}
	addFail := func(f failure) {
		if len(o.Fail) < 12 {
			o.Fail = append(o.Fail, f)
		}
	}
	if c.Witnesses {
		// fixed inputs, among them the witnesses of the recorded findings (so that they are observed in
		// every run, whatever the seed)
		for _, src := range []string{
			"x := (1 +\n",
			"a := 1\nx := '{1 + 2 + 3 + 4 + undefinedvar}'\n",
			"a := 1\nb := [1, 2\nc := 3\n",
			"func f( {\n}\n",
			"x := \"unterminated\ny := 2\n",
			"x := 1\r\ny := )\r\n",
			"/* open comment\nx := 1\n",
			"x := 'bad {template'\n",
		} {
			f := frontEnd(src)
			o.Mutants++
			n, bad := checkDiagnostic(src, f)
			bad = refine(src, f, bad)
			o.PosChecked += n
			if bad != nil {
				addFail(failure{Sig: bad.Sig, Detail: bad.Detail, Src: src})
			}
		}
		return o
	}
	if c.Src != "" {
		// replay
		f := frontEnd(c.Src)
		if c.Base != "" {
			b := frontEnd(c.Base)
			if d := layoutDiff(b, f); d != "" {
				addFail(failure{Sig: "layout:replay", Detail: d, Src: c.Src, Base: c.Base})
			}
		}
		if _, bad := checkDiagnostic(c.Src, f); bad != nil {
			bad = refine(c.Src, f, bad)
			addFail(failure{Sig: bad.Sig, Detail: bad.Detail, Src: c.Src})
		}
		return o
	}
	for i := c.From; i < c.From+c.N; i++ {
		p, _ := c.Batch.Program(i)
		toks := gen.Tokens(p)
		baseSrc := gen.Source(toks)
		base := frontEnd(baseSrc)
		o.Programs++
		if base.Panic != "" || base.Stage != "" {
			// generated programs parse and compile (C01 checks that): nothing to compare against
			if base.Panic != "" {
				addFail(failure{Sig: "diagnostic-panic:" + panicSite(base.Panic), Detail: mon.Truncate(base.Panic, 1500), Src: baseSrc})
			}
			continue
		}
		r := mon.NewRand(c.Seed ^ 0xC20).SplitN(i)
		try := func(v variant) {
			o.Variants++
			o.GapsEdited += len(v.Edits)
			for _, e := range v.Edits {
				o.ByKind[e.Kind]++
			}
			f := frontEnd(v.Src)
			if d := layoutDiff(base, f); d != "" {
				sig := "layout:" + v.Kind
				if v.Class != "" {
					sig += "@" + v.Class
				}
				if len(v.Edits) > 1 {
					// localise: find one single edit that already breaks it
					for _, e := range v.Edits {
						if e.Gap <= 0 || e.Gap >= len(toks) {
							continue
						}
						var sv variant
						if toks[e.Gap].Sep {
							sv = variant{Src: build(toks, nil, map[int]string{e.Gap: e.Text}, "\n", "", ""), Kind: e.Kind, Class: "EOL"}
						} else {
							sv = variant{Src: build(toks, map[int]string{e.Gap: e.Text}, nil, "\n", "", ""), Kind: e.Kind, Class: gapClass(toks, e.Gap)}
						}
						if d2 := layoutDiff(base, frontEnd(sv.Src)); d2 != "" {
							sig = "layout:" + sv.Kind + "@" + sv.Class
							d = d2 + fmt.Sprintf("\n(single edit %q in gap %d)", e.Text, e.Gap)
							v = sv
							break
						}
					}
				}
				addFail(failure{Sig: sig, Detail: d, Src: v.Src, Base: baseSrc})
			}
		}
		for k := 0; k < c.Variants; k++ {
			try(randomVariant(toks, r))
		}
		if c.Singles != 0 {
			n := 0
			for gi := 1; gi < len(toks); gi++ {
				kinds := editKinds
				if toks[gi].Sep {
					kinds = sepKinds
				}
				for _, k := range kinds {
					if c.Singles > 0 && !r.Chance(c.Singles, 200) {
						continue
					}
					if v, ok := singleVariant(toks, gi, k, r); ok {
						try(v)
						n++
						cls := v.Kind + "@" + v.Class
						if !seen[cls] {
							seen[cls] = true
							o.Classes = append(o.Classes, cls)
						}
					}
				}
			}
		}
		for k := 0; k < c.Mutants; k++ {
			src, mk := mutate(toks, r)
			if src == "" {
				continue
			}
			o.Mutants++
			f := frontEnd(src)
			switch f.Stage {
			case "parse":
				o.ParseErrs++
			case "compile":
				o.CompileErrs++
			}
			n, bad := checkDiagnostic(src, f)
			bad = refine(src, f, bad)
			o.PosChecked += n
			if f.Stage == "compile" && n == 0 {
				o.NoPosErrs++
			}
			if f.Stage != "" {
				cls := "diag:" + f.Stage + ":" + mk
				if !seen[cls] {
					seen[cls] = true
					o.Classes = append(o.Classes, cls)
				}
			}
			if bad != nil {
				addFail(failure{Sig: bad.Sig, Detail: bad.Detail, Src: src})
			}
		}
		if len(o.Samples) < 1 && i%17 == 0 {
			o.Samples = append(o.Samples, randomVariant(toks, r).Src)
		}
	}
	return o
}

func drive(d *mon.Driver, replay string) int {
	d.Rule = "layout: each generated program's token stream is re-rendered with extra spaces/tabs, one or several block comments, // and # comments at line ends, blank lines, CRLF line ends and line breaks at every gap where the grammar accepts one (after , ( [ { a binary operator | .), as many-gap random variants and as single-gap variants; ast.Program.String() and MarshalCode of the variant must equal the original's. diagnostics: single-token deletion/duplication/insertion/substitution/swap (also with CRLF and without final newline); every parse error must report an existing line/column, quote exactly that line, and render (Error, FriendlyErrorMessage) without panicking; compile errors that report a position must report an existing one. distinct = (insertion kind, gap class prev|next token) pairs and (stage, mutation kind) pairs exercised"
	d.Assume = []string{"compile errors that carry no position or quote no source line are counted as information (compile-errors-without-position), not as violations: the check only demands that reported positions exist and quoted lines are verbatim", "columns are counted in characters; a column one past the end of the line (+1 for the newline itself) is accepted"}
	var cases []mon.Case
	if replay != "" {
		var c caseData
		if err := mon.LoadReplay(replay, &c); err != nil {
			fmt.Println("cannot load replay:", err)
			return 3
		}
		cases = append(cases, mon.NewCase("replay", "replay", c))
	} else {
		r := d.Rand("programs")
		seed := r.Uint64()
		cases = append(cases, mon.NewCase("witnesses", "witnesses", caseData{Witnesses: true}))
		total := d.N(1600, 100000)
		per := 100
		for from := 0; from < total; from += per {
			cases = append(cases, mon.NewCase(fmt.Sprintf("gen-%d", from), "gen", caseData{Batch: eng.Batch{Seed: seed, From: from, N: per, Mix: -1, NoFail: true}, Variants: d.N(12, 30), Singles: d.N(12, 40), Mutants: d.N(25, 60)}))
		}
	}
	byKind := map[string]int{}
	lastSrc := map[string]string{}
	d.RunPool(cases, mon.PoolOpts{BatchSize: 1, BatchTimeout: 240e9, AfterBatch: func(dir string, cs []mon.Case) {
		if b, err := os.ReadFile(dir + "/current.src"); err == nil {
			for _, c := range cs {
				lastSrc[c.ID] = string(b)
			}
		}
	}}, func(c mon.Case, res mon.Result) {
		var cd caseData
		_ = json.Unmarshal(c.Data, &cd)
		if res.Status != "done" {
			detail := ""
			if res.Crash != nil {
				detail = res.Crash.Exit + " " + res.Crash.FatalLine + "\n" + mon.Truncate(res.Crash.StderrTail, 2000)
			}
			if res.Crash != nil && res.Crash.Confirmed && lastSrc[c.ID] != "" {
				// the front end died or did not return on this input (written to disk before the call)
				sig := "front-end-died"
				if res.Status == "timeout" {
					sig = "front-end-does-not-return"
				}
				d.Violation(sig, detail+"\n--- source:\n"+mon.Truncate(lastSrc[c.ID], 3000), caseData{Src: lastSrc[c.ID]})
			} else if res.Status == "crash" && res.Crash != nil && res.Crash.Confirmed {
				d.Violation("worker-died", detail, cd)
			} else {
				d.Inconclusive("worker " + c.ID + ": " + res.Status + " " + mon.Truncate(detail, 300))
			}
			return
		}
		if res.Panic != "" {
			d.Fatal("harness panic in worker: " + res.Panic)
			return
		}
		var o out
		if err := json.Unmarshal(res.Data, &o); err != nil {
			d.Fatal("bad worker output: " + err.Error())
			return
		}
		d.Eval(o.Variants + o.Mutants)
		d.Event("layout-variants", o.Variants)
		d.Event("gaps-edited", o.GapsEdited)
		d.Event("token-mutations", o.Mutants)
		d.Event("parse-errors-checked", o.ParseErrs)
		d.Event("compile-errors-seen", o.CompileErrs)
		d.Event("compile-errors-without-position", o.NoPosErrs)
		d.Event("error-positions-checked", o.PosChecked)
		for k, v := range o.ByKind {
			byKind[k] += v
		}
		for _, cl := range o.Classes {
			d.Distinct(cl)
		}
		for _, s := range o.Samples {
			d.Sample(s)
		}
		for _, f := range o.Fail {
			rc := caseData{Src: f.Src, Base: f.Base}
			detail := mon.Truncate(f.Detail, 2500) + "\n--- source:\n" + mon.Truncate(f.Src, 2500)
			if f.Base != "" {
				detail += "\n--- base:\n" + mon.Truncate(f.Base, 2500)
			}
			d.Violation(f.Sig, detail, rc)
		}
	})
	d.Extra("edits_by_kind", byKind)
	if replay != "" {
		return d.Finish(0, 0)
	}
	return d.Finish(d.N(40000, 3000000), d.N(150, 300))
}
