package c08

import (
	"errors"
	"fmt"
	"reflect"
	"sort"
	"strings"
	"time"

	"github.com/risor-io/risor/object"
)

// Result lists of Go methods in which an error-typed result is NOT last: first, in the middle,
// two of them, alone. GoMethod classifies results as errors by type at any position, so every such
// method is callable; the script must get exactly the non-error values the method returned (the
// value itself when there is one, a list in result order when there are several, nil when there is
// none) when every error result is nil, and an error carrying a returned error's text otherwise.
//
// Each method takes which error result to set (0 = none, k = the k-th error result, -1 = all).
// The expectation is not written down per method: the same method is called directly from Go and
// its actual results are compared with what the script got (pinned relation of canon.go).

type RetHost struct{ calls int }

func retErr(set, k int) error {
	if set == k || set == -1 {
		return fmt.Errorf("ret-error-%d", k)
	}
	return nil
}

// controls: error last / no error / error only
func (h *RetHost) R00(set int) (int, error)         { return 7, retErr(set, 1) }
func (h *RetHost) R01(set int) (int, string, error) { return 8, "s8", retErr(set, 1) }
func (h *RetHost) R02(set int) error                { return retErr(set, 1) }
func (h *RetHost) R03(set int) (string, []int)      { return "s", []int{1, 2} }

// error first
func (h *RetHost) R10(set int) (error, int)           { return retErr(set, 1), 3 }
func (h *RetHost) R11(set int) (error, string, []int) { return retErr(set, 1), "after", []int{4, 5, 6} }
func (h *RetHost) R12(set int) (error, time.Duration, []string) {
	return retErr(set, 1), 90 * time.Second, []string{"x", "y"}
}
func (h *RetHost) R13(set int) (error, *MyInner)             { return retErr(set, 1), &MyInner{X: 5, Y: "p"} }
func (h *RetHost) R14(set int) (error, any)                  { return retErr(set, 1), map[string]any{"k": 1} }
func (h *RetHost) R15(set int) (error, bool, float32, uint8) { return retErr(set, 1), true, 0.5, 200 }
func (h *RetHost) R16(set int) (error, map[string]int8, MyStruct) {
	return retErr(set, 1), map[string]int8{"a": -3}, MyStruct{A: 4, B: "b"}
}

// error in the middle
func (h *RetHost) R20(set int) (int, error, string)       { return 26, retErr(set, 1), "z=26" }
func (h *RetHost) R21(set int) (string, int, error, bool) { return "a", 2, retErr(set, 1), true }
func (h *RetHost) R22(set int) ([]byte, error, float64, int64) {
	return []byte{1, 2}, retErr(set, 1), 2.5, -9
}
func (h *RetHost) R23(set int) (int8, error, *int) { v := 77; return -8, retErr(set, 1), &v }
func (h *RetHost) R24(set int) (time.Time, error, MyInner) {
	return time.Unix(1700000000, 0).UTC(), retErr(set, 1), MyInner{X: 1, Y: "v"}
}
func (h *RetHost) R25(set int) (int, error, int) { return 1, retErr(set, 1), 2 }

// two error results
func (h *RetHost) R30(set int) (error, error)      { return retErr(set, 1), retErr(set, 2) }
func (h *RetHost) R31(set int) (error, error, int) { return retErr(set, 1), retErr(set, 2), 31 }
func (h *RetHost) R32(set int) (error, int, error) { return retErr(set, 1), 32, retErr(set, 2) }
func (h *RetHost) R33(set int) (int, error, error, string) {
	return 33, retErr(set, 1), retErr(set, 2), "t"
}
func (h *RetHost) R34(set int) (int, error, string, error) {
	return 34, retErr(set, 1), "u", retErr(set, 2)
}
func (h *RetHost) R35(set int) (error, string, error, []int, uint16) {
	return retErr(set, 1), "w", retErr(set, 2), []int{9}, 65535
}

var _ = errors.New

type retCase struct {
	Method string
	Shape  string
	Set    int
}

func (c retCase) state() string {
	switch c.Set {
	case 0:
		return "errors-nil"
	case -1:
		return "all-errors-set"
	}
	return fmt.Sprintf("error#%d-set", c.Set)
}

func (c retCase) Name() string { return "results(" + c.Shape + ")[" + c.state() + "]" }

func retCases() []retCase {
	rt := reflect.TypeOf(&RetHost{})
	var out []retCase
	for i := 0; i < rt.NumMethod(); i++ {
		m := rt.Method(i)
		if !strings.HasPrefix(m.Name, "R") {
			continue
		}
		var parts []string
		nerr := 0
		for j := 0; j < m.Type.NumOut(); j++ {
			ot := m.Type.Out(j)
			if ot == errorType {
				nerr++
			}
			parts = append(parts, ot.String())
		}
		shape := strings.ReplaceAll(strings.Join(parts, ","), "c08.", "")
		sets := []int{0}
		for k := 1; k <= nerr; k++ {
			sets = append(sets, k)
		}
		if nerr > 1 {
			sets = append(sets, -1)
		}
		for _, s := range sets {
			out = append(out, retCase{Method: m.Name, Shape: shape, Set: s})
		}
	}
	sort.Slice(out, func(i, j int) bool {
		if out[i].Method != out[j].Method {
			return out[i].Method < out[j].Method
		}
		return out[i].Set < out[j].Set
	})
	return out
}

func runRetCase(c retCase) (r res) {
	defer func() {
		if p := recover(); p != nil {
			r = res{Status: "harness-panic", Detail: fmt.Sprintf("%v", p)}
		}
	}()
	// what the method returns, from Go
	outs := reflect.ValueOf(&RetHost{}).MethodByName(c.Method).Call([]reflect.Value{reflect.ValueOf(c.Set)})
	var errTexts []string
	var values []reflect.Value
	for _, o := range outs {
		if o.Type() == errorType {
			if !o.IsNil() {
				errTexts = append(errTexts, o.Interface().(error).Error())
			}
			continue
		}
		values = append(values, o)
	}
	src := fmt.Sprintf("h.%s(%d)", c.Method, c.Set)
	obj, err, pan := evalSafe(src, map[string]any{"h": &RetHost{}})
	out, ok := evalOutcome(obj, err, pan, "")
	if out.Status == "fail" {
		return out
	}
	gotErr := ""
	if !ok {
		gotErr = out.Detail
	} else if e, yes := obj.(*object.Error); yes {
		ok = false
		gotErr = fmt.Sprint(e.Value())
	}
	if len(errTexts) > 0 {
		if ok {
			return failed("returned-error-lost", fmt.Sprintf("%s: the method returned error(s) %q, the script got %s %s", src, errTexts, obj.Type(), trunc(obj.Inspect(), 200)))
		}
		for _, t := range errTexts {
			if strings.Contains(gotErr, t) {
				return rejected(gotErr)
			}
		}
		return failed("wrong-error", fmt.Sprintf("%s: the method returned error(s) %q, the script got the error %q", src, errTexts, gotErr))
	}
	if !ok {
		return failed("unexpected-error", fmt.Sprintf("%s: every error result was nil, the script got the error %q", src, gotErr))
	}
	var ref node
	switch len(values) {
	case 0:
		ref = node{K: "nil"}
	case 1:
		ref = canonGo(values[0], 0)
	default:
		ref = node{K: "list"}
		for _, v := range values {
			ref.L = append(ref.L, canonGo(v, 0))
		}
	}
	if cls, d := diff(ref, canonObj(obj, 0), "result of "+src); cls != "" {
		return failed(cls, fmt.Sprintf("%s (script got %s %s, the method returned %s)", d, obj.Type(), trunc(obj.Inspect(), 200), short(ref)))
	}
	return converted()
}
