package c08

import (
	"fmt"
	"io/fs"
	"reflect"
	"sort"
	"strings"
	"time"

	"verif/internal/props/c08/twin"
)

// ---------------------------------------------------------------------------------------
// Declared named types (reflect cannot make named types, so every named type that takes part is
// declared here or comes from the standard library).

type (
	MyBool    bool
	MyInt     int
	MyInt8    int8
	MyInt16   int16
	MyInt32   int32
	MyInt64   int64
	MyUint    uint
	MyUint8   uint8
	MyUint16  uint16
	MyUint32  uint32
	MyUint64  uint64
	MyFloat32 float32
	MyFloat64 float64
	MyString  string

	MyBytes  []byte
	MySlice  []int
	MyStrs   []string
	MyMap    map[string]int
	MyArr    [3]int
	MyPtr    *int
	MyAny    interface{}
	MyDurs   []time.Duration
	MyNamedM map[string]MyString

	MyInner struct {
		X int8
		Y string
	}
	MyStruct struct {
		A int
		B string
		C []int16
		D *MyInner
		E MyInner
		F map[string]float32
		G time.Time
		H uint8
		I any
	}
	MyNode struct {
		V    int
		Next *MyNode
	}
	// MyNamedS has named-typed members; reading its other members must still work.
	MyNamedS struct {
		N int
		D time.Duration
		S MyString
	}

	// MyErr is an error whose dynamic type is a named string.
	MyErr string
	// MyPtrErr is an error whose dynamic type is a pointer to a struct.
	MyPtrErr struct{ Code int }
	// MyStr is a fmt.Stringer whose dynamic type is a named string.
	MyStr string
	// Stringer is a declared non-empty interface.
	Stringer interface{ String() string }
)

func (e MyErr) Error() string     { return string(e) }
func (e *MyPtrErr) Error() string { return fmt.Sprintf("code %d", e.Code) }
func (s MyStr) String() string    { return string(s) }
func (s MyInner) String() string  { return fmt.Sprintf("inner(%d,%q)", s.X, s.Y) }

var (
	timeType     = reflect.TypeOf(time.Time{})
	errorType    = reflect.TypeOf((*error)(nil)).Elem()
	anyType      = reflect.TypeOf((*interface{})(nil)).Elem()
	stringerType = reflect.TypeOf((*Stringer)(nil)).Elem()
	stringType   = reflect.TypeOf("")
)

var basicTypes = map[string]reflect.Type{
	"bool": reflect.TypeOf(false), "int": reflect.TypeOf(int(0)), "int8": reflect.TypeOf(int8(0)), "int16": reflect.TypeOf(int16(0)),
	"int32": reflect.TypeOf(int32(0)), "int64": reflect.TypeOf(int64(0)), "uint": reflect.TypeOf(uint(0)), "uint8": reflect.TypeOf(uint8(0)),
	"uint16": reflect.TypeOf(uint16(0)), "uint32": reflect.TypeOf(uint32(0)), "uint64": reflect.TypeOf(uint64(0)),
	"float32": reflect.TypeOf(float32(0)), "float64": reflect.TypeOf(float64(0)), "string": stringType,
}

var basicOrder = []string{"bool", "int", "int8", "int16", "int32", "int64", "uint", "uint8", "uint16", "uint32", "uint64", "float32", "float64", "string"}

var unsupTypes = map[string]reflect.Type{
	"chan": reflect.TypeOf(make(chan int)), "func": reflect.TypeOf(func() {}), "complex128": reflect.TypeOf(complex128(0)),
	"map[int]string": reflect.TypeOf(map[int]string{}), "uintptr": reflect.TypeOf(uintptr(0)),
}

var unsupOrder = []string{"chan", "func", "complex128", "map[int]string", "uintptr"}

// roster: name -> declared type. namedLeafs are the named types over a basic kind.
var roster = map[string]reflect.Type{}
var rosterByType = map[reflect.Type]string{}
var namedLeafs []string
var namedComposites []string

func addNamed(name string, v any, leaf bool) {
	rt := reflect.TypeOf(v)
	if rt.Kind() == reflect.Ptr && !strings.HasPrefix(name, "MyPtr") {
		rt = rt.Elem() // passed as (*T)(nil)
	}
	roster[name] = rt
	rosterByType[rt] = name
	if leaf {
		namedLeafs = append(namedLeafs, name)
	} else {
		namedComposites = append(namedComposites, name)
	}
}

func init() {
	addNamed("MyBool", MyBool(false), true)
	addNamed("MyInt", MyInt(0), true)
	addNamed("MyInt8", MyInt8(0), true)
	addNamed("MyInt16", MyInt16(0), true)
	addNamed("MyInt32", MyInt32(0), true)
	addNamed("MyInt64", MyInt64(0), true)
	addNamed("MyUint", MyUint(0), true)
	addNamed("MyUint8", MyUint8(0), true)
	addNamed("MyUint16", MyUint16(0), true)
	addNamed("MyUint32", MyUint32(0), true)
	addNamed("MyUint64", MyUint64(0), true)
	addNamed("MyFloat32", MyFloat32(0), true)
	addNamed("MyFloat64", MyFloat64(0), true)
	addNamed("MyString", MyString(""), true)
	addNamed("time.Duration", time.Duration(0), true)
	addNamed("time.Month", time.Month(0), true)
	addNamed("time.Weekday", time.Weekday(0), true)
	addNamed("fs.FileMode", fs.FileMode(0), true)
	// same bare names (and kinds) as types above, different package: see package twin
	addNamed("twin.Duration", twin.Duration(0), true)
	addNamed("twin.Month", twin.Month(0), true)
	addNamed("twin.Weekday", twin.Weekday(0), true)
	addNamed("twin.FileMode", twin.FileMode(0), true)
	addNamed("twin.MyInt", twin.MyInt(0), true)
	addNamed("twin.MyUint8", twin.MyUint8(0), true)
	addNamed("twin.MyFloat64", twin.MyFloat64(0), true)
	addNamed("twin.MyString", twin.MyString(""), true)
	addNamed("twin.MyBool", twin.MyBool(false), true)
	addNamed("MyErr", MyErr(""), true)
	addNamed("MyStr", MyStr(""), true)

	addNamed("MyBytes", MyBytes(nil), false)
	addNamed("MySlice", MySlice(nil), false)
	addNamed("MyStrs", MyStrs(nil), false)
	addNamed("MyMap", MyMap(nil), false)
	addNamed("MyArr", MyArr{}, false)
	addNamed("MyPtr", MyPtr(nil), false)
	addNamed("MyAny", (*MyAny)(nil), false)
	addNamed("MyDurs", MyDurs(nil), false)
	addNamed("MyNamedM", MyNamedM(nil), false)
	addNamed("MyInner", MyInner{}, false)
	addNamed("MyStruct", MyStruct{}, false)
	addNamed("MyNode", MyNode{}, false)
	addNamed("MyNamedS", MyNamedS{}, false)
	addNamed("MyPtrErr", MyPtrErr{}, false)
}

// ---------------------------------------------------------------------------------------
// T: serialisable description of a type (and, for interface positions, of the dynamic type held)

type T struct {
	K  string   `json:"k"`            // basic kind | time | any | error | iface | named | ptr | slice | array | map | struct | unsup
	N  string   `json:"n,omitempty"`  // roster name (named), unsupported kind name (unsup)
	E  *T       `json:"e,omitempty"`  // element / pointee / dynamic type held by an interface (any, iface; nil = JSON-like dynamic data)
	L  int      `json:"l,omitempty"`  // array length
	F  []T      `json:"f,omitempty"`  // struct fields
	FN []string `json:"fn,omitempty"` // struct field names (default F0, F1, ...)
}

func tb(k string) T         { return T{K: k} }
func tnamed(n string) T     { return T{K: "named", N: n} }
func tptr(e T) T            { return T{K: "ptr", E: &e} }
func tslice(e T) T          { return T{K: "slice", E: &e} }
func tarray(e T, n int) T   { return T{K: "array", E: &e, L: n} }
func tmap(e T) T            { return T{K: "map", E: &e} }
func tany(e T) T            { return T{K: "any", E: &e} }
func tstruct(fields ...T) T { return T{K: "struct", F: fields} }

func (t T) fieldName(i int) string {
	if i < len(t.FN) && t.FN[i] != "" {
		return t.FN[i]
	}
	return fmt.Sprintf("F%d", i)
}

func (t T) isBasic() bool { _, ok := basicTypes[t.K]; return ok }

// rtype returns the static Go type described by t.
func rtype(t T) reflect.Type {
	if bt, ok := basicTypes[t.K]; ok {
		return bt
	}
	switch t.K {
	case "time":
		return timeType
	case "any":
		return anyType
	case "error":
		return errorType
	case "iface":
		return stringerType
	case "unsup":
		return unsupTypes[t.N]
	case "named":
		rt, ok := roster[t.N]
		if !ok {
			panic("c08: unknown roster type " + t.N)
		}
		return rt
	case "ptr":
		return reflect.PointerTo(rtype(*t.E))
	case "slice":
		return reflect.SliceOf(rtype(*t.E))
	case "array":
		return reflect.ArrayOf(t.L, rtype(*t.E))
	case "map":
		return reflect.MapOf(stringType, rtype(*t.E))
	case "struct":
		fs := make([]reflect.StructField, len(t.F))
		for i, f := range t.F {
			fs[i] = reflect.StructField{Name: t.fieldName(i), Type: rtype(f)}
		}
		return reflect.StructOf(fs)
	}
	panic("c08: bad type kind " + t.K)
}

// fromRType describes a Go type (roster types become named nodes).
func fromRType(rt reflect.Type) T {
	if n, ok := rosterByType[rt]; ok {
		return tnamed(n)
	}
	switch rt {
	case timeType:
		return tb("time")
	case errorType:
		return tb("error")
	case anyType:
		return tb("any")
	case stringerType:
		return tb("iface")
	}
	for n, u := range unsupTypes {
		if u == rt {
			return T{K: "unsup", N: n}
		}
	}
	if rt.PkgPath() == "" {
		if bt, ok := basicTypes[rt.Kind().String()]; ok && bt == rt {
			return tb(rt.Kind().String())
		}
	}
	switch rt.Kind() {
	case reflect.Ptr:
		return tptr(fromRType(rt.Elem()))
	case reflect.Slice:
		return tslice(fromRType(rt.Elem()))
	case reflect.Array:
		return tarray(fromRType(rt.Elem()), rt.Len())
	case reflect.Map:
		if rt.Key() == stringType {
			return tmap(fromRType(rt.Elem()))
		}
	case reflect.Struct:
		if rt.Name() == "" {
			t := T{K: "struct"}
			for i := 0; i < rt.NumField(); i++ {
				f := rt.Field(i)
				t.F = append(t.F, fromRType(f.Type))
				t.FN = append(t.FN, f.Name)
			}
			return t
		}
	}
	panic(fmt.Sprintf("c08: cannot describe type %s", rt))
}

// underlying returns the unnamed type with the same structure as the roster type.
func underlying(rt reflect.Type) reflect.Type {
	if bt, ok := basicTypes[rt.Kind().String()]; ok {
		return bt
	}
	switch rt.Kind() {
	case reflect.Ptr:
		return reflect.PointerTo(rt.Elem())
	case reflect.Slice:
		return reflect.SliceOf(rt.Elem())
	case reflect.Array:
		return reflect.ArrayOf(rt.Len(), rt.Elem())
	case reflect.Map:
		return reflect.MapOf(rt.Key(), rt.Elem())
	case reflect.Interface:
		if rt.NumMethod() == 0 {
			return anyType
		}
	case reflect.Struct:
		fs := make([]reflect.StructField, 0, rt.NumField())
		for i := 0; i < rt.NumField(); i++ {
			f := rt.Field(i)
			if !f.IsExported() {
				panic("c08: roster struct with unexported field: " + rt.String())
			}
			fs = append(fs, reflect.StructField{Name: f.Name, Type: f.Type})
		}
		return reflect.StructOf(fs)
	}
	panic("c08: no underlying type for " + rt.String())
}

// under describes the underlying type of a named node.
func under(t T) T { return fromRType(underlying(roster[t.N])) }

// children lists the immediate component types (used by the minimiser).
func children(t T) []T {
	switch t.K {
	case "named":
		return []T{under(t)}
	case "ptr", "slice", "array", "map":
		return []T{*t.E}
	case "any", "iface":
		if t.E != nil {
			return []T{*t.E}
		}
	case "struct":
		return append([]T{}, t.F...)
	}
	return nil
}

// path renders the constructor path; fold=true folds the sized kinds into classes (int, uint, float)
// so that one root cause gives one signature.
func path(t T, fold bool) string { return pathRec(t, fold, map[string]bool{}) }

func pathRec(t T, fold bool, seen map[string]bool) string {
	if t.isBasic() {
		if fold {
			switch {
			case strings.HasPrefix(t.K, "int"):
				return "int"
			case strings.HasPrefix(t.K, "uint"):
				return "uint"
			case strings.HasPrefix(t.K, "float"):
				return "float"
			}
		}
		return t.K
	}
	switch t.K {
	case "time", "error":
		return t.K
	case "any":
		if t.E == nil {
			return "any"
		}
		return "any(" + pathRec(*t.E, fold, seen) + ")"
	case "iface":
		if t.E == nil {
			return "iface"
		}
		return "iface(" + pathRec(*t.E, fold, seen) + ")"
	case "unsup":
		if fold {
			return "unsupported-kind"
		}
		return "unsupported(" + t.N + ")"
	case "named":
		if seen[t.N] {
			return "named(…)"
		}
		seen[t.N] = true
		if u := under(t); fold && u.isBasic() {
			delete(seen, t.N)
			return "named(basic)"
		}
		s := "named(" + pathRec(under(t), fold, seen) + ")"
		delete(seen, t.N)
		return s
	case "ptr", "slice", "map":
		return t.K + "(" + pathRec(*t.E, fold, seen) + ")"
	case "array":
		if fold {
			return "array(" + pathRec(*t.E, fold, seen) + ")"
		}
		return fmt.Sprintf("array%d(%s)", t.L, pathRec(*t.E, fold, seen))
	case "struct":
		parts := make([]string, len(t.F))
		for i, f := range t.F {
			parts[i] = pathRec(f, fold, seen)
		}
		if fold {
			// field order and repetition do not matter for the class of a failure
			sort.Strings(parts)
			out := parts[:0]
			for i, p := range parts {
				if i == 0 || p != parts[i-1] {
					out = append(out, p)
				}
			}
			parts = out
		}
		return "struct{" + strings.Join(parts, ",") + "}"
	}
	return "?" + t.K
}

// depth counts constructor applications over a base kind.
func depth(t T) int {
	switch t.K {
	case "named":
		return 1 + depthNoNamed(under(t), 0)
	case "ptr", "slice", "array", "map":
		return 1 + depth(*t.E)
	case "any", "iface":
		if t.E != nil {
			return 1 + depth(*t.E)
		}
		return 0
	case "struct":
		m := 0
		for _, f := range t.F {
			if d := depth(f); d > m {
				m = d
			}
		}
		return 1 + m
	}
	return 0
}

func depthNoNamed(t T, guard int) int {
	if guard > 4 {
		return 0
	}
	switch t.K {
	case "named":
		return 1 + depthNoNamed(under(t), guard+1)
	case "ptr", "slice", "array", "map":
		return 1 + depthNoNamed(*t.E, guard+1)
	case "struct":
		m := 0
		for _, f := range t.F {
			if d := depthNoNamed(f, guard+1); d > m {
				m = d
			}
		}
		return 1 + m
	}
	return 0
}
