package c08

import (
	"context"
	"fmt"
	"reflect"
	"strconv"
	"strings"

	"github.com/risor-io/risor/object"

	"verif/internal/mon"
)

// Sequence scenarios for proxies. A single crossing cannot tell a proxy that reads the Go struct
// from one that remembers what it saw earlier, so here a script accesses members of one Go struct
// several times while GO code changes that struct between the accesses, in every way Go can:
// re-point pointer members, replace slices and maps, set to nil and back, swap two members, change
// in place. The Go code runs either as a method the script calls in the middle of one evaluation
// (mode "method") or as host code between evaluations that share one *object.Proxy (mode "host").
//
// Oracle (the pinned relation of canon.go, applied at every step against the CURRENT Go state):
// what the script reads has the contents of what Go holds at that path now (and for a pointer to a
// struct the proxy wraps the pointer Go holds now); what the script writes is what Go reads at that
// path afterwards. A clean error is accepted (the step is then not observed), a Go panic is not.
// Every access is a full path from the root; member proxies are not kept in script variables
// across Go changes (what such a variable should alias is not pinned by the statement).

type SeqLeaf struct {
	N    int
	Name string
}

type SeqMid struct {
	L SeqLeaf
	P *SeqLeaf
	S []int
}

// SeqNode is the struct the scripts see. Mutate is the Go code that changes it.
type SeqNode struct {
	Cur      *SeqLeaf
	Alt      *SeqLeaf
	Val      SeqLeaf
	Val2     SeqLeaf
	Items    []int
	Leaves   []*SeqLeaf
	LeafVals []SeqLeaf
	M        map[string]int
	PM       map[string]*SeqLeaf
	Mid      SeqMid
	PMid     *SeqMid
	Any      any
	PN       *int
	N        int

	gen      int
	progress int
}

func (n *SeqNode) fresh() *SeqLeaf {
	n.gen++
	return &SeqLeaf{N: 1000 + n.gen*7, Name: fmt.Sprintf("gen%d", n.gen)}
}

func newSeqRoot() *SeqNode {
	n := &SeqNode{}
	n.Cur, n.Alt = n.fresh(), n.fresh()
	n.Val, n.Val2 = *n.fresh(), *n.fresh()
	n.Items = []int{11, 12, 13}
	n.Leaves = []*SeqLeaf{n.fresh(), n.fresh()}
	n.LeafVals = []SeqLeaf{*n.fresh(), *n.fresh()}
	n.M = map[string]int{"a": 1, "b": 2}
	n.PM = map[string]*SeqLeaf{"a": n.fresh(), "b": n.fresh()}
	n.Mid = SeqMid{L: *n.fresh(), P: n.fresh(), S: []int{21, 22}}
	n.PMid = &SeqMid{L: *n.fresh(), P: n.fresh(), S: []int{31}}
	n.Any = n.fresh()
	pn := 41
	n.PN = &pn
	n.N = 51
	return n
}

// Mutate applies one Go-side change. It reports false when the change does not apply to the
// current state (e.g. in-place change of a nil pointee); the state is then untouched.
func (n *SeqNode) Mutate(op string) bool {
	n.progress++
	n.gen++
	g := n.gen
	switch op {
	case "cur-repoint":
		n.Cur = n.fresh()
	case "cur-nil":
		n.Cur = nil
	case "cur-swap-alt":
		n.Cur, n.Alt = n.Alt, n.Cur
	case "cur-inplace":
		if n.Cur == nil {
			return false
		}
		n.Cur.N += 3
		n.Cur.Name += "'"
	case "val-replace":
		n.Val = *n.fresh()
	case "val-swap-val2":
		n.Val, n.Val2 = n.Val2, n.Val
	case "val-inplace":
		n.Val.N += 3
	case "items-replace":
		n.Items = []int{g, g + 1}
	case "items-append":
		n.Items = append(n.Items, g)
	case "items-inplace":
		if len(n.Items) == 0 {
			return false
		}
		n.Items[0] += 5
	case "items-nil":
		n.Items = nil
	case "leaves-replace":
		n.Leaves = []*SeqLeaf{n.fresh()}
	case "leaves-elem-repoint":
		if len(n.Leaves) == 0 {
			return false
		}
		n.Leaves[0] = n.fresh()
	case "leaves-elem-inplace":
		if len(n.Leaves) == 0 || n.Leaves[0] == nil {
			return false
		}
		n.Leaves[0].N += 3
	case "leaves-nil":
		n.Leaves = nil
	case "leafvals-replace":
		n.LeafVals = []SeqLeaf{*n.fresh()}
	case "leafvals-inplace":
		if len(n.LeafVals) == 0 {
			return false
		}
		n.LeafVals[0].N += 3
	case "m-replace":
		n.M = map[string]int{"a": g, "c": g + 1}
	case "m-setkey":
		if n.M == nil {
			return false
		}
		n.M["a"] = g
	case "m-delkey":
		if n.M == nil {
			return false
		}
		delete(n.M, "b")
	case "m-nil":
		n.M = nil
	case "pm-replace":
		n.PM = map[string]*SeqLeaf{"a": n.fresh()}
	case "pm-key-repoint":
		if n.PM == nil {
			return false
		}
		n.PM["a"] = n.fresh()
	case "pm-inplace":
		if n.PM == nil || n.PM["a"] == nil {
			return false
		}
		n.PM["a"].N += 3
	case "mid-replace":
		n.Mid = SeqMid{L: *n.fresh(), P: n.fresh(), S: []int{g}}
	case "mid-p-repoint":
		n.Mid.P = n.fresh()
	case "mid-p-nil":
		n.Mid.P = nil
	case "mid-l-inplace":
		n.Mid.L.N += 3
	case "mid-p-inplace":
		if n.Mid.P == nil {
			return false
		}
		n.Mid.P.N += 3
	case "pmid-repoint":
		n.PMid = &SeqMid{L: *n.fresh(), P: n.fresh(), S: []int{g}}
	case "pmid-nil":
		n.PMid = nil
	case "pmid-p-repoint":
		if n.PMid == nil {
			return false
		}
		n.PMid.P = n.fresh()
	case "pmid-inplace":
		if n.PMid == nil {
			return false
		}
		n.PMid.L.N += 3
		if n.PMid.P != nil {
			n.PMid.P.Name += "'"
		}
	case "any-leaf-repoint":
		n.Any = n.fresh()
	case "any-to-int":
		n.Any = g
	case "any-nil":
		n.Any = nil
	case "any-inplace":
		l, ok := n.Any.(*SeqLeaf)
		if !ok || l == nil {
			return false
		}
		l.N += 3
	case "pn-repoint":
		v := g
		n.PN = &v
	case "pn-inplace":
		if n.PN == nil {
			return false
		}
		*n.PN += 3
	case "pn-nil":
		n.PN = nil
	case "n-set":
		n.N = g
	default:
		panic("c08: unknown mutation " + op)
	}
	return true
}

// ---------------------------------------------------------------------------------------
// scenarios

// wval is a value the script writes.
type wval struct {
	K string `json:"k"` // int str other nil list leaves map
	I int64  `json:"i,omitempty"`
	S string `json:"s,omitempty"`
}

// seqStep: R = script reads Path, W = script writes Val to Path, G = Go mutation.
// Path segments: "Name" member, "#i" index, "@k" key.
type seqStep struct {
	Op   string   `json:"op"`
	Path []string `json:"path,omitempty"`
	Val  *wval    `json:"val,omitempty"`
	Go   string   `json:"go,omitempty"`
}

type seqScenario struct {
	Mode  string    `json:"mode"` // method | host
	Steps []seqStep `json:"steps"`
}

func renderPath(p []string) string {
	var b strings.Builder
	for i, s := range p {
		switch {
		case strings.HasPrefix(s, "#"):
			b.WriteString("[" + s[1:] + "]")
		case strings.HasPrefix(s, "@"):
			b.WriteString("[" + strconv.Quote(s[1:]) + "]")
		default:
			if i > 0 {
				b.WriteString(".")
			}
			b.WriteString(s)
		}
	}
	return b.String()
}

func (s seqStep) String() string {
	switch s.Op {
	case "R":
		return "R:" + renderPath(s.Path)
	case "W":
		return "W:" + renderPath(s.Path) + "=" + s.Val.K
	}
	return "G:" + s.Go
}

func (sc seqScenario) String() string {
	parts := make([]string, len(sc.Steps))
	for i, s := range sc.Steps {
		parts[i] = s.String()
	}
	return strings.Join(parts, " ")
}

// resolve walks a path from the root through plain Go. ok=false when the path does not exist in
// the current state (nil on the way, index or key missing).
func resolve(root *SeqNode, p []string) (reflect.Value, bool) {
	v := reflect.ValueOf(root)
	for _, s := range p {
		for v.Kind() == reflect.Ptr || v.Kind() == reflect.Interface {
			if v.IsNil() {
				return reflect.Value{}, false
			}
			v = v.Elem()
		}
		switch {
		case strings.HasPrefix(s, "#"):
			i, _ := strconv.Atoi(s[1:])
			if v.Kind() != reflect.Slice || i >= v.Len() {
				return reflect.Value{}, false
			}
			v = v.Index(i)
		case strings.HasPrefix(s, "@"):
			if v.Kind() != reflect.Map || v.IsNil() {
				return reflect.Value{}, false
			}
			v = v.MapIndex(reflect.ValueOf(s[1:]))
			if !v.IsValid() {
				return reflect.Value{}, false
			}
		default:
			if v.Kind() != reflect.Struct {
				return reflect.Value{}, false
			}
			v = v.FieldByName(s)
			if !v.IsValid() {
				return reflect.Value{}, false
			}
		}
	}
	return v, true
}

// goValue builds, for the model, the Go value a script write should leave in a position of type rt.
func goValue(w wval, rt reflect.Type, other *SeqLeaf) (reflect.Value, bool) {
	switch w.K {
	case "nil":
		return reflect.Zero(rt), true
	case "int":
		switch rt.Kind() {
		case reflect.Int:
			return reflect.ValueOf(int(w.I)), true
		case reflect.Interface:
			return reflect.ValueOf(w.I), true
		case reflect.Ptr:
			if rt.Elem().Kind() == reflect.Int {
				v := int(w.I)
				return reflect.ValueOf(&v), true
			}
		}
	case "str":
		if rt.Kind() == reflect.String {
			return reflect.ValueOf(w.S), true
		}
	case "other":
		switch {
		case rt == reflect.TypeOf(other) || rt.Kind() == reflect.Interface:
			return reflect.ValueOf(other), true
		case rt == reflect.TypeOf(*other):
			return reflect.ValueOf(*other), true
		}
	case "list":
		if rt == reflect.TypeOf([]int(nil)) {
			return reflect.ValueOf([]int{int(w.I), int(w.I) + 1}), true
		}
	case "leaves":
		if rt == reflect.TypeOf([]*SeqLeaf(nil)) {
			return reflect.ValueOf([]*SeqLeaf{other}), true
		}
	case "map":
		if rt == reflect.TypeOf(map[string]int(nil)) {
			return reflect.ValueOf(map[string]int{"a": int(w.I), "z": int(w.I) + 1}), true
		}
	}
	return reflect.Value{}, false
}

// scriptValue builds the risor value for a write.
func scriptValue(w wval, otherProxy object.Object) object.Object {
	switch w.K {
	case "nil":
		return object.Nil
	case "int":
		return object.NewInt(w.I)
	case "str":
		return object.NewString(w.S)
	case "other":
		return otherProxy
	case "list":
		return object.NewList([]object.Object{object.NewInt(w.I), object.NewInt(w.I + 1)})
	case "leaves":
		return object.NewList([]object.Object{otherProxy})
	case "map":
		return object.NewMap(map[string]object.Object{"a": object.NewInt(w.I), "z": object.NewInt(w.I + 1)})
	}
	panic("c08: bad write value " + w.K)
}

// applyModel applies one step to a model root with plain Go; false = the step is not valid in the
// current state (it would go through nil, or the mutation does not apply).
func applyModel(m *SeqNode, other *SeqLeaf, s seqStep) bool {
	switch s.Op {
	case "G":
		return m.Mutate(s.Go)
	case "R":
		_, ok := resolve(m, s.Path)
		return ok
	case "W":
		v, ok := resolve(m, s.Path)
		if !ok || !v.CanSet() {
			return false
		}
		gv, ok := goValue(*s.Val, v.Type(), other)
		if !ok {
			return false
		}
		v.Set(gv)
		return true
	}
	return false
}

// validate drops the steps that are not valid when the scenario is played on a model.
func validate(steps []seqStep) []seqStep {
	m := newSeqRoot()
	other := &SeqLeaf{N: 900, Name: "other"}
	var out []seqStep
	for _, s := range steps {
		if applyModel(m, other, s) {
			out = append(out, s)
		}
	}
	return out
}

func allValid(steps []seqStep) bool { return len(validate(steps)) == len(steps) }

type seqFamily struct {
	Name   string
	Reads  [][]string
	Writes []seqStep
	Ops    []string
	NilOps []string
}

func wr(val wval, p ...string) seqStep { return seqStep{Op: "W", Path: p, Val: &val} }

func seqFamilies() []seqFamily {
	i := func(n int64) wval { return wval{K: "int", I: n} }
	s := func(x string) wval { return wval{K: "str", S: x} }
	other := wval{K: "other"}
	return []seqFamily{
		{Name: "Cur", Reads: [][]string{{"Cur"}, {"Cur", "N"}, {"Cur", "Name"}},
			Writes: []seqStep{wr(i(555), "Cur", "N"), wr(s("w"), "Cur", "Name"), wr(other, "Cur"), wr(wval{K: "nil"}, "Cur")},
			Ops:    []string{"cur-repoint", "cur-swap-alt", "cur-inplace"}, NilOps: []string{"cur-nil"}},
		{Name: "Val", Reads: [][]string{{"Val"}, {"Val", "N"}},
			Writes: []seqStep{wr(i(556), "Val", "N"), wr(s("w"), "Val", "Name"), wr(other, "Val")},
			Ops:    []string{"val-replace", "val-swap-val2", "val-inplace"}},
		{Name: "Items", Reads: [][]string{{"Items"}, {"Items", "#0"}},
			Writes: []seqStep{wr(wval{K: "list", I: 70}, "Items")},
			Ops:    []string{"items-replace", "items-append", "items-inplace"}, NilOps: []string{"items-nil"}},
		{Name: "Leaves", Reads: [][]string{{"Leaves"}, {"Leaves", "#0"}, {"Leaves", "#0", "N"}},
			Writes: []seqStep{wr(i(557), "Leaves", "#0", "N"), wr(wval{K: "leaves"}, "Leaves")},
			Ops:    []string{"leaves-replace", "leaves-elem-repoint", "leaves-elem-inplace"}, NilOps: []string{"leaves-nil"}},
		{Name: "LeafVals", Reads: [][]string{{"LeafVals"}, {"LeafVals", "#0", "N"}},
			Ops: []string{"leafvals-replace", "leafvals-inplace"}},
		{Name: "M", Reads: [][]string{{"M"}, {"M", "@a"}},
			Writes: []seqStep{wr(wval{K: "map", I: 80}, "M")},
			Ops:    []string{"m-replace", "m-setkey", "m-delkey"}, NilOps: []string{"m-nil"}},
		{Name: "PM", Reads: [][]string{{"PM", "@a"}, {"PM", "@a", "N"}},
			Writes: []seqStep{wr(i(558), "PM", "@a", "N")},
			Ops:    []string{"pm-replace", "pm-key-repoint", "pm-inplace"}},
		{Name: "Mid", Reads: [][]string{{"Mid"}, {"Mid", "L", "N"}, {"Mid", "P"}, {"Mid", "P", "N"}, {"Mid", "S"}},
			Writes: []seqStep{wr(i(559), "Mid", "L", "N"), wr(i(560), "Mid", "P", "N"), wr(other, "Mid", "P"), wr(wval{K: "list", I: 90}, "Mid", "S")},
			Ops:    []string{"mid-replace", "mid-p-repoint", "mid-l-inplace", "mid-p-inplace"}, NilOps: []string{"mid-p-nil"}},
		{Name: "PMid", Reads: [][]string{{"PMid"}, {"PMid", "L", "N"}, {"PMid", "P"}, {"PMid", "P", "Name"}},
			Writes: []seqStep{wr(i(561), "PMid", "L", "N"), wr(i(562), "PMid", "P", "N"), wr(other, "PMid", "P")},
			Ops:    []string{"pmid-repoint", "pmid-p-repoint", "pmid-inplace"}, NilOps: []string{"pmid-nil"}},
		{Name: "Any", Reads: [][]string{{"Any"}, {"Any", "N"}},
			Writes: []seqStep{wr(i(563), "Any", "N"), wr(i(564), "Any"), wr(other, "Any")},
			Ops:    []string{"any-leaf-repoint", "any-to-int", "any-inplace"}, NilOps: []string{"any-nil"}},
		{Name: "PN", Reads: [][]string{{"PN"}, {"N"}},
			Writes: []seqStep{wr(i(565), "PN"), wr(i(566), "N")},
			Ops:    []string{"pn-repoint", "pn-inplace", "n-set"}, NilOps: []string{"pn-nil"}},
	}
}

// enumerated scenarios: per family, every Go change (and every "nil, then X" pair) between two
// reads of every read path, followed by every write, a read of what was written and the read path
// again.
func enumeratedScenarios() []seqScenario {
	var out []seqScenario
	seen := map[string]bool{}
	for _, f := range seqFamilies() {
		var gseqs [][]string
		for _, g := range append(append([]string{}, f.Ops...), f.NilOps...) {
			gseqs = append(gseqs, []string{g})
		}
		for _, n := range f.NilOps {
			for _, g := range f.Ops {
				gseqs = append(gseqs, []string{n, g})
			}
		}
		writes := append([]seqStep{{}}, f.Writes...)
		for _, gs := range gseqs {
			for _, r := range f.Reads {
				for _, w := range writes {
					// with and without a second read between the Go change and the write (a write
					// that goes through a member first read before the change must land in the
					// current Go state as well)
					for _, reread := range []bool{true, false} {
						if !reread && w.Op == "" {
							continue
						}
						steps := []seqStep{{Op: "R", Path: r}}
						for _, g := range gs {
							steps = append(steps, seqStep{Op: "G", Go: g})
						}
						if reread {
							steps = append(steps, seqStep{Op: "R", Path: r})
						}
						if w.Op != "" {
							steps = append(steps, w, seqStep{Op: "R", Path: w.Path}, seqStep{Op: "R", Path: r})
						}
						steps = validate(steps)
						for _, mode := range []string{"method", "host"} {
							sc := seqScenario{Mode: mode, Steps: steps}
							if k := mode + " " + sc.String(); !seen[k] {
								seen[k] = true
								out = append(out, sc)
							}
						}
					}
				}
			}
		}
	}
	return out
}

// randomScenario mixes the families in one longer sequence.
func randomScenario(r *mon.Rand) seqScenario {
	fams := seqFamilies()
	var steps []seqStep
	n := r.Range(8, 18)
	for len(steps) < n {
		f := mon.Pick(r, fams)
		switch k := r.Intn(10); {
		case k < 4:
			steps = append(steps, seqStep{Op: "R", Path: mon.Pick(r, f.Reads)})
		case k < 7:
			steps = append(steps, seqStep{Op: "G", Go: mon.Pick(r, append(append([]string{}, f.Ops...), f.NilOps...))})
		default:
			if len(f.Writes) > 0 {
				w := mon.Pick(r, f.Writes)
				steps = append(steps, w, seqStep{Op: "R", Path: w.Path})
			}
		}
	}
	return seqScenario{Mode: mon.Pick(r, []string{"method", "host"}), Steps: validate(steps)}
}

// ---------------------------------------------------------------------------------------
// execution

type seqResult struct {
	Step     int // index of the failing step, -1 = none
	Kind     string
	Detail   string
	Observed int // steps whose outcome was compared
	Rejected int
}

// judgeRead compares what the script got for a path with the current Go state.
func judgeRead(root *SeqNode, p []string, obj object.Object) res {
	cur, ok := resolve(root, p)
	if !ok {
		return skip("path does not exist in the current Go state")
	}
	jr := judgeObj(canonGo(cur, 0), obj, "script-sees-", "node."+renderPath(p), false)
	if jr.Status != "converted" {
		return jr
	}
	// a pointer to a struct: the proxy must wrap the pointer Go holds now
	pv := cur
	for pv.Kind() == reflect.Interface && !pv.IsNil() {
		pv = pv.Elem()
	}
	if pv.Kind() == reflect.Ptr && !pv.IsNil() && pv.Elem().Kind() == reflect.Struct {
		if px, ok := obj.(*object.Proxy); ok {
			iv := reflect.ValueOf(px.Interface())
			if iv.Kind() != reflect.Ptr || iv.Pointer() != pv.Pointer() {
				return failed("script-sees-other-object", "node."+renderPath(p)+": the proxy wraps another object than the one the Go member points to now (equal contents)")
			}
		}
	}
	return converted()
}

// judgeWrite checks that Go reads, at the path, what the script wrote.
func judgeWrite(root *SeqNode, s seqStep, a object.Object, other *SeqLeaf) res {
	cur, ok := resolve(root, s.Path)
	if !ok {
		return failed("go-reads-nothing", "node."+renderPath(s.Path)+" does not exist in Go after the script wrote it")
	}
	if cls, d := diff(canonObj(a, 0), canonGo(cur, 0), "Go reads node."+renderPath(s.Path)+" after the script wrote it"); cls != "" {
		return failed("go-reads-"+cls, d)
	}
	if s.Val.K == "other" {
		pv := cur
		for pv.Kind() == reflect.Interface && !pv.IsNil() {
			pv = pv.Elem()
		}
		if pv.Kind() == reflect.Ptr && pv.Pointer() != reflect.ValueOf(other).Pointer() {
			return failed("go-reads-other-object", "node."+renderPath(s.Path)+": Go does not hold the pointer the script assigned")
		}
	}
	return converted()
}

// runSeq plays one scenario against the real code on a fresh root. It stops at the first failure.
func runSeq(sc seqScenario) (out seqResult) {
	out.Step = -1
	defer func() {
		if p := recover(); p != nil {
			out = seqResult{Step: -2, Kind: "harness-panic", Detail: fmt.Sprint(p)}
		}
	}()
	root := newSeqRoot()
	other := &SeqLeaf{N: 900, Name: "other"}
	otherProxy, err := object.NewProxy(other)
	if err != nil {
		return seqResult{Step: -2, Kind: "harness-panic", Detail: "cannot proxy the spare leaf: " + err.Error()}
	}
	fail := func(i int, r res) seqResult {
		return seqResult{Step: i, Kind: baseKind(r.Kind), Detail: fmt.Sprintf("step %d (%s): %s", i, sc.Steps[i], r.Detail), Observed: out.Observed, Rejected: out.Rejected}
	}
	note := func(i int, r res) bool { // true = failure
		switch r.Status {
		case "converted":
			out.Observed++
		case "rejected":
			out.Rejected++
		case "fail":
			return true
		}
		return false
	}

	if sc.Mode == "host" {
		proxy, err := object.NewProxy(root)
		if err != nil {
			return seqResult{Step: -2, Kind: "harness-panic", Detail: "cannot proxy the root: " + err.Error()}
		}
		for i, s := range sc.Steps {
			switch s.Op {
			case "G":
				root.Mutate(s.Go)
			case "R":
				if _, ok := resolve(root, s.Path); !ok {
					continue
				}
				obj, err, pan := evalSafe("node."+renderPath(s.Path), map[string]any{"node": proxy})
				r, ok := evalOutcome(obj, err, pan, "")
				if ok {
					r = judgeRead(root, s.Path, obj)
				}
				if note(i, r) {
					return fail(i, r)
				}
			case "W":
				if _, ok := resolve(root, s.Path); !ok {
					continue
				}
				a := scriptValue(*s.Val, otherProxy)
				before, _ := resolve(root, s.Path)
				beforeNode := canonGo(before, 0)
				obj, err, pan := evalSafe("node."+renderPath(s.Path)+" = a", map[string]any{"node": proxy, "a": a})
				r, ok := evalOutcome(obj, err, pan, "")
				if ok {
					r = judgeWrite(root, s, a, other)
				} else if r.Status == "rejected" {
					// a refused write must leave the Go member as it was
					if after, ok := resolve(root, s.Path); ok {
						if cls, d := diff(beforeNode, canonGo(after, 0), "node."+renderPath(s.Path)+" after a refused write"); cls != "" {
							r = failed("refused-write-changed-go-"+cls, d)
						}
					}
				}
				if note(i, r) {
					return fail(i, r)
				}
			}
		}
		return out
	}

	// mode "method": one script; reads and writes are judged by builtins at the moment they
	// happen, Go changes are method calls on the proxy.
	var first *seqResult
	globals := map[string]any{"node": root, "other": otherProxy}
	done := 0
	globals["rec"] = object.NewBuiltin("rec", func(ctx context.Context, args ...object.Object) object.Object {
		i := int(args[0].(*object.Int).Value())
		done = i + 1
		if first == nil {
			if r := judgeRead(root, sc.Steps[i].Path, args[1]); note(i, r) {
				f := fail(i, r)
				first = &f
			}
		}
		return object.Nil
	})
	globals["chk"] = object.NewBuiltin("chk", func(ctx context.Context, args ...object.Object) object.Object {
		i := int(args[0].(*object.Int).Value())
		done = i + 1
		if first == nil {
			if r := judgeWrite(root, sc.Steps[i], args[1], other); note(i, r) {
				f := fail(i, r)
				first = &f
			}
		}
		return object.Nil
	})
	globals["went"] = object.NewBuiltin("went", func(ctx context.Context, args ...object.Object) object.Object {
		done = int(args[0].(*object.Int).Value()) + 1
		return object.Nil
	})
	var src strings.Builder
	for i, s := range sc.Steps {
		switch s.Op {
		case "G":
			fmt.Fprintf(&src, "node.Mutate(%q)\nwent(%d)\n", s.Go, i)
		case "R":
			fmt.Fprintf(&src, "rec(%d, node.%s)\n", i, renderPath(s.Path))
		case "W":
			name := fmt.Sprintf("w%d", i)
			globals[name] = scriptValue(*s.Val, otherProxy)
			fmt.Fprintf(&src, "node.%s = %s\nchk(%d, %s)\n", renderPath(s.Path), name, i, name)
		}
	}
	obj, err, pan := evalSafe(src.String(), globals)
	if first != nil {
		return *first
	}
	if r, ok := evalOutcome(obj, err, pan, ""); !ok {
		at := done
		if at >= len(sc.Steps) {
			at = len(sc.Steps) - 1
		}
		if r.Status == "fail" {
			return fail(at, r)
		}
		out.Rejected++ // a clean error ends the script; the remaining steps are not observed
	}
	return out
}

// shrinkSeq removes every step that is not needed for the same failure kind at the last step.
func shrinkSeq(sc seqScenario, fr seqResult) (seqScenario, seqResult) {
	if fr.Step < 0 || fr.Step >= len(sc.Steps) {
		return sc, fr
	}
	cur := seqScenario{Mode: sc.Mode, Steps: append([]seqStep{}, sc.Steps[:fr.Step+1]...)}
	curRes := fr
	for i := len(cur.Steps) - 2; i >= 0; i-- {
		cand := seqScenario{Mode: cur.Mode}
		cand.Steps = append(append([]seqStep{}, cur.Steps[:i]...), cur.Steps[i+1:]...)
		if !allValid(cand.Steps) {
			continue
		}
		r := runSeq(cand)
		if r.Step == len(cand.Steps)-1 && r.Kind == fr.Kind {
			cur, curRes = cand, r
		}
	}
	return cur, curRes
}

func seqSignature(sc seqScenario, kind string) string {
	return "seq[" + sc.String() + "]@" + sc.Mode + ":" + kind
}

// runSeqCase runs a batch of scenarios for the worker.
func runSeqCase(scs []seqScenario, out *workerOut) {
	seen := map[string]bool{}
	for _, sc := range scs {
		r := runSeq(sc)
		if r.Kind == "harness-panic" {
			out.Notes = append(out.Notes, "harness panic in sequence "+sc.String()+": "+r.Detail)
			continue
		}
		out.Evals += r.Observed + r.Rejected
		out.Events["seq-"+sc.Mode+":converted"] += r.Observed
		out.Events["seq-"+sc.Mode+":rejected"] += r.Rejected
		if r.Observed > 0 {
			out.Distinct = append(out.Distinct, "seq["+sc.String()+"] @ "+sc.Mode)
		}
		if r.Step < 0 {
			continue
		}
		out.Evals++
		out.Events["seq-"+sc.Mode+":fail"]++
		msc, mr := shrinkSeq(sc, r)
		sig := seqSignature(msc, mr.Kind)
		if seen[sig] {
			continue
		}
		seen[sig] = true
		detail := "sequence (" + sc.Mode + "): " + sc.String() + "\n" + r.Detail
		if msc.String() != sc.String() {
			detail += "\nminimal sequence: " + msc.String() + "\n" + mr.Detail
		}
		scc := sc
		out.Viols = append(out.Viols, Viol{Sig: sig, Detail: detail, Case: caseData{Seq: []seqScenario{scc}}})
	}
}
