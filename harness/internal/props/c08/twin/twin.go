// Package twin declares named types whose unqualified names collide with named types of other
// packages in the C08 roster (time.Duration, time.Month, fs.FileMode, c08.MyInt, ...). Go types
// are identified by package path + name; a converter cache or registry keyed by the bare name
// (or by name + kind) confuses them, which only shows once both twins cross the boundary in one
// process.
package twin

type (
	Duration  int64
	Month     int
	Weekday   int
	FileMode  uint32
	MyInt     int
	MyUint8   uint8
	MyFloat64 float64
	MyString  string
	MyBool    bool
)
