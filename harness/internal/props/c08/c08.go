// Package c08: Go values cross the host/script boundary faithfully or are rejected cleanly
// (round-trip monitor over generated Go types).
//
// Types are generated as constructor terms (types.go) over the base kinds and a roster of declared
// named types, realised with reflect.{StructOf,SliceOf,ArrayOf,MapOf,PointerTo}; a value is a
// function of (type, variant) (values.go). Every (type, value) is sent over every route that
// exists for it (routes.go) against the real code: as a global, as a struct field read and written
// by a script, as argument and result of Go methods called through a proxy. The oracle is the
// pinned representation relation (canon.go): a Go value and a script value have equal contents
// when they agree after forgetting Go type names, integer widths, pointer-ness and nil-vs-empty.
// Never a Go panic (neither out of risor.Eval nor recovered by the VM and returned as "panic: ..."),
// either a clean error or equal contents in the script, through Interface(), and on the Go side
// after the script handed the value back. Failures are shrunk to the minimal type that still
// fails the same way; the signature is <minimal path>[value class]@route:kind.
package c08

import (
	"encoding/json"
	"fmt"
	"reflect"
	"sort"
	"strings"

	"verif/internal/mon"
)

const ID = "C08"

func Register() {
	mon.Register(&mon.Prop{ID: ID, Drive: drive})
	mon.RegisterWorker(ID, worker)
}

// ---------------------------------------------------------------------------------------
// worker

type caseData struct {
	T       *T            `json:"t,omitempty"`
	Variant string        `json:"variant,omitempty"` // set in replays: one triple only
	Route   string        `json:"route,omitempty"`
	Special string        `json:"special,omitempty"`
	Seq     []seqScenario `json:"seq,omitempty"` // sequence scenarios (seq.go)
}

type Viol struct {
	Sig    string   `json:"sig"`
	Detail string   `json:"detail"`
	Case   caseData `json:"case"`
}

type workerOut struct {
	Evals    int            `json:"evals"`
	Events   map[string]int `json:"events"`
	Distinct []string       `json:"distinct"`
	Viols    []Viol         `json:"viols"`
	Notes    []string       `json:"notes,omitempty"`
	Samples  []string       `json:"samples,omitempty"`
}

func baseKind(k string) string { return strings.TrimSuffix(k, "/contained") }

// altRoute maps a route to the one that exists for a shrunk type.
func altRoute(t T, route string) string {
	name, src := splitRoute(route)
	_, typed := hostIndex[rtype(t)]
	switch {
	case name == "param" && !typed:
		name = "param(api)"
	case name == "return" && !typed:
		name = "return-any"
	case name == "member-read" || name == "member-write":
		// the same proxy mechanism on a type that is not a struct with several members
		if _, ok := structOf(t); !ok {
			name = "field-" + strings.TrimPrefix(name, "member-")
		}
	}
	if src != "" {
		return name + "/" + src
	}
	return name
}

func isIfaceLeaf(t T) bool {
	return (t.K == "any" || t.K == "error" || t.K == "iface") && t.E == nil
}

// memo of route results inside one worker process (the minimiser re-runs many sub-terms)
var memo = map[string]res{}

func runRouteMemo(t T, variant, route string) res {
	k := path(t, false) + "\x00" + rtype(t).String() + "\x00" + variant + "\x00" + route
	if r, ok := memo[k]; ok {
		return r
	}
	r := runRoute(t, variant, route)
	if len(memo) < 200000 {
		memo[k] = r
	}
	return r
}

var intT = T{K: "int"}

// weight orders types for the minimiser (a candidate must be strictly lighter): number of
// constructor nodes, then non-int leaves, then array lengths.
func weight(t T) int { return weightRec(t, map[string]bool{}) }

func weightRec(t T, seen map[string]bool) int {
	switch t.K {
	case "int":
		return 1000
	case "named":
		if seen[t.N] {
			return 1010
		}
		seen[t.N] = true
		w := 1000 + weightRec(under(t), seen)
		delete(seen, t.N)
		return w
	case "ptr", "slice", "map":
		return 1000 + weightRec(*t.E, seen)
	case "array":
		return 1000 + t.L + weightRec(*t.E, seen)
	case "any", "iface":
		if t.E != nil {
			return 1000 + weightRec(*t.E, seen)
		}
		return 1010
	case "struct":
		w := 1000
		for _, f := range t.F {
			w += weightRec(f, seen)
		}
		return w
	}
	return 1010
}

// shrinkCandidates lists smaller or more general types, most aggressive first: a component type,
// the bare interface for an interface holding something, a struct with one of the members, the
// same constructor over plain int (is the failure independent of the component type?), and the
// same constructor over every candidate of the component.
func shrinkCandidates(t T, deep int) []T {
	var out []T
	out = append(out, children(t)...)
	with := func(e T) T { c := t; c.E = &e; return c }
	switch t.K {
	case "any", "iface":
		if t.E != nil {
			out = append(out, T{K: t.K})
			if deep > 0 {
				for _, c := range shrinkCandidates(*t.E, deep-1) {
					out = append(out, with(c))
				}
			}
		}
	case "struct":
		if len(t.F) > 1 {
			for _, f := range t.F {
				out = append(out, T{K: "struct", F: []T{f}})
			}
		} else if len(t.F) == 1 {
			out = append(out, T{K: "struct", F: []T{intT}})
			if deep > 0 {
				for _, c := range shrinkCandidates(t.F[0], deep-1) {
					out = append(out, T{K: "struct", F: []T{c}})
				}
			}
		}
	case "ptr", "slice", "array", "map":
		out = append(out, with(intT))
		if t.K == "array" && t.L > 1 {
			c := t
			c.L = 1
			out = append(out, c)
		}
		if deep > 0 {
			for _, c := range shrinkCandidates(*t.E, deep-1) {
				out = append(out, with(c))
			}
		}
	}
	return out
}

// dynType describes the dynamic type held by a bare interface leaf for a variant (ok=false when
// it holds nil or a type outside the roster).
func dynType(t T, variant string) (dt T, ok bool) {
	defer func() {
		if recover() != nil {
			ok = false
		}
	}()
	x := iface(build(t, variant, 0))
	if x == nil {
		return T{}, false
	}
	return fromRType(reflect.TypeOf(x)), true
}

var canonElems = []T{{K: "int"}, {K: "ptr", E: &T{K: "int"}}, {K: "any"}}

// canonForms: the same constructor over a canonical component (int: any component fails;
// ptr(int): any nil-able component fails; any: interface component), so that one root cause gives
// one minimal path. Nothing is offered when the component already is the first canonical one.
func canonForms(t T) []T {
	var out []T
	var cur T
	switch {
	case (t.K == "ptr" || t.K == "slice" || t.K == "array" || t.K == "map") && t.E != nil:
		cur = *t.E
	case t.K == "struct" && len(t.F) == 1:
		cur = t.F[0]
	default:
		return nil
	}
	for _, e := range canonElems {
		if path(e, false) == path(cur, false) {
			break
		}
		ee := e
		if t.K == "struct" {
			out = append(out, T{K: "struct", F: []T{ee}})
		} else {
			c := t
			c.E = &ee
			out = append(out, c)
		}
	}
	return out
}

type minResult struct {
	t T
	v string
}

var minCache = map[string]minResult{}

// minimise shrinks a failing (type, variant) for a route to the minimal type and simplest variant
// that still fail with the same kind. Results are cached per process: once the shrinking reaches a
// type seen before, its minimal form is reused.
func minimise(t T, variant, route, kind string) (T, string) {
	// a bounded number of route executions per attempt; an attempt that ran out of budget is
	// continued from the (smaller) type it reached, so that the result does not depend on the budget
	for attempt := 0; ; attempt++ {
		budget := 600
		t, variant = minimiseRec(t, variant, route, baseKind(kind), &budget, 0)
		if budget > 0 || attempt >= 8 {
			return t, variant
		}
	}
}

func minimiseRec(t T, variant, route, base string, budget *int, steps int) (T, string) {
	if steps > 24 {
		return t, variant
	}
	key := path(t, false) + "\x00" + rtype(t).String() + "\x00" + variant + "\x00" + route + "\x00" + base
	if r, ok := minCache[key]; ok {
		return r.t, r.v
	}
	same := func(c T, vr string) bool {
		if *budget <= 0 {
			return false
		}
		*budget--
		r := runRouteMemo(c, vr, altRoute(c, route))
		return r.Status == "fail" && baseKind(r.Kind) == base
	}
	done := func(rt T, rv string) (T, string) {
		if *budget > 0 && len(minCache) < 100000 {
			minCache[key] = minResult{rt, rv}
		}
		return rt, rv
	}
	// a component gets the container's variant, its inner variant or the variant of the second
	// element (values.go: second); other candidates keep the variant or take the typical one
	inner := variant
	if variant == "inner-zero" {
		inner = "zero"
	}
	uniq := func(vs ...string) []string {
		var out []string
		for _, v := range vs {
			dup := false
			for _, o := range out {
				dup = dup || o == v
			}
			if !dup {
				out = append(out, v)
			}
		}
		return out
	}
	if isIfaceLeaf(t) {
		if dt, ok := dynType(t, variant); ok && same(dt, variant) {
			return done(minimiseRec(dt, variant, route, base, budget, steps+1))
		}
	}
	w := weight(t)
	nkids := len(children(t))
	for i, c := range shrinkCandidates(t, 2) {
		if weight(c) >= w && !(t.K == "named" && i == 0) {
			continue // (a declared type may always be replaced by its underlying type)
		}
		vs := uniq(variant, "typical")
		if i < nkids {
			vs = uniq(variant, inner, second(inner))
		}
		for _, vr := range vs {
			if same(c, vr) {
				return done(minimiseRec(c, vr, route, base, budget, steps+1))
			}
		}
	}
	// simplest variant first, then the canonical component (the simpler variant may shrink further)
	for _, vr := range variants {
		if vr == variant {
			break
		}
		if same(t, vr) {
			return done(minimiseRec(t, vr, route, base, budget, steps+1))
		}
	}
	for _, c := range canonForms(t) {
		for _, vr := range uniq(variant, "zero", "inner-zero", "typical") {
			if same(c, vr) {
				return done(minimiseRec(c, vr, route, base, budget, steps+1))
			}
		}
	}
	return done(t, variant)
}

func containsUnsup(t T) bool {
	if t.K == "unsup" {
		return true
	}
	if t.K == "named" {
		return false
	}
	for _, c := range children(t) {
		if containsUnsup(c) {
			return true
		}
	}
	return false
}

func leafOf(t T) T {
	if t.K == "named" {
		if u := under(t); u.isBasic() {
			return u
		}
	}
	return t
}

// signature = <minimal path>[value class]@route:kind. The route is the route name plus the class
// of the script value ("/script": built by the script side, "/out-of-range"); the object-API
// emulation of a parameter counts as "param"; whether the VM contained a panic is in the detail.
func signature(t T, variant, route, kind string) string {
	p := path(t, true)
	label := ""
	lt := leafOf(t)
	switch {
	case isIfaceLeaf(t):
		label = leafClass(t, variant)
		if label == "nil" && strings.HasPrefix(route, "global") {
			p, label = "nil", "" // an untyped nil given as a global
		}
	case variant == "zero":
	case lt.isBasic() || lt.K == "time":
		label = leafClass(lt, variant)
	default:
		label = variant
	}
	if label != "" {
		p += "[" + label + "]"
	}
	kind = baseKind(kind)
	name, src := splitRoute(altRoute(t, route))
	if name == "param(api)" {
		name = "param"
	}
	switch {
	case kind == "panic-invalid-global":
		// the struct/global was refused when the VM was created. For unsupported kinds the minimal
		// path depends on what the process-wide type registry has seen before (a refused struct type
		// stays registered half-built), so the path is not refined there.
		name, src = "global", ""
		if containsUnsup(t) {
			p = "unsupported-kind"
		}
	case strings.HasPrefix(src, "oor") && kind == "silent-truncation":
		src = "out-of-range"
	case src != "":
		src = "script"
	}
	if src != "" {
		name += "/" + src
	}
	return p + "@" + name + ":" + kind
}

func describe(t T, variant, route string, r res) string {
	v := "?"
	func() {
		defer func() { _ = recover() }()
		v = trunc(canonGo(build(t, variant, 0), 0).String(), 400)
	}()
	return fmt.Sprintf("type %s (Go type %s), value variant %q = %s, route %s\n%s", path(t, false), rtype(t).String(), variant, v, route, r.Detail)
}

// strictParam: natural script values of these types are representable by construction, so a
// typed parameter must receive them (rejection is a failure too).
func strictParam(t T) bool {
	if t.isBasic() || t.K == "time" {
		return true
	}
	switch t.K {
	case "ptr", "slice", "array", "map":
		return strictParam(*t.E)
	}
	return false
}

func runType(t T, out *workerOut, onlyVariant, onlyRoute string) {
	seenVal := map[string]bool{}
	seenSig := map[string]bool{}
	routes := routesFor(t)
	p := path(t, false)
	for _, variant := range variants {
		if onlyVariant != "" && variant != onlyVariant {
			continue
		}
		fp := ""
		func() {
			defer func() {
				if r := recover(); r != nil {
					out.Notes = append(out.Notes, fmt.Sprintf("harness: cannot build %s/%s: %v", p, variant, r))
					fp = "!"
				}
			}()
			fp = fingerprint(build(t, variant, 0))
		}()
		if fp == "!" || (seenVal[fp] && onlyVariant == "") {
			continue
		}
		seenVal[fp] = true
		for _, route := range routes {
			if onlyRoute != "" && route != onlyRoute {
				continue
			}
			r := runRoute(t, variant, route)
			name, src := splitRoute(route)
			if r.Status == "rejected" && src == "script" && (name == "param" || name == "param(api)") && strictParam(t) {
				// clean, but worth counting: a script value that is representable in the parameter type
				out.Events["param:rejected-representable-script-value"]++
			}
			if r.Status == "fail" && strings.HasPrefix(src, "oor") && r.Kind != "silent-truncation" {
				// not about the range: the same failure is reported for the in-range script value
				out.Evals++
				out.Events[name+":fail"]++
				continue
			}
			switch r.Status {
			case "skip":
				out.Events["skipped"]++
				continue
			case "harness-panic":
				out.Notes = append(out.Notes, fmt.Sprintf("harness panic in %s/%s/%s: %s", p, variant, route, r.Detail))
				continue
			}
			out.Evals++
			out.Events[name+":"+r.Status]++
			out.Distinct = append(out.Distinct, p+" @ "+name)
			if len(out.Samples) < 1 && r.Status == "converted" && depth(t) >= 2 && (variant == "max" || variant == "odd") {
				out.Samples = append(out.Samples, fmt.Sprintf("%s (Go %s) = %s over %s: converted", p, rtype(t), trunc(canonGo(build(t, variant, 0), 0).String(), 160), route))
			}
			if r.Status != "fail" {
				continue
			}
			mt, mv := minimise(t, variant, route, r.Kind)
			sig := signature(mt, mv, route, r.Kind)
			if seenSig[sig] {
				continue
			}
			seenSig[sig] = true
			detail := describe(t, variant, route, r)
			if path(mt, false) != p || mv != variant {
				mr := runRouteMemo(mt, mv, altRoute(mt, route))
				detail += "\nminimal: " + describe(mt, mv, altRoute(mt, route), mr)
			}
			tc := t
			out.Viols = append(out.Viols, Viol{Sig: sig, Detail: detail, Case: caseData{T: &tc, Variant: variant, Route: route}})
		}
	}
}

func worker(kind string, data json.RawMessage) any {
	var c caseData
	if err := json.Unmarshal(data, &c); err != nil {
		panic(err)
	}
	out := &workerOut{Events: map[string]int{}}
	switch {
	case c.Special != "" || kind == "special":
		for _, s := range specials() {
			if c.Special != "" && c.Special != "*" && s.Name != c.Special {
				continue
			}
			r := runSpecial(s)
			if r.Status == "harness-panic" {
				out.Notes = append(out.Notes, "harness panic in special "+s.Name+": "+r.Detail)
				continue
			}
			out.Evals++
			out.Events["special:"+r.Status]++
			out.Distinct = append(out.Distinct, "special("+s.Name+") @ method-protocol")
			if r.Status == "fail" {
				out.Viols = append(out.Viols, Viol{Sig: "special(" + s.Name + ")@method-protocol:" + baseKind(r.Kind),
					Detail: "script: " + s.Src + "\n" + r.Detail, Case: caseData{Special: s.Name}})
			}
		}
		for _, rc := range retCases() {
			if c.Special != "" && c.Special != "*" && rc.Name() != c.Special {
				continue
			}
			r := runRetCase(rc)
			if r.Status == "harness-panic" {
				out.Notes = append(out.Notes, "harness panic in "+rc.Name()+": "+r.Detail)
				continue
			}
			out.Evals++
			out.Events["results:"+r.Status]++
			out.Distinct = append(out.Distinct, rc.Name()+" @ return")
			if r.Status == "fail" {
				out.Viols = append(out.Viols, Viol{Sig: rc.Name() + "@return:" + baseKind(r.Kind), Detail: r.Detail, Case: caseData{Special: rc.Name()}})
			}
		}
	case len(c.Seq) > 0:
		runSeqCase(c.Seq, out)
	case c.T != nil:
		runType(*c.T, out, c.Variant, c.Route)
	}
	return out
}

// ---------------------------------------------------------------------------------------
// planning

var ctors = []string{"ptr", "slice", "array", "map", "struct", "any"}

func apply(c string, t T) T {
	switch c {
	case "ptr":
		return tptr(t)
	case "slice":
		return tslice(t)
	case "array":
		return tarray(t, 2)
	case "map":
		return tmap(t)
	case "struct":
		return tstruct(t)
	case "any":
		return tany(t)
	}
	panic(c)
}

func level0() []T {
	var l []T
	for _, k := range basicOrder {
		l = append(l, tb(k))
	}
	l = append(l, tb("time"), tb("any"), tb("error"), tb("iface"))
	return l
}

func level1() []T {
	var l []T
	for _, n := range namedLeafs {
		l = append(l, tnamed(n))
	}
	for _, c := range ctors {
		for _, b := range level0() {
			if c == "any" && isIfaceLeaf(b) {
				continue
			}
			l = append(l, apply(c, b))
		}
	}
	return l
}

func composites() []T {
	var l []T
	for _, n := range namedComposites {
		l = append(l, tnamed(n))
	}
	for _, rt := range hostTypes {
		l = append(l, fromRType(rt))
	}
	return l
}

func level2() []T {
	var l []T
	for _, c := range ctors {
		for _, x := range level1() {
			l = append(l, apply(c, x))
		}
		for _, n := range namedComposites {
			l = append(l, apply(c, tnamed(n)))
		}
	}
	return l
}

func randomStruct(r *mon.Rand, pool []T) T {
	n := r.Range(2, 4)
	t := T{K: "struct"}
	for i := 0; i < n; i++ {
		t.F = append(t.F, mon.Pick(r, pool))
	}
	return t
}

func plan(d *mon.Driver) []T {
	var all []T
	seen := map[string]bool{}
	add := func(t T) {
		k := path(t, false)
		if t.K == "named" {
			k = "named:" + t.N
		}
		if !seen[k] {
			seen[k] = true
			all = append(all, t)
		}
	}
	for _, t := range level0() {
		add(t)
	}
	for _, n := range unsupOrder {
		add(T{K: "unsup", N: n})
	}
	l1, l2 := level1(), level2()
	for _, t := range l1 {
		add(t)
	}
	for _, t := range composites() {
		add(t)
	}
	for _, t := range l2 {
		add(t)
	}
	// depth 3: sampled (quick) / all single-constructor terms plus samples (thorough)
	r := d.Rand("depth3")
	if d.Thorough() {
		for _, c := range ctors {
			for _, x := range l2 {
				add(apply(c, x))
			}
		}
	} else {
		for i := 0; i < 700; i++ {
			add(apply(mon.Pick(r, ctors), mon.Pick(r, l2)))
		}
	}
	// structs with several members, arrays of other lengths
	pool := append(append(append([]T{}, level0()...), l1...), l2...)
	rs := d.Rand("structs")
	for i := 0; i < d.N(250, 4000); i++ {
		add(randomStruct(rs, pool))
	}
	ra := d.Rand("arrays")
	for i := 0; i < d.N(40, 400); i++ {
		add(tarray(mon.Pick(ra, append(level0(), l1...)), mon.Pick(ra, []int{0, 1, 3, 5})))
	}
	// unsupported kinds inside constructors: must be rejected cleanly
	for _, n := range unsupOrder {
		for _, c := range ctors {
			add(apply(c, T{K: "unsup", N: n}))
		}
	}
	return all
}

// ---------------------------------------------------------------------------------------
// driver

func drive(d *mon.Driver, replay string) int {
	d.Rule = "a case is a Go type (constructor term over bool, sized ints/uints, floats, string, byte, time.Time, interface{}, error, a declared non-empty interface, 34 declared named types incl. time.Duration/time.Month/fs.FileMode, under named/pointer/slice/array/map[string]T/struct/interface; all terms to depth 2, sampled at depth 3, plus structs with 2-4 members) with up to 9 values (zero, inner-zero, empty, typical, min, max, three odd: NaN/Inf/tiny/non-UTF-8/>MaxInt64/located times) sent over every route (global, field-read, field-write, member-read and member-write for structs with several members, param, param-any, param(api), return, return-any, plus a hand-written method-protocol group, methods whose result list has error results first, in the middle or twice (retshape.go; nil and non-nil errors, compared with what the same method returns when called from Go) and sequence scenarios (seq.go: a script reads and writes members of one Go struct - value struct, *struct, slice, map, nested, interface, *int - while Go code re-points, replaces, nils, swaps or changes them in place, either in a method the script calls or as host code between evaluations sharing one proxy; every enumerated (member, Go change, read path, write) combination plus seed-determined longer mixes); script values from the Go value, from a natural script value, and with out-of-range ints). distinct_nontrivial = distinct (exact type-constructor path, route) pairs that were executed and gave a verdict (converted, rejected or failed); for failures the minimal path is in the signature"
	d.Assume = []string{
		"contents are compared after forgetting Go type names, integer widths, pointer-ness (a non-struct pointer is its pointee or nil) and nil-vs-empty for slices and maps; floats are compared by the bits of the float64 value (NaN, -0 included); times by instant, zone offset and location name",
		"inside interface-typed positions the dynamic Go type cannot be preserved by any conversion (int8 comes back as int64); only the contents are compared there",
		"a struct (other than time.Time) is represented by a proxy; its contents are those of the wrapped Go value, and for a pointer to a struct the proxy must wrap the original pointer",
		"a Go panic that the VM recovers and returns as `panic: ...` error is still a conversion panic (signature suffix /contained); object-API routes have no such net",
		"an error is always an acceptable outcome for a Go value; for a natural script value given to a typed parameter made only of base kinds, pointers, slices, arrays and maps, rejection is a failure too (the statement demands that the method receives it)",
		"float32 positions only get float32-representable script floats; what happens to 0.1 written to a float32 is rounding, not judged",
		"a script int outside the range of a narrower Go integer position must be rejected, not changed (kind silent-truncation)",
		"unsupported kinds (chan, func, complex, non-string map keys, uintptr) are outside the quantifier; they are included only to check that they are rejected with an error and not a panic",
		"reading a member through a proxy of a nil struct pointer is not a conversion and is not exercised",
		"sequence scenarios: every access is a full path from the root and is judged against the Go state at that moment (a read must show the current contents and, for a pointer to a struct, wrap the current pointer; a write must be what Go reads at that path afterwards, a refused write must leave it unchanged); member proxies kept in script variables across Go changes, index writes into converted lists/maps and writes through elements of []struct are not exercised (copies by design, not pinned by the statement)",
	}
	var cases []mon.Case
	if replay != "" {
		var c caseData
		if err := mon.LoadReplay(replay, &c); err != nil {
			fmt.Println("cannot load replay:", err)
			return 3
		}
		kind := "type"
		if c.Special != "" {
			kind = "special"
		}
		if len(c.Seq) > 0 {
			kind = "seq"
		}
		cases = append(cases, mon.NewCase("replay", kind, c))
	} else {
		types := plan(d)
		perm := d.Rand("order").Perm(len(types))
		for i, j := range perm {
			t := types[j]
			cases = append(cases, mon.NewCase(fmt.Sprintf("t%05d", i), "type", caseData{T: &t}))
		}
		cases = append(cases, mon.NewCase("special", "special", caseData{Special: "*"}))
		d.Extra("types", len(types))
		// sequence scenarios: all enumerated ones, plus seed-determined longer mixes
		scs := enumeratedScenarios()
		rs := d.Rand("sequences")
		for i := 0; i < d.N(300, 6000); i++ {
			scs = append(scs, randomScenario(rs))
		}
		d.Extra("sequence_scenarios", len(scs))
		per := 120
		for i := 0; i < len(scs); i += per {
			j := min(i+per, len(scs))
			cases = append(cases, mon.NewCase(fmt.Sprintf("seq%04d", i/per), "seq", caseData{Seq: scs[i:j]}))
		}
	}
	var all []Viol
	converted := 0
	d.RunPool(cases, mon.PoolOpts{BatchSize: d.N(40, 120), BatchTimeout: 600e9}, func(c mon.Case, res mon.Result) {
		var cd caseData
		_ = json.Unmarshal(c.Data, &cd)
		if res.Status != "done" || res.Panic != "" {
			if res.Status == "timeout" {
				d.Inconclusive("watchdog timeout in case " + c.ID)
				return
			}
			if res.Status == "lost" {
				d.Inconclusive("no result for case " + c.ID)
				return
			}
			detail := res.Panic
			if res.Crash != nil {
				if !res.Crash.Confirmed {
					d.Inconclusive("worker died in case " + c.ID + " (not confirmed): " + res.Crash.FatalLine)
					return
				}
				detail = res.Crash.Exit + "\n" + res.Crash.StderrTail
				tp := "?"
				if cd.T != nil {
					tp = path(*cd.T, false)
				}
				// the worker cannot shrink a case that kills it: one signature per fatal class, the
				// type is in the detail
				all = append(all, Viol{Sig: "some-type@some-route:process-killed-" + panicClass(res.Crash.FatalLine+" "+res.Crash.StderrTail[:min(len(res.Crash.StderrTail), 300)]),
					Detail: "type " + tp + " killed the worker process (confirmed by running the case alone)\n" + detail, Case: cd})
				return
			}
			d.Inconclusive("harness panic in case " + c.ID + ": " + mon.Truncate(detail, 500))
			return
		}
		var w workerOut
		if err := json.Unmarshal(res.Data, &w); err != nil {
			d.Fatal("bad worker output: " + err.Error())
			return
		}
		d.Eval(w.Evals)
		for k, n := range w.Events {
			d.Event(k, n)
			if strings.HasSuffix(k, ":converted") {
				converted += n
			}
		}
		for _, k := range w.Distinct {
			d.Distinct(k)
		}
		for _, s := range w.Samples {
			d.Sample(s)
		}
		for _, n := range w.Notes {
			d.Inconclusive(n)
		}
		all = append(all, w.Viols...)
	})
	// one report per signature (shortest witness first), full counts in the evidence
	bySig := map[string][]Viol{}
	for _, v := range all {
		bySig[v.Sig] = append(bySig[v.Sig], v)
	}
	sigs := make([]string, 0, len(bySig))
	counts := map[string]int{}
	for s, vs := range bySig {
		sigs = append(sigs, s)
		counts[s] = len(vs)
		sort.SliceStable(vs, func(i, j int) bool { return len(vs[i].Detail) < len(vs[j].Detail) })
	}
	sort.Strings(sigs)
	for _, s := range sigs {
		v := bySig[s][0]
		d.Violation(s, fmt.Sprintf("%s\n(%d cases of this run gave this signature)", v.Detail, counts[s]), v.Case)
	}
	if len(sigs) > 0 {
		d.Extra("failure_signatures", counts)
	}
	if replay != "" {
		return d.Finish(1, 1)
	}
	if converted < d.N(10000, 50000) {
		d.Fatal(fmt.Sprintf("only %d route executions converted a value: the harness observed too little", converted))
	}
	return d.Finish(d.N(30000, 150000), d.N(4000, 20000))
}
