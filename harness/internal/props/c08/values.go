package c08

import (
	"errors"
	"fmt"
	"math"
	"reflect"
	"strings"
	"time"
)

// Variants: a value of any type is a function of (type, variant), so a case is replayable from two
// small strings and a shrunk type gets "the same" value at its leaves.
//
//	zero       reflect.Zero: nil pointers/slices/maps/interfaces, 0, "", time.Time{}
//	inner-zero outermost constructor non-nil, everything below it zero (nil at the second level)
//	empty      every container non-nil and empty, pointers non-nil
//	typical    small ordinary values
//	min, max   extremes of every leaf kind
//	odd..odd3  NaN, ±Inf, tiny, -0, non-UTF-8, > MaxInt64, times with a location, ...
var variants = []string{"zero", "inner-zero", "empty", "typical", "min", "max", "odd", "odd2", "odd3"}

var fixedZone = time.FixedZone("X", 5*3600+1800)

func intLeaf(bits int, variant string) int64 {
	minV := int64(-1) << (bits - 1)
	maxV := -(minV + 1)
	switch variant {
	case "typical":
		return 1
	case "min":
		return minV
	case "max":
		return maxV
	case "odd":
		return -1
	case "odd2":
		return maxV - 1
	case "odd3":
		return minV + 1
	}
	return 0
}

func uintLeaf(bits int, variant string) uint64 {
	maxV := uint64(math.MaxUint64)
	if bits < 64 {
		maxV = uint64(1)<<bits - 1
	}
	switch variant {
	case "typical":
		return 1
	case "min":
		return 2
	case "max":
		return maxV
	case "odd":
		if bits == 64 {
			return 1<<63 + 5
		}
		return maxV/2 + 1 // top bit set
	case "odd2":
		if bits == 64 {
			return math.MaxInt64
		}
		return maxV / 2
	case "odd3":
		if bits == 64 {
			return 1 << 63
		}
		return maxV - 1
	}
	return 0
}

func floatLeaf(bits int, variant string) float64 {
	if bits == 32 {
		switch variant {
		case "typical":
			return float64(float32(0.1))
		case "min":
			return -math.MaxFloat32
		case "max":
			return math.MaxFloat32
		case "odd":
			return math.NaN()
		case "odd2":
			return math.Inf(1)
		case "odd3":
			return math.SmallestNonzeroFloat32
		}
		return 0
	}
	switch variant {
	case "typical":
		return 1.5
	case "min":
		return -math.MaxFloat64
	case "max":
		return math.MaxFloat64
	case "odd":
		return math.NaN()
	case "odd2":
		return math.Inf(-1)
	case "odd3":
		return math.SmallestNonzeroFloat64
	}
	return 0
}

func stringLeaf(variant string) string {
	switch variant {
	case "typical":
		return "a"
	case "min":
		return "\x00"
	case "max":
		return "日本語 😀"
	case "odd":
		return "\xff\xfe"
	case "odd2":
		return strings.Repeat("ab", 600)
	case "odd3":
		return "é\x80"
	}
	return ""
}

func timeLeaf(variant string) time.Time {
	switch variant {
	case "typical":
		return time.Unix(1, 0).UTC()
	case "min":
		return time.Date(1, 1, 1, 0, 0, 0, 1, time.UTC)
	case "max":
		return time.Date(9999, 12, 31, 23, 59, 59, 999999999, time.UTC)
	case "odd":
		return time.Date(2024, 2, 29, 12, 0, 0, 5, fixedZone)
	case "odd2":
		return time.Unix(1700000000, 123456789)
	case "odd3":
		return time.Unix(-86400*365*100, 0).In(fixedZone)
	}
	return time.Time{}
}

// leafClass names the value of a leaf in a signature.
func leafClass(t T, variant string) string {
	switch {
	case t.K == "uint64" || t.K == "uint":
		switch variant {
		case "max", "odd", "odd3":
			return ">maxint64"
		case "odd2":
			return "maxint64"
		}
	case t.K == "float32" || t.K == "float64":
		switch variant {
		case "odd":
			return "nan"
		case "odd2":
			return "inf"
		case "odd3":
			return "tiny"
		}
	case t.K == "string":
		switch variant {
		case "odd", "odd3":
			return "non-utf8"
		case "min":
			return "nul"
		case "odd2":
			return "long"
		}
	case t.K == "any" && t.E == nil, t.K == "error" && t.E == nil, t.K == "iface" && t.E == nil:
		if variant == "zero" {
			return "nil"
		}
		return "holding:" + dynName(t, variant)
	}
	return variant
}

// dynamic values of a plain interface leaf
func anyLeaf(variant string) any {
	switch variant {
	case "typical":
		return int(1)
	case "min":
		return "s"
	case "max":
		return float64(2.5)
	case "odd":
		return []any{int64(1), "a", nil, true, 2.5}
	case "odd2":
		return map[string]any{"a": 1, "b": []any{}, "c": map[string]any{"d": "e"}}
	case "odd3":
		return []any{map[string]any{"k": []any{int8(3)}}, uint16(7)}
	}
	return nil
}

func errorLeaf(variant string) error {
	switch variant {
	case "zero", "inner-zero", "empty":
		return nil
	case "min":
		return fmt.Errorf("plain %d", 1)
	case "max":
		return fmt.Errorf("wrapped: %w", errors.New("inner"))
	case "odd":
		return &MyPtrErr{Code: 3}
	}
	return errors.New("boom")
}

func stringerLeaf(variant string) Stringer {
	switch variant {
	case "zero", "inner-zero", "empty":
		return nil
	case "min":
		return &MyInner{X: -1, Y: ""}
	case "max":
		return MyInner{X: 127, Y: "日本"}
	case "odd":
		return &MyInner{X: 1, Y: "p"}
	}
	return MyInner{X: 2, Y: "v"}
}

func dynName(t T, variant string) string {
	var v any
	switch t.K {
	case "any":
		v = anyLeaf(variant)
	case "error":
		v = errorLeaf(variant)
	case "iface":
		v = stringerLeaf(variant)
	}
	if v == nil {
		return "nil"
	}
	rt := reflect.TypeOf(v)
	if rt.Kind() == reflect.String && rt != stringType {
		return "named(string)"
	}
	if rt.Kind() == reflect.Int64 && rt.PkgPath() != "" {
		return "named(int)"
	}
	if rt.Kind() == reflect.Ptr && rt.Elem().Kind() == reflect.Struct {
		return "ptr(struct)"
	}
	if rt.Kind() == reflect.Struct {
		return "struct"
	}
	return rt.Kind().String()
}

// build constructs the value of type t for a variant. lvl is the constructor nesting level.
func build(t T, variant string, lvl int) reflect.Value {
	rt := rtype(t)
	if variant == "zero" || lvl > 5 {
		return reflect.Zero(rt)
	}
	inner := variant
	if variant == "inner-zero" {
		inner = "zero"
	}
	set := func(x any) reflect.Value {
		v := reflect.New(rt).Elem()
		if x != nil {
			v.Set(reflect.ValueOf(x).Convert(rt))
		}
		return v
	}
	switch t.K {
	case "bool":
		return set(variant != "inner-zero" && variant != "empty")
	case "int", "int64":
		return set(intLeaf(64, variant))
	case "int8":
		return set(intLeaf(8, variant))
	case "int16":
		return set(intLeaf(16, variant))
	case "int32":
		return set(intLeaf(32, variant))
	case "uint", "uint64":
		return set(uintLeaf(64, variant))
	case "uint8":
		return set(uintLeaf(8, variant))
	case "uint16":
		return set(uintLeaf(16, variant))
	case "uint32":
		return set(uintLeaf(32, variant))
	case "float32":
		return set(floatLeaf(32, variant))
	case "float64":
		return set(floatLeaf(64, variant))
	case "string":
		return set(stringLeaf(variant))
	case "time":
		return reflect.ValueOf(timeLeaf(variant))
	case "unsup":
		switch t.N {
		case "chan":
			return reflect.ValueOf(make(chan int))
		case "func":
			return reflect.ValueOf(func() {})
		case "complex128":
			return reflect.ValueOf(complex(1, 2))
		case "map[int]string":
			return reflect.ValueOf(map[int]string{1: "a"})
		case "uintptr":
			return reflect.ValueOf(uintptr(7))
		}
	case "any", "error", "iface":
		v := reflect.New(rt).Elem()
		if t.E != nil {
			if variant == "inner-zero" && lvl > 0 {
				return v
			}
			dv := build(*t.E, inner, lvl+1)
			if dv.Type().AssignableTo(rt) {
				v.Set(dv)
			}
			return v
		}
		var x any
		switch t.K {
		case "any":
			x = anyLeaf(variant)
		case "error":
			x = errorLeaf(variant)
		default:
			x = stringerLeaf(variant)
		}
		if x != nil {
			v.Set(reflect.ValueOf(x))
		}
		return v
	case "named":
		u := under(t)
		uv := build(u, variant, lvl)
		return uv.Convert(rt)
	case "ptr":
		p := reflect.New(rt.Elem())
		p.Elem().Set(build(*t.E, inner, lvl+1))
		return p
	case "slice":
		if variant == "empty" {
			return reflect.MakeSlice(rt, 0, 0)
		}
		s := reflect.MakeSlice(rt, 2, 2)
		s.Index(0).Set(build(*t.E, inner, lvl+1))
		s.Index(1).Set(build(*t.E, second(inner), lvl+1))
		return s
	case "array":
		a := reflect.New(rt).Elem()
		for i := 0; i < t.L; i++ {
			vr := inner
			if i > 0 {
				vr = second(inner)
			}
			if variant == "empty" {
				vr = "empty"
			}
			a.Index(i).Set(build(*t.E, vr, lvl+1))
		}
		return a
	case "map":
		m := reflect.MakeMap(rt)
		if variant == "empty" {
			return m
		}
		m.SetMapIndex(reflect.ValueOf("k0"), build(*t.E, inner, lvl+1))
		m.SetMapIndex(reflect.ValueOf("k1"), build(*t.E, second(inner), lvl+1))
		if variant == "odd" {
			m.SetMapIndex(reflect.ValueOf(""), build(*t.E, "typical", lvl+1))
			m.SetMapIndex(reflect.ValueOf("\xffk"), build(*t.E, "typical", lvl+1))
		}
		return m
	case "struct":
		s := reflect.New(rt).Elem()
		for i, f := range t.F {
			s.Field(i).Set(build(f, inner, lvl+1))
		}
		return s
	}
	panic("c08: cannot build " + t.K)
}

// second gives the variant of the second element of a two-element container, so that element
// order and a dropped last element are observable.
func second(v string) string {
	switch v {
	case "zero":
		return "zero"
	case "typical":
		return "max"
	}
	return "typical"
}

// fingerprint of a value, to skip variants that coincide for a type
func fingerprint(v reflect.Value) string {
	n := canonGo(v, 0)
	return n.String()
}
