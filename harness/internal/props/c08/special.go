package c08

import (
	"fmt"
	"reflect"
	"strings"

	"github.com/risor-io/risor/object"
)

// Hand-written cases around the method-call protocol: several parameters (order), several
// results, context parameters, error results, variadic tails, wrong argument counts, maps given
// for struct parameters, struct values (not pointers) as globals, a host with an inconvertible
// method.

type special struct {
	Name   string
	Src    string
	Want   string // rendering of the expected result ("" = any), by Inspect()
	Calls  string // expected recorded calls joined by ";" ("-" = must not be called, "" = not checked)
	MayErr bool   // a clean error is acceptable instead
	MustEr bool   // a clean error (or error value) is required
	Setup  func(g map[string]any)
	After  func(h *Host, g map[string]any) (string, string) // extra judgement: kind, detail
}

func mapStructParam(name string) string {
	idx := hostIndex[roster[name]]
	return fmt.Sprintf("Take%03d", idx)
}

func specials() []special {
	inner := &MyInner{X: 3, Y: "in"}
	return []special{
		{Name: "two-params-order", Src: `h.Multi2(-5, "x")`, Want: `"-5|x"`, Calls: `Multi2(-5,"x")`},
		{Name: "two-params-one-type-order", Src: `h.SameType2(10, 3)`, Want: `7`, Calls: `SameType2(10,3)`},
		{Name: "four-params-one-type-order", Src: `h.SameType4("a", "b", "c", "d")`, Want: `"abcd"`, Calls: `SameType4("a","b","c","d")`},
		{Name: "two-params-two-types-order", Src: `h.MultiRet(3, "q")`, Want: `["q", 3, 0.5]`, Calls: `MultiRet(3,"q")`},
		{Name: "four-params", Src: `h.Multi3(["a", "b"], {"k": 1.5}, p, 9)`, Want: `12`, Calls: `Multi3(["a" "b"],1,true,9)`,
			Setup: func(g map[string]any) { g["p"] = inner },
			After: func(h *Host, g map[string]any) (string, string) {
				if len(h.got) == 4 {
					if p, ok := h.got[2].(*MyInner); !ok || p != inner {
						return "wrong-identity", "Multi3 did not receive the original *MyInner"
					}
					if m, ok := h.got[1].(map[string]float64); !ok || m["k"] != 1.5 {
						return "goside-wrong-float", fmt.Sprintf("Multi3 received map %v", h.got[1])
					}
				}
				return "", ""
			}},
		{Name: "context-param", Src: `h.MultiCtx(4, "z")`, Want: `"4|z"`, Calls: `MultiCtx(true,4,"z")`},
		{Name: "error-result-nil", Src: `h.MultiErr(4)`, Want: `8`, Calls: `MultiErr(4)`},
		{Name: "error-result-set", Src: `h.MultiErr(-4)`, MustEr: true, Calls: `MultiErr(-4)`},
		{Name: "variadic-no-tail", Src: `h.MultiVar("a")`, Want: `0`, Calls: `MultiVar("a",[])`},
		{Name: "variadic-spread", Src: `h.MultiVar("a", 1, 2)`, Want: `3`, Calls: `MultiVar("a",[1 2])`, MayErr: true},
		{Name: "variadic-list", Src: `h.MultiVar("a", [1, 2])`, Want: `3`, Calls: `MultiVar("a",[1 2])`, MayErr: true},
		{Name: "no-params", Src: `h.NoArgs()`, Want: `7`, Calls: `NoArgs()`},
		{Name: "no-result", Src: `h.NoResult(5)`, Want: `nil`, Calls: `NoResult(5)`},
		{Name: "too-few-args", Src: `h.Multi2(1)`, MustEr: true, Calls: "-"},
		{Name: "wrong-arg-type", Src: `h.Multi2("x", 1)`, MustEr: true, Calls: "-"},
		{Name: "map-for-struct-param", Src: `h.` + mapStructParam("MyInner") + `({"X": 5, "Y": "s"})`, MayErr: true,
			After: func(h *Host, g map[string]any) (string, string) {
				if len(h.got) == 1 {
					if v, ok := h.got[0].(MyInner); !ok || v != (MyInner{X: 5, Y: "s"}) {
						return "goside-wrong-value", fmt.Sprintf("received %#v", h.got[0])
					}
				}
				return "", ""
			}},
		{Name: "map-for-struct-param-nested-struct", Src: `h.` + mapStructParam("MyStruct") + `({"A": 1, "E": {"X": 2, "Y": "e"}})`, MayErr: true,
			After: func(h *Host, g map[string]any) (string, string) {
				if len(h.got) == 1 {
					if v, ok := h.got[0].(MyStruct); !ok || v.A != 1 || v.E != (MyInner{X: 2, Y: "e"}) {
						return "goside-wrong-value", fmt.Sprintf("received %#v", h.got[0])
					}
				}
				return "", ""
			}},
		{Name: "map-for-struct-param-nil-slice-member", Src: `h.` + mapStructParam("MyStruct") + `({"C": nil})`, MayErr: true,
			After: func(h *Host, g map[string]any) (string, string) {
				if len(h.got) == 1 {
					if v, ok := h.got[0].(MyStruct); !ok || v.C != nil {
						return "goside-wrong-value", fmt.Sprintf("received %#v", h.got[0])
					}
				}
				return "", ""
			}},
		{Name: "map-for-struct-param-nil-pointer-member", Src: `h.` + mapStructParam("MyStruct") + `({"D": nil})`, MayErr: true,
			After: func(h *Host, g map[string]any) (string, string) {
				if len(h.got) == 1 {
					if v, ok := h.got[0].(MyStruct); !ok || v.D != nil {
						return "goside-wrong-value", fmt.Sprintf("received %#v", h.got[0])
					}
				}
				return "", ""
			}},
		{Name: "map-for-struct-param-narrow-member", Src: `h.` + mapStructParam("MyInner") + `({"X": 300})`, MayErr: true,
			After: func(h *Host, g map[string]any) (string, string) {
				if len(h.got) == 1 {
					return "silent-truncation", fmt.Sprintf("300 for an int8 member was accepted: received %#v", h.got[0])
				}
				return "", ""
			}},
		{Name: "struct-value-global-read", Src: `v.Y`, Want: `"val"`, Setup: func(g map[string]any) { g["v"] = MyInner{X: 1, Y: "val"} }},
		{Name: "struct-value-global-write", Src: "v.X = 9\nv.X", Want: `9`, MayErr: true, Setup: func(g map[string]any) { g["v"] = MyInner{X: 1, Y: "val"} }},
		{Name: "struct-with-named-members-other-member", Src: `v.N`, Want: `4`, Setup: func(g map[string]any) { g["v"] = &MyNamedS{N: 4} }},
		{Name: "nested-struct-member-write", Src: "v.E.X = 7\nv.E.X", Want: `7`, Setup: func(g map[string]any) { g["v"] = &MyStruct{} },
			After: func(h *Host, g map[string]any) (string, string) {
				if g["v"].(*MyStruct).E.X != 7 {
					return "goside-wrong-number", fmt.Sprintf("Go sees E.X = %d after the script wrote 7", g["v"].(*MyStruct).E.X)
				}
				return "", ""
			}},
		{Name: "pointer-member-write-through", Src: "v.D.Y = \"w\"\nv.D.Y", Want: `"w"`, Setup: func(g map[string]any) { g["v"] = &MyStruct{D: &MyInner{}} },
			After: func(h *Host, g map[string]any) (string, string) {
				if g["v"].(*MyStruct).D.Y != "w" {
					return "goside-wrong-string", "Go does not see the write through the pointer member"
				}
				return "", ""
			}},
		{Name: "host-with-inconvertible-method-other-method", Src: `b.Fine(1)`, Want: `2`, MayErr: true, Setup: func(g map[string]any) { g["b"] = &BadHost{} }},
		{Name: "host-with-inconvertible-method-call", Src: `b.Chan(1)`, MustEr: true, Setup: func(g map[string]any) { g["b"] = &BadHost{} }},
		{Name: "string-for-non-empty-interface-param", Src: `h.` + fmt.Sprintf("Take%03d", hostIndex[stringerType]) + `("x")`, MustEr: true, Calls: "-"},
		{Name: "string-for-non-empty-interface-member", Src: "v.S = \"x\"", MustEr: true, Setup: func(g map[string]any) { g["v"] = &struct{ S Stringer }{} }},
		{Name: "unknown-member", Src: `h.Nope`, MustEr: true},
		{Name: "unknown-member-write", Src: `h.Nope = 1`, MustEr: true},
		{Name: "method-overwrite", Src: `h.NoArgs = 1`, MustEr: true},
	}
}

func runSpecial(s special) (r res) {
	defer func() {
		if p := recover(); p != nil {
			r = res{Status: "harness-panic", Detail: fmt.Sprintf("%v", p)}
		}
	}()
	h := &Host{}
	g := map[string]any{"h": h}
	if s.Setup != nil {
		s.Setup(g)
	}
	obj, err, pan := evalSafe(s.Src, g)
	out, ok := evalOutcome(obj, err, pan, "")
	calls := strings.Join(h.calls, ";")
	if out.Status == "fail" {
		return out
	}
	isErr := !ok
	if e, yes := obj.(*object.Error); ok && yes {
		isErr = true
		out = rejected(fmt.Sprint(e.Value()))
	}
	if s.Calls == "-" && (calls != "" || len(h.got) > 0) {
		return failed("method-called-with-unrepresentable-args", fmt.Sprintf("recorded calls %q", calls))
	}
	if isErr {
		if s.MustEr || s.MayErr {
			if s.Calls != "" && s.Calls != "-" && s.MustEr && calls != s.Calls {
				return failed("wrong-arguments", fmt.Sprintf("recorded calls %q, expected %q", calls, s.Calls))
			}
			return rejected(out.Detail)
		}
		return failed("unexpected-error", "a representable call was rejected: "+out.Detail)
	}
	if s.MustEr {
		return failed("accepted-silently", fmt.Sprintf("expected an error, got %s %s", obj.Type(), trunc(obj.Inspect(), 100)))
	}
	if s.Calls != "" && s.Calls != "-" && calls != s.Calls {
		return failed("wrong-arguments", fmt.Sprintf("recorded calls %q, expected %q", calls, s.Calls))
	}
	if s.Want != "" && obj.Inspect() != s.Want {
		return failed("wrong-result", fmt.Sprintf("result %s, expected %s", trunc(obj.Inspect(), 200), s.Want))
	}
	if s.After != nil {
		if k, d := s.After(h, g); k != "" {
			return failed(k, d)
		}
	}
	return converted()
}

var _ = reflect.TypeOf
