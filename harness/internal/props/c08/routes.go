package c08

import (
	"context"
	"fmt"
	"reflect"
	"strings"

	"github.com/risor-io/risor"
	"github.com/risor-io/risor/object"
)

// A route is "<name>" or "<name>/<source>". Names:
//
//	global        WithGlobal("x", v); script `x`
//	field-read    struct{F0 T} given as a proxy; script `s.F0`
//	field-write   script `s.F0 = a; s.F0`, then the Go side reads the field
//	param         typed method of the declared Host through the real proxy: `h.TakeNNN(a)`
//	return        `h.RetNNN()`
//	param-any     `h.TakeAny(a)`  (parameter of type interface{})
//	return-any    `h.RetAny()`    (result of type interface{} holding the value)
//	param(api)    for types without a declared method: the conversions proxy.call makes, through
//	              the object API (NewGoType, GetConverter, To, From)
//
// Sources of the script value `a`: (none) = the Go value itself, converted by the global route
// first; "script" = the natural script value (int, float, string, list, map, nil, time) built by
// the harness; "oor-lo"/"oor-hi" = the natural value with every narrow integer leaf replaced by an
// int below/above the range of its Go kind.
var allSources = []string{"", "script", "oor-lo", "oor-hi"}

type res struct {
	Status string `json:"status"` // converted | rejected | fail | skip
	Kind   string `json:"kind,omitempty"`
	Detail string `json:"detail,omitempty"`
}

func converted() res          { return res{Status: "converted"} }
func rejected(why string) res { return res{Status: "rejected", Detail: why} }
func skip(why string) res     { return res{Status: "skip", Detail: why} }
func failed(kind, detail string) res {
	return res{Status: "fail", Kind: kind, Detail: detail}
}

func splitRoute(route string) (name, src string) {
	if i := strings.IndexByte(route, '/'); i >= 0 {
		return route[:i], route[i+1:]
	}
	return route, ""
}

// panicClass maps a panic message to a stable class (no addresses, no type names).
func panicClass(msg string) string {
	switch {
	case strings.Contains(msg, "invalid global provided"):
		return "invalid-global"
	case strings.Contains(msg, "interface conversion"):
		return "interface-conversion"
	case strings.Contains(msg, "nil pointer dereference"):
		return "nil-deref"
	case strings.Contains(msg, "zero Value"):
		return "reflect-zero-value"
	case strings.Contains(msg, "not assignable to type") || strings.Contains(msg, "reflect: Call using") || strings.Contains(msg, "in Call"):
		return "go-type-mismatch"
	case strings.Contains(msg, "index out of range"):
		return "index-out-of-range"
	case strings.Contains(msg, "reflect"):
		return "reflect-other"
	case strings.Contains(msg, "stack overflow"):
		return "stack-overflow"
	}
	return "other"
}

// evalSafe runs a script with the given globals; a Go panic is returned in pan.
func evalSafe(src string, globals map[string]any) (obj object.Object, err error, pan any) {
	defer func() {
		if r := recover(); r != nil {
			pan = r
		}
	}()
	obj, err = risor.Eval(context.Background(), src, risor.WithoutDefaultGlobals(), risor.WithGlobals(globals))
	return
}

// evalOutcome classifies panic / error; ok=true means a value came back.
func evalOutcome(obj object.Object, err error, pan any, prefix string) (res, bool) {
	if pan != nil {
		msg := fmt.Sprint(pan)
		return failed(prefix+"panic-"+panicClass(msg), "Go panic out of risor.Eval: "+msg), false
	}
	if err != nil {
		msg := safeErr(err)
		if strings.HasPrefix(msg, "panic: ") {
			return failed(prefix+"panic-"+panicClass(msg)+"/contained", "Go panic during the evaluation (recovered by the VM, returned as error): "+msg), false
		}
		return rejected(msg), false
	}
	if obj == nil {
		return failed(prefix+"no-result", "Eval returned neither a value nor an error"), false
	}
	return res{}, true
}

func safeErr(err error) (s string) {
	defer func() {
		if r := recover(); r != nil {
			s = fmt.Sprintf("<Error() panicked: %v>", r)
		}
	}()
	return err.Error()
}

// iface returns the value as the interface{} the embedder would hand over.
func iface(v reflect.Value) any {
	if !v.IsValid() {
		return nil
	}
	if v.Kind() == reflect.Interface && v.IsNil() {
		return nil
	}
	return v.Interface()
}

// judgeObj compares the reference contents with a risor object and with its Interface().
func judgeObj(ref node, obj object.Object, prefix, where string, checkIface bool) (r res) {
	defer func() {
		if p := recover(); p != nil {
			r = failed(prefix+"panic-"+panicClass(fmt.Sprint(p)), fmt.Sprintf("Go panic while reading the %s value (Interface/Value): %v", where, p))
		}
	}()
	if e, ok := obj.(*object.Error); ok && ref.K != "err" {
		msg := "<nil>"
		if e.Value() != nil {
			msg = e.Value().Error()
		}
		if strings.HasPrefix(msg, "panic: ") {
			return failed(prefix+"panic-"+panicClass(msg)+"/contained", "error value carrying a recovered panic: "+msg)
		}
		return rejected("error value: " + msg)
	}
	if cls, d := diff(ref, canonObj(obj, 0), where); cls != "" {
		return failed(prefix+cls, d+fmt.Sprintf(" (script sees %s %s)", obj.Type(), trunc(obj.Inspect(), 200)))
	}
	if checkIface {
		got := canonGo(reflect.ValueOf(obj.Interface()), 0)
		if cls, d := diff(ref, got, where+".Interface()"); cls != "" {
			return failed(prefix+"interface-"+cls, d)
		}
	}
	return converted()
}

func trunc(s string, n int) string {
	if len(s) > n {
		return s[:n] + "…"
	}
	return s
}

// source builds the script value `a` for a route and the reference contents it stands for.
func source(t T, v reflect.Value, src string) (a any, ref node, r res, ok bool) {
	switch src {
	case "":
		x := iface(v)
		obj, err, pan := evalSafe("a", map[string]any{"a": x})
		if pan != nil || err != nil || obj == nil {
			return nil, node{}, skip("the Go value does not pass the global route"), false
		}
		if jr := judgeObj(canonGo(v, 0), obj, "", "a", false); jr.Status != "converted" {
			return nil, node{}, skip("the Go value is not represented faithfully by the global route"), false
		}
		return obj, canonGo(v, 0), res{}, true
	case "script":
		var has bool
		o, good := nat(v, "", &has, 0)
		if !good {
			return nil, node{}, skip("no natural script value"), false
		}
		return o, canonObj(o, 0), res{}, true
	case "oor-lo", "oor-hi":
		var has bool
		o, good := nat(v, strings.TrimPrefix(src, "oor-"), &has, 0)
		if !good || !has {
			return nil, node{}, skip("no narrow integer leaf"), false
		}
		return o, canonObj(o, 0), res{}, true
	}
	return nil, node{}, skip("unknown source"), false
}

// goSide judges what Go received for what the script passed.
func goSide(ref node, got reflect.Value, src, where string) res {
	if cls, d := diff(ref, canonGo(got, 0), where); cls != "" {
		if strings.HasPrefix(src, "oor") && cls == "wrong-number" {
			return failed("silent-truncation", "an int outside the range of the Go kind was accepted and changed: "+d)
		}
		return failed("goside-"+cls, d)
	}
	return converted()
}

// runRoute executes one (type, variant, route) triple against the real code.
func runRoute(t T, variant, route string) (r res) {
	defer func() {
		if p := recover(); p != nil {
			r = res{Status: "harness-panic", Detail: fmt.Sprintf("%v", p)}
		}
	}()
	name, src := splitRoute(route)
	v := build(t, variant, 0)
	rt := rtype(t)
	switch name {
	case "global":
		x := iface(v)
		obj, err, pan := evalSafe("x", map[string]any{"x": x})
		if out, ok := evalOutcome(obj, err, pan, ""); !ok {
			return out
		}
		jr := judgeObj(canonGo(v, 0), obj, "", "x", true)
		if jr.Status != "converted" {
			return jr
		}
		if v.Kind() == reflect.Ptr && !v.IsNil() && v.Elem().Kind() == reflect.Struct && rt.Elem() != timeType {
			if p, ok := obj.(*object.Proxy); ok {
				pv := reflect.ValueOf(p.Interface())
				if pv.Kind() != reflect.Ptr || pv.Pointer() != v.Pointer() {
					return failed("wrong-identity", "the proxy of a pointer to a struct does not wrap the original pointer")
				}
			}
		}
		return converted()

	case "field-read":
		sv := reflect.New(rtype(tstruct(t)))
		sv.Elem().Field(0).Set(v)
		obj, err, pan := evalSafe("s.F0", map[string]any{"s": sv.Interface()})
		if out, ok := evalOutcome(obj, err, pan, ""); !ok {
			return out
		}
		jr := judgeObj(canonGo(v, 0), obj, "", "s.F0", true)
		if jr.Status != "converted" {
			return jr
		}
		if cls, d := diff(canonGo(v, 0), canonGo(sv.Elem().Field(0), 0), "Go field after the read"); cls != "" {
			return failed("read-changed-field-"+cls, d)
		}
		return converted()

	case "field-write":
		a, ref, sr, ok := source(t, v, src)
		if !ok {
			return sr
		}
		sv := reflect.New(rtype(tstruct(t)))
		obj, err, pan := evalSafe("s.F0 = a\ns.F0", map[string]any{"s": sv.Interface(), "a": a})
		if out, ok := evalOutcome(obj, err, pan, ""); !ok {
			return out
		}
		if gr := goSide(ref, sv.Elem().Field(0), src, "Go field after `s.F0 = a`"); gr.Status != "converted" {
			return gr
		}
		jr := judgeObj(ref, obj, "readback-", "s.F0 read back", false)
		if jr.Status == "rejected" {
			return failed("readback-rejected", "the field was written but reading it back fails: "+jr.Detail)
		}
		return jr

	case "param", "param-any":
		method := "TakeAny"
		if name == "param" {
			idx, ok := hostIndex[rt]
			if !ok {
				return skip("no declared method for this type")
			}
			method = fmt.Sprintf("Take%03d", idx)
		}
		a, ref, sr, ok := source(t, v, src)
		if !ok {
			return sr
		}
		h := &Host{}
		obj, err, pan := evalSafe("h."+method+"(a)", map[string]any{"h": h, "a": a})
		prefix := ""
		if len(h.got) > 0 {
			prefix = "result-"
		}
		out, ok := evalOutcome(obj, err, pan, prefix)
		if !ok && len(h.got) == 0 {
			return out
		}
		if len(h.got) != 1 {
			return failed("method-called-wrong", fmt.Sprintf("%s recorded %d calls", method, len(h.got)))
		}
		got := reflect.ValueOf(h.got[0])
		if gr := goSide(ref, got, src, "argument received by "+method); gr.Status != "converted" {
			return gr
		}
		if name == "param" && src == "" && v.Kind() == reflect.Ptr && !v.IsNil() && v.Elem().Kind() == reflect.Struct && rt.Elem() != timeType {
			if got.Kind() != reflect.Ptr || got.Pointer() != v.Pointer() {
				return failed("wrong-identity", "the method did not receive the original struct pointer")
			}
		}
		if !ok {
			if out.Status == "rejected" && rt == errorType {
				return converted() // a non-nil error result is raised by the method protocol
			}
			if out.Status == "rejected" {
				return failed("result-rejected", "the method was called, but its result (its own argument) is rejected: "+out.Detail)
			}
			return out
		}
		if rt == errorType {
			return converted()
		}
		jr := judgeObj(canonGo(got, 0), obj, "result-", "result of "+method, false)
		if jr.Status == "rejected" {
			return failed("result-rejected", "the method was called, but its result (its own argument) is rejected: "+jr.Detail)
		}
		return jr

	case "return", "return-any":
		method := "RetAny"
		if name == "return" {
			idx, ok := hostIndex[rt]
			if !ok {
				return skip("no declared method for this type")
			}
			if rt == errorType {
				return skip("error results follow the method protocol")
			}
			method = fmt.Sprintf("Ret%03d", idx)
		}
		h := &Host{ret: iface(v)}
		obj, err, pan := evalSafe("h."+method+"()", map[string]any{"h": h})
		if out, ok := evalOutcome(obj, err, pan, ""); !ok {
			return out
		}
		return judgeObj(canonGo(v, 0), obj, "", "result of "+method, true)

	case "member-read", "member-write":
		return members(t, v, name, src)

	case "param(api)":
		a, ref, sr, ok := source(t, v, src)
		if !ok {
			return sr
		}
		return apiCall(rt, a.(object.Object), ref, src)
	}
	return skip("unknown route")
}

// structOf returns the struct description behind t (t itself, a declared struct type, or a pointer
// to either) when it has at least two exported members.
func structOf(t T) (T, bool) {
	for i := 0; i < 3; i++ {
		switch t.K {
		case "ptr":
			t = *t.E
			continue
		case "named":
			t = under(t)
			continue
		}
		break
	}
	if t.K == "struct" && len(t.F) >= 2 {
		return t, true
	}
	return T{}, false
}

// members reads or writes every member of a struct with several members through its proxy, one
// evaluation per member, and checks the whole Go struct after every write (a write must change
// exactly the member written).
func members(t T, v reflect.Value, name, src string) res {
	st, ok := structOf(t)
	if !ok {
		return skip("not a struct with several members")
	}
	// a pointer to a fresh struct, so that the Go side sees what the script does
	for v.Kind() == reflect.Ptr || v.Kind() == reflect.Interface {
		if v.IsNil() {
			return skip("nil struct pointer")
		}
		v = v.Elem()
	}
	pv := reflect.New(v.Type())
	if name == "member-read" {
		pv.Elem().Set(v)
	}
	all := converted()
	nrej := 0
	for i := range st.F {
		fname := st.fieldName(i)
		fv := v.Field(i)
		if name == "member-read" {
			obj, err, pan := evalSafe("x."+fname, map[string]any{"x": pv.Interface()})
			out, ok := evalOutcome(obj, err, pan, "")
			if !ok {
				if out.Status == "fail" {
					out.Detail = "member " + fname + ": " + out.Detail
					return out
				}
				nrej++
				continue
			}
			jr := judgeObj(canonGo(fv, 0), obj, "", "x."+fname, true)
			if jr.Status == "fail" {
				jr.Detail = "member " + fname + ": " + jr.Detail
				return jr
			}
			if jr.Status == "rejected" {
				nrej++
			}
			continue
		}
		a, ref, _, ok := source(st.F[i], fv, src)
		if !ok {
			continue
		}
		before := reflect.New(v.Type()).Elem()
		before.Set(pv.Elem())
		obj, err, pan := evalSafe("x."+fname+" = a\nx."+fname, map[string]any{"x": pv.Interface(), "a": a})
		out, ok := evalOutcome(obj, err, pan, "")
		if !ok {
			if out.Status == "fail" {
				out.Detail = "member " + fname + ": " + out.Detail
				return out
			}
			nrej++
			continue
		}
		if gr := goSide(ref, pv.Elem().Field(i), src, "Go member "+fname+" after the write"); gr.Status != "converted" {
			return gr
		}
		for j := range st.F {
			if j == i {
				continue
			}
			if cls, d := diff(canonGo(before.Field(j), 0), canonGo(pv.Elem().Field(j), 0), "member "+st.fieldName(j)); cls != "" {
				return failed("write-changed-other-member", fmt.Sprintf("writing member %s changed member %s: %s", fname, st.fieldName(j), d))
			}
		}
		jr := judgeObj(ref, obj, "readback-", "x."+fname+" read back", false)
		if jr.Status == "fail" {
			return jr
		}
		if jr.Status == "rejected" {
			return failed("readback-rejected", "member "+fname+" was written but reading it back fails: "+jr.Detail)
		}
	}
	if nrej == len(st.F) {
		return rejected("every member rejected")
	}
	return all
}

// apiCall does, through the exported object API, what Proxy.call does to convert one argument of
// type rt and one result of type rt (NewGoType, GetConverter, To, From). It does not depend on how
// Proxy.call treats a converter result of the wrong Go type: that is reported as a converter failure.
func apiCall(rt reflect.Type, a object.Object, ref node, src string) (r res) {
	stage := "convert"
	defer func() {
		if p := recover(); p != nil {
			prefix := ""
			if stage == "result" {
				prefix = "result-"
			}
			r = failed(prefix+"panic-"+panicClass(fmt.Sprint(p)), fmt.Sprintf("Go panic in the object API (%s): %v", stage, p))
		}
	}()
	gt, err := object.NewGoType(rt)
	if err != nil {
		return rejected(err.Error())
	}
	conv, err := gt.GetConverter()
	if err != nil {
		return rejected(err.Error())
	}
	var got reflect.Value
	if a == object.Nil {
		got = reflect.Zero(rt) // Proxy.call passes the zero value for nil without converting
	} else {
		x, err := conv.To(a)
		if err != nil {
			return rejected(err.Error())
		}
		xv := reflect.ValueOf(x)
		switch {
		case !xv.IsValid():
			switch rt.Kind() {
			case reflect.Ptr, reflect.Slice, reflect.Map, reflect.Interface:
				got = reflect.Zero(rt)
			default:
				return failed("converter-returned-nil", fmt.Sprintf("the converter of %s returned nil without an error for a %s", rt, a.Type()))
			}
		default:
			// storing the converter's result in a variable of the parameter type is what any caller
			// has to do; reflect panics here when the converter returned a value of another Go type
			stage = "store the converter result (a " + xv.Type().String() + ") in a " + rt.String()
			got = reflect.New(rt).Elem()
			got.Set(xv)
			stage = "convert"
		}
	}
	if gr := goSide(ref, got, src, "value converted for a parameter of type "+rt.String()); gr.Status != "converted" {
		return gr
	}
	if rt == errorType {
		return converted()
	}
	stage = "result"
	obj, err := conv.From(got.Interface())
	if err != nil {
		return failed("result-rejected", "the argument was accepted, but the same value as a result is rejected: "+err.Error())
	}
	jr := judgeObj(canonGo(got, 0), obj, "result-", "result", false)
	if jr.Status == "rejected" {
		return failed("result-rejected", jr.Detail)
	}
	return jr
}

// routesFor lists the routes that apply to a type.
func routesFor(t T) []string {
	rt := rtype(t)
	_, typed := hostIndex[rt]
	var out []string
	out = append(out, "global", "field-read", "return-any")
	for _, s := range allSources {
		sfx := ""
		if s != "" {
			sfx = "/" + s
		}
		out = append(out, "field-write"+sfx)
		if typed {
			out = append(out, "param"+sfx)
		} else {
			out = append(out, "param(api)"+sfx)
		}
		if s == "" || s == "script" {
			out = append(out, "param-any"+sfx)
		}
	}
	if typed {
		out = append(out, "return")
	}
	if _, ok := structOf(t); ok {
		out = append(out, "member-read", "member-write", "member-write/script")
	}
	return out
}
