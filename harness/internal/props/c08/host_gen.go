// Code generated for the C08 check (typed host methods); DO NOT EDIT.

package c08

import (
	"io/fs"
	"reflect"
	"time"
)

// hostTypeExprs lists the parameter/result type of TakeNNN / RetNNN.
var hostTypeExprs = []string{
	"bool",
	"int",
	"int8",
	"int16",
	"int32",
	"int64",
	"uint",
	"uint8",
	"uint16",
	"uint32",
	"uint64",
	"float32",
	"float64",
	"string",
	"time.Time",
	"error",
	"Stringer",
	"MyBool",
	"MyInt",
	"MyInt8",
	"MyInt16",
	"MyInt32",
	"MyInt64",
	"MyUint",
	"MyUint8",
	"MyUint16",
	"MyUint32",
	"MyUint64",
	"MyFloat32",
	"MyFloat64",
	"MyString",
	"time.Duration",
	"time.Month",
	"time.Weekday",
	"fs.FileMode",
	"MyBytes",
	"MySlice",
	"MyStrs",
	"MyMap",
	"MyArr",
	"MyPtr",
	"MyAny",
	"MyDurs",
	"MyNamedM",
	"MyInner",
	"MyStruct",
	"MyNode",
	"MyNamedS",
	"*MyInner",
	"*MyStruct",
	"*MyNode",
	"*MyNamedS",
	"[]MyInner",
	"[]*MyInner",
	"map[string]MyInner",
	"map[string]*MyInner",
	"[]int8",
	"[]uint16",
	"[]int64",
	"[]uint64",
	"[]string",
	"[]bool",
	"[]float32",
	"[]float64",
	"[]byte",
	"[][]byte",
	"[]any",
	"[]*int",
	"[][]int",
	"[]MyInt8",
	"[]time.Duration",
	"[]time.Time",
	"[]map[string]int",
	"map[string]int8",
	"map[string]uint64",
	"map[string]string",
	"map[string]float32",
	"map[string]any",
	"map[string][]string",
	"map[string]MyString",
	"map[string]*int",
	"map[string]map[string]int",
	"*int",
	"*int8",
	"*uint64",
	"*string",
	"*float32",
	"*bool",
	"*MyInt8",
	"*time.Time",
	"*time.Duration",
	"*[]int",
	"*map[string]int",
	"**int",
	"*any",
	"[2]int8",
	"[3]string",
	"[0]int",
	"[2][]int",
	"[2]*int",
}

var hostTypes = []reflect.Type{
	reflect.TypeOf((*bool)(nil)).Elem(),
	reflect.TypeOf((*int)(nil)).Elem(),
	reflect.TypeOf((*int8)(nil)).Elem(),
	reflect.TypeOf((*int16)(nil)).Elem(),
	reflect.TypeOf((*int32)(nil)).Elem(),
	reflect.TypeOf((*int64)(nil)).Elem(),
	reflect.TypeOf((*uint)(nil)).Elem(),
	reflect.TypeOf((*uint8)(nil)).Elem(),
	reflect.TypeOf((*uint16)(nil)).Elem(),
	reflect.TypeOf((*uint32)(nil)).Elem(),
	reflect.TypeOf((*uint64)(nil)).Elem(),
	reflect.TypeOf((*float32)(nil)).Elem(),
	reflect.TypeOf((*float64)(nil)).Elem(),
	reflect.TypeOf((*string)(nil)).Elem(),
	reflect.TypeOf((*time.Time)(nil)).Elem(),
	reflect.TypeOf((*error)(nil)).Elem(),
	reflect.TypeOf((*Stringer)(nil)).Elem(),
	reflect.TypeOf((*MyBool)(nil)).Elem(),
	reflect.TypeOf((*MyInt)(nil)).Elem(),
	reflect.TypeOf((*MyInt8)(nil)).Elem(),
	reflect.TypeOf((*MyInt16)(nil)).Elem(),
	reflect.TypeOf((*MyInt32)(nil)).Elem(),
	reflect.TypeOf((*MyInt64)(nil)).Elem(),
	reflect.TypeOf((*MyUint)(nil)).Elem(),
	reflect.TypeOf((*MyUint8)(nil)).Elem(),
	reflect.TypeOf((*MyUint16)(nil)).Elem(),
	reflect.TypeOf((*MyUint32)(nil)).Elem(),
	reflect.TypeOf((*MyUint64)(nil)).Elem(),
	reflect.TypeOf((*MyFloat32)(nil)).Elem(),
	reflect.TypeOf((*MyFloat64)(nil)).Elem(),
	reflect.TypeOf((*MyString)(nil)).Elem(),
	reflect.TypeOf((*time.Duration)(nil)).Elem(),
	reflect.TypeOf((*time.Month)(nil)).Elem(),
	reflect.TypeOf((*time.Weekday)(nil)).Elem(),
	reflect.TypeOf((*fs.FileMode)(nil)).Elem(),
	reflect.TypeOf((*MyBytes)(nil)).Elem(),
	reflect.TypeOf((*MySlice)(nil)).Elem(),
	reflect.TypeOf((*MyStrs)(nil)).Elem(),
	reflect.TypeOf((*MyMap)(nil)).Elem(),
	reflect.TypeOf((*MyArr)(nil)).Elem(),
	reflect.TypeOf((*MyPtr)(nil)).Elem(),
	reflect.TypeOf((*MyAny)(nil)).Elem(),
	reflect.TypeOf((*MyDurs)(nil)).Elem(),
	reflect.TypeOf((*MyNamedM)(nil)).Elem(),
	reflect.TypeOf((*MyInner)(nil)).Elem(),
	reflect.TypeOf((*MyStruct)(nil)).Elem(),
	reflect.TypeOf((*MyNode)(nil)).Elem(),
	reflect.TypeOf((*MyNamedS)(nil)).Elem(),
	reflect.TypeOf((**MyInner)(nil)).Elem(),
	reflect.TypeOf((**MyStruct)(nil)).Elem(),
	reflect.TypeOf((**MyNode)(nil)).Elem(),
	reflect.TypeOf((**MyNamedS)(nil)).Elem(),
	reflect.TypeOf((*[]MyInner)(nil)).Elem(),
	reflect.TypeOf((*[]*MyInner)(nil)).Elem(),
	reflect.TypeOf((*map[string]MyInner)(nil)).Elem(),
	reflect.TypeOf((*map[string]*MyInner)(nil)).Elem(),
	reflect.TypeOf((*[]int8)(nil)).Elem(),
	reflect.TypeOf((*[]uint16)(nil)).Elem(),
	reflect.TypeOf((*[]int64)(nil)).Elem(),
	reflect.TypeOf((*[]uint64)(nil)).Elem(),
	reflect.TypeOf((*[]string)(nil)).Elem(),
	reflect.TypeOf((*[]bool)(nil)).Elem(),
	reflect.TypeOf((*[]float32)(nil)).Elem(),
	reflect.TypeOf((*[]float64)(nil)).Elem(),
	reflect.TypeOf((*[]byte)(nil)).Elem(),
	reflect.TypeOf((*[][]byte)(nil)).Elem(),
	reflect.TypeOf((*[]any)(nil)).Elem(),
	reflect.TypeOf((*[]*int)(nil)).Elem(),
	reflect.TypeOf((*[][]int)(nil)).Elem(),
	reflect.TypeOf((*[]MyInt8)(nil)).Elem(),
	reflect.TypeOf((*[]time.Duration)(nil)).Elem(),
	reflect.TypeOf((*[]time.Time)(nil)).Elem(),
	reflect.TypeOf((*[]map[string]int)(nil)).Elem(),
	reflect.TypeOf((*map[string]int8)(nil)).Elem(),
	reflect.TypeOf((*map[string]uint64)(nil)).Elem(),
	reflect.TypeOf((*map[string]string)(nil)).Elem(),
	reflect.TypeOf((*map[string]float32)(nil)).Elem(),
	reflect.TypeOf((*map[string]any)(nil)).Elem(),
	reflect.TypeOf((*map[string][]string)(nil)).Elem(),
	reflect.TypeOf((*map[string]MyString)(nil)).Elem(),
	reflect.TypeOf((*map[string]*int)(nil)).Elem(),
	reflect.TypeOf((*map[string]map[string]int)(nil)).Elem(),
	reflect.TypeOf((**int)(nil)).Elem(),
	reflect.TypeOf((**int8)(nil)).Elem(),
	reflect.TypeOf((**uint64)(nil)).Elem(),
	reflect.TypeOf((**string)(nil)).Elem(),
	reflect.TypeOf((**float32)(nil)).Elem(),
	reflect.TypeOf((**bool)(nil)).Elem(),
	reflect.TypeOf((**MyInt8)(nil)).Elem(),
	reflect.TypeOf((**time.Time)(nil)).Elem(),
	reflect.TypeOf((**time.Duration)(nil)).Elem(),
	reflect.TypeOf((**[]int)(nil)).Elem(),
	reflect.TypeOf((**map[string]int)(nil)).Elem(),
	reflect.TypeOf((***int)(nil)).Elem(),
	reflect.TypeOf((**any)(nil)).Elem(),
	reflect.TypeOf((*[2]int8)(nil)).Elem(),
	reflect.TypeOf((*[3]string)(nil)).Elem(),
	reflect.TypeOf((*[0]int)(nil)).Elem(),
	reflect.TypeOf((*[2][]int)(nil)).Elem(),
	reflect.TypeOf((*[2]*int)(nil)).Elem(),
}

var _ fs.FileMode
var _ time.Time

func (h *Host) Take000(v bool) bool                                           { h.record(v); return v }
func (h *Host) Ret000() bool                                                  { return h.ret.(bool) }
func (h *Host) Take001(v int) int                                             { h.record(v); return v }
func (h *Host) Ret001() int                                                   { return h.ret.(int) }
func (h *Host) Take002(v int8) int8                                           { h.record(v); return v }
func (h *Host) Ret002() int8                                                  { return h.ret.(int8) }
func (h *Host) Take003(v int16) int16                                         { h.record(v); return v }
func (h *Host) Ret003() int16                                                 { return h.ret.(int16) }
func (h *Host) Take004(v int32) int32                                         { h.record(v); return v }
func (h *Host) Ret004() int32                                                 { return h.ret.(int32) }
func (h *Host) Take005(v int64) int64                                         { h.record(v); return v }
func (h *Host) Ret005() int64                                                 { return h.ret.(int64) }
func (h *Host) Take006(v uint) uint                                           { h.record(v); return v }
func (h *Host) Ret006() uint                                                  { return h.ret.(uint) }
func (h *Host) Take007(v uint8) uint8                                         { h.record(v); return v }
func (h *Host) Ret007() uint8                                                 { return h.ret.(uint8) }
func (h *Host) Take008(v uint16) uint16                                       { h.record(v); return v }
func (h *Host) Ret008() uint16                                                { return h.ret.(uint16) }
func (h *Host) Take009(v uint32) uint32                                       { h.record(v); return v }
func (h *Host) Ret009() uint32                                                { return h.ret.(uint32) }
func (h *Host) Take010(v uint64) uint64                                       { h.record(v); return v }
func (h *Host) Ret010() uint64                                                { return h.ret.(uint64) }
func (h *Host) Take011(v float32) float32                                     { h.record(v); return v }
func (h *Host) Ret011() float32                                               { return h.ret.(float32) }
func (h *Host) Take012(v float64) float64                                     { h.record(v); return v }
func (h *Host) Ret012() float64                                               { return h.ret.(float64) }
func (h *Host) Take013(v string) string                                       { h.record(v); return v }
func (h *Host) Ret013() string                                                { return h.ret.(string) }
func (h *Host) Take014(v time.Time) time.Time                                 { h.record(v); return v }
func (h *Host) Ret014() time.Time                                             { return h.ret.(time.Time) }
func (h *Host) Take015(v error) error                                         { h.record(v); return v }
func (h *Host) Ret015() error                                                 { r, _ := h.ret.(error); return r }
func (h *Host) Take016(v Stringer) Stringer                                   { h.record(v); return v }
func (h *Host) Ret016() Stringer                                              { r, _ := h.ret.(Stringer); return r }
func (h *Host) Take017(v MyBool) MyBool                                       { h.record(v); return v }
func (h *Host) Ret017() MyBool                                                { return h.ret.(MyBool) }
func (h *Host) Take018(v MyInt) MyInt                                         { h.record(v); return v }
func (h *Host) Ret018() MyInt                                                 { return h.ret.(MyInt) }
func (h *Host) Take019(v MyInt8) MyInt8                                       { h.record(v); return v }
func (h *Host) Ret019() MyInt8                                                { return h.ret.(MyInt8) }
func (h *Host) Take020(v MyInt16) MyInt16                                     { h.record(v); return v }
func (h *Host) Ret020() MyInt16                                               { return h.ret.(MyInt16) }
func (h *Host) Take021(v MyInt32) MyInt32                                     { h.record(v); return v }
func (h *Host) Ret021() MyInt32                                               { return h.ret.(MyInt32) }
func (h *Host) Take022(v MyInt64) MyInt64                                     { h.record(v); return v }
func (h *Host) Ret022() MyInt64                                               { return h.ret.(MyInt64) }
func (h *Host) Take023(v MyUint) MyUint                                       { h.record(v); return v }
func (h *Host) Ret023() MyUint                                                { return h.ret.(MyUint) }
func (h *Host) Take024(v MyUint8) MyUint8                                     { h.record(v); return v }
func (h *Host) Ret024() MyUint8                                               { return h.ret.(MyUint8) }
func (h *Host) Take025(v MyUint16) MyUint16                                   { h.record(v); return v }
func (h *Host) Ret025() MyUint16                                              { return h.ret.(MyUint16) }
func (h *Host) Take026(v MyUint32) MyUint32                                   { h.record(v); return v }
func (h *Host) Ret026() MyUint32                                              { return h.ret.(MyUint32) }
func (h *Host) Take027(v MyUint64) MyUint64                                   { h.record(v); return v }
func (h *Host) Ret027() MyUint64                                              { return h.ret.(MyUint64) }
func (h *Host) Take028(v MyFloat32) MyFloat32                                 { h.record(v); return v }
func (h *Host) Ret028() MyFloat32                                             { return h.ret.(MyFloat32) }
func (h *Host) Take029(v MyFloat64) MyFloat64                                 { h.record(v); return v }
func (h *Host) Ret029() MyFloat64                                             { return h.ret.(MyFloat64) }
func (h *Host) Take030(v MyString) MyString                                   { h.record(v); return v }
func (h *Host) Ret030() MyString                                              { return h.ret.(MyString) }
func (h *Host) Take031(v time.Duration) time.Duration                         { h.record(v); return v }
func (h *Host) Ret031() time.Duration                                         { return h.ret.(time.Duration) }
func (h *Host) Take032(v time.Month) time.Month                               { h.record(v); return v }
func (h *Host) Ret032() time.Month                                            { return h.ret.(time.Month) }
func (h *Host) Take033(v time.Weekday) time.Weekday                           { h.record(v); return v }
func (h *Host) Ret033() time.Weekday                                          { return h.ret.(time.Weekday) }
func (h *Host) Take034(v fs.FileMode) fs.FileMode                             { h.record(v); return v }
func (h *Host) Ret034() fs.FileMode                                           { return h.ret.(fs.FileMode) }
func (h *Host) Take035(v MyBytes) MyBytes                                     { h.record(v); return v }
func (h *Host) Ret035() MyBytes                                               { return h.ret.(MyBytes) }
func (h *Host) Take036(v MySlice) MySlice                                     { h.record(v); return v }
func (h *Host) Ret036() MySlice                                               { return h.ret.(MySlice) }
func (h *Host) Take037(v MyStrs) MyStrs                                       { h.record(v); return v }
func (h *Host) Ret037() MyStrs                                                { return h.ret.(MyStrs) }
func (h *Host) Take038(v MyMap) MyMap                                         { h.record(v); return v }
func (h *Host) Ret038() MyMap                                                 { return h.ret.(MyMap) }
func (h *Host) Take039(v MyArr) MyArr                                         { h.record(v); return v }
func (h *Host) Ret039() MyArr                                                 { return h.ret.(MyArr) }
func (h *Host) Take040(v MyPtr) MyPtr                                         { h.record(v); return v }
func (h *Host) Ret040() MyPtr                                                 { return h.ret.(MyPtr) }
func (h *Host) Take041(v MyAny) MyAny                                         { h.record(v); return v }
func (h *Host) Ret041() MyAny                                                 { r, _ := h.ret.(MyAny); return r }
func (h *Host) Take042(v MyDurs) MyDurs                                       { h.record(v); return v }
func (h *Host) Ret042() MyDurs                                                { return h.ret.(MyDurs) }
func (h *Host) Take043(v MyNamedM) MyNamedM                                   { h.record(v); return v }
func (h *Host) Ret043() MyNamedM                                              { return h.ret.(MyNamedM) }
func (h *Host) Take044(v MyInner) MyInner                                     { h.record(v); return v }
func (h *Host) Ret044() MyInner                                               { return h.ret.(MyInner) }
func (h *Host) Take045(v MyStruct) MyStruct                                   { h.record(v); return v }
func (h *Host) Ret045() MyStruct                                              { return h.ret.(MyStruct) }
func (h *Host) Take046(v MyNode) MyNode                                       { h.record(v); return v }
func (h *Host) Ret046() MyNode                                                { return h.ret.(MyNode) }
func (h *Host) Take047(v MyNamedS) MyNamedS                                   { h.record(v); return v }
func (h *Host) Ret047() MyNamedS                                              { return h.ret.(MyNamedS) }
func (h *Host) Take048(v *MyInner) *MyInner                                   { h.record(v); return v }
func (h *Host) Ret048() *MyInner                                              { return h.ret.(*MyInner) }
func (h *Host) Take049(v *MyStruct) *MyStruct                                 { h.record(v); return v }
func (h *Host) Ret049() *MyStruct                                             { return h.ret.(*MyStruct) }
func (h *Host) Take050(v *MyNode) *MyNode                                     { h.record(v); return v }
func (h *Host) Ret050() *MyNode                                               { return h.ret.(*MyNode) }
func (h *Host) Take051(v *MyNamedS) *MyNamedS                                 { h.record(v); return v }
func (h *Host) Ret051() *MyNamedS                                             { return h.ret.(*MyNamedS) }
func (h *Host) Take052(v []MyInner) []MyInner                                 { h.record(v); return v }
func (h *Host) Ret052() []MyInner                                             { return h.ret.([]MyInner) }
func (h *Host) Take053(v []*MyInner) []*MyInner                               { h.record(v); return v }
func (h *Host) Ret053() []*MyInner                                            { return h.ret.([]*MyInner) }
func (h *Host) Take054(v map[string]MyInner) map[string]MyInner               { h.record(v); return v }
func (h *Host) Ret054() map[string]MyInner                                    { return h.ret.(map[string]MyInner) }
func (h *Host) Take055(v map[string]*MyInner) map[string]*MyInner             { h.record(v); return v }
func (h *Host) Ret055() map[string]*MyInner                                   { return h.ret.(map[string]*MyInner) }
func (h *Host) Take056(v []int8) []int8                                       { h.record(v); return v }
func (h *Host) Ret056() []int8                                                { return h.ret.([]int8) }
func (h *Host) Take057(v []uint16) []uint16                                   { h.record(v); return v }
func (h *Host) Ret057() []uint16                                              { return h.ret.([]uint16) }
func (h *Host) Take058(v []int64) []int64                                     { h.record(v); return v }
func (h *Host) Ret058() []int64                                               { return h.ret.([]int64) }
func (h *Host) Take059(v []uint64) []uint64                                   { h.record(v); return v }
func (h *Host) Ret059() []uint64                                              { return h.ret.([]uint64) }
func (h *Host) Take060(v []string) []string                                   { h.record(v); return v }
func (h *Host) Ret060() []string                                              { return h.ret.([]string) }
func (h *Host) Take061(v []bool) []bool                                       { h.record(v); return v }
func (h *Host) Ret061() []bool                                                { return h.ret.([]bool) }
func (h *Host) Take062(v []float32) []float32                                 { h.record(v); return v }
func (h *Host) Ret062() []float32                                             { return h.ret.([]float32) }
func (h *Host) Take063(v []float64) []float64                                 { h.record(v); return v }
func (h *Host) Ret063() []float64                                             { return h.ret.([]float64) }
func (h *Host) Take064(v []byte) []byte                                       { h.record(v); return v }
func (h *Host) Ret064() []byte                                                { return h.ret.([]byte) }
func (h *Host) Take065(v [][]byte) [][]byte                                   { h.record(v); return v }
func (h *Host) Ret065() [][]byte                                              { return h.ret.([][]byte) }
func (h *Host) Take066(v []any) []any                                         { h.record(v); return v }
func (h *Host) Ret066() []any                                                 { return h.ret.([]any) }
func (h *Host) Take067(v []*int) []*int                                       { h.record(v); return v }
func (h *Host) Ret067() []*int                                                { return h.ret.([]*int) }
func (h *Host) Take068(v [][]int) [][]int                                     { h.record(v); return v }
func (h *Host) Ret068() [][]int                                               { return h.ret.([][]int) }
func (h *Host) Take069(v []MyInt8) []MyInt8                                   { h.record(v); return v }
func (h *Host) Ret069() []MyInt8                                              { return h.ret.([]MyInt8) }
func (h *Host) Take070(v []time.Duration) []time.Duration                     { h.record(v); return v }
func (h *Host) Ret070() []time.Duration                                       { return h.ret.([]time.Duration) }
func (h *Host) Take071(v []time.Time) []time.Time                             { h.record(v); return v }
func (h *Host) Ret071() []time.Time                                           { return h.ret.([]time.Time) }
func (h *Host) Take072(v []map[string]int) []map[string]int                   { h.record(v); return v }
func (h *Host) Ret072() []map[string]int                                      { return h.ret.([]map[string]int) }
func (h *Host) Take073(v map[string]int8) map[string]int8                     { h.record(v); return v }
func (h *Host) Ret073() map[string]int8                                       { return h.ret.(map[string]int8) }
func (h *Host) Take074(v map[string]uint64) map[string]uint64                 { h.record(v); return v }
func (h *Host) Ret074() map[string]uint64                                     { return h.ret.(map[string]uint64) }
func (h *Host) Take075(v map[string]string) map[string]string                 { h.record(v); return v }
func (h *Host) Ret075() map[string]string                                     { return h.ret.(map[string]string) }
func (h *Host) Take076(v map[string]float32) map[string]float32               { h.record(v); return v }
func (h *Host) Ret076() map[string]float32                                    { return h.ret.(map[string]float32) }
func (h *Host) Take077(v map[string]any) map[string]any                       { h.record(v); return v }
func (h *Host) Ret077() map[string]any                                        { return h.ret.(map[string]any) }
func (h *Host) Take078(v map[string][]string) map[string][]string             { h.record(v); return v }
func (h *Host) Ret078() map[string][]string                                   { return h.ret.(map[string][]string) }
func (h *Host) Take079(v map[string]MyString) map[string]MyString             { h.record(v); return v }
func (h *Host) Ret079() map[string]MyString                                   { return h.ret.(map[string]MyString) }
func (h *Host) Take080(v map[string]*int) map[string]*int                     { h.record(v); return v }
func (h *Host) Ret080() map[string]*int                                       { return h.ret.(map[string]*int) }
func (h *Host) Take081(v map[string]map[string]int) map[string]map[string]int { h.record(v); return v }
func (h *Host) Ret081() map[string]map[string]int                             { return h.ret.(map[string]map[string]int) }
func (h *Host) Take082(v *int) *int                                           { h.record(v); return v }
func (h *Host) Ret082() *int                                                  { return h.ret.(*int) }
func (h *Host) Take083(v *int8) *int8                                         { h.record(v); return v }
func (h *Host) Ret083() *int8                                                 { return h.ret.(*int8) }
func (h *Host) Take084(v *uint64) *uint64                                     { h.record(v); return v }
func (h *Host) Ret084() *uint64                                               { return h.ret.(*uint64) }
func (h *Host) Take085(v *string) *string                                     { h.record(v); return v }
func (h *Host) Ret085() *string                                               { return h.ret.(*string) }
func (h *Host) Take086(v *float32) *float32                                   { h.record(v); return v }
func (h *Host) Ret086() *float32                                              { return h.ret.(*float32) }
func (h *Host) Take087(v *bool) *bool                                         { h.record(v); return v }
func (h *Host) Ret087() *bool                                                 { return h.ret.(*bool) }
func (h *Host) Take088(v *MyInt8) *MyInt8                                     { h.record(v); return v }
func (h *Host) Ret088() *MyInt8                                               { return h.ret.(*MyInt8) }
func (h *Host) Take089(v *time.Time) *time.Time                               { h.record(v); return v }
func (h *Host) Ret089() *time.Time                                            { return h.ret.(*time.Time) }
func (h *Host) Take090(v *time.Duration) *time.Duration                       { h.record(v); return v }
func (h *Host) Ret090() *time.Duration                                        { return h.ret.(*time.Duration) }
func (h *Host) Take091(v *[]int) *[]int                                       { h.record(v); return v }
func (h *Host) Ret091() *[]int                                                { return h.ret.(*[]int) }
func (h *Host) Take092(v *map[string]int) *map[string]int                     { h.record(v); return v }
func (h *Host) Ret092() *map[string]int                                       { return h.ret.(*map[string]int) }
func (h *Host) Take093(v **int) **int                                         { h.record(v); return v }
func (h *Host) Ret093() **int                                                 { return h.ret.(**int) }
func (h *Host) Take094(v *any) *any                                           { h.record(v); return v }
func (h *Host) Ret094() *any                                                  { return h.ret.(*any) }
func (h *Host) Take095(v [2]int8) [2]int8                                     { h.record(v); return v }
func (h *Host) Ret095() [2]int8                                               { return h.ret.([2]int8) }
func (h *Host) Take096(v [3]string) [3]string                                 { h.record(v); return v }
func (h *Host) Ret096() [3]string                                             { return h.ret.([3]string) }
func (h *Host) Take097(v [0]int) [0]int                                       { h.record(v); return v }
func (h *Host) Ret097() [0]int                                                { return h.ret.([0]int) }
func (h *Host) Take098(v [2][]int) [2][]int                                   { h.record(v); return v }
func (h *Host) Ret098() [2][]int                                              { return h.ret.([2][]int) }
func (h *Host) Take099(v [2]*int) [2]*int                                     { h.record(v); return v }
func (h *Host) Ret099() [2]*int                                               { return h.ret.([2]*int) }
