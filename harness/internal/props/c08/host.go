package c08

import (
	"context"
	"errors"
	"fmt"
	"reflect"
)

// Host is the declared struct whose methods the scripts call through a proxy. All state is
// unexported so that the proxy exposes methods only. TakeNNN(v T) T records the argument it
// received and returns it; RetNNN() T returns the value stored by the harness (host_gen.go).
type Host struct {
	got   []any
	calls []string
	ret   any
}

func (h *Host) record(v any) { h.got = append(h.got, v) }

// TakeAny / RetAny: the dynamically typed route, usable for every generated type.
func (h *Host) TakeAny(v any) any { h.record(v); return v }
func (h *Host) RetAny() any       { return h.ret }

// Methods with several parameters / results, a context, a variadic tail and an error result.
func (h *Host) Multi2(a int8, b string) string {
	h.calls = append(h.calls, fmt.Sprintf("Multi2(%d,%q)", a, b))
	return fmt.Sprintf("%d|%s", a, b)
}

func (h *Host) Multi3(a []string, b map[string]float64, c *MyInner, d uint16) int {
	h.calls = append(h.calls, fmt.Sprintf("Multi3(%q,%v,%v,%d)", a, len(b), c != nil, d))
	h.got = append(h.got, a, b, c, d)
	return len(a) + len(b) + int(d)
}

func (h *Host) MultiRet(a int, b string) (string, int, float32) {
	h.calls = append(h.calls, fmt.Sprintf("MultiRet(%d,%q)", a, b))
	return b, a, 0.5
}

func (h *Host) MultiCtx(ctx context.Context, a int, b string) string {
	h.calls = append(h.calls, fmt.Sprintf("MultiCtx(%v,%d,%q)", ctx != nil, a, b))
	return fmt.Sprintf("%d|%s", a, b)
}

func (h *Host) MultiErr(a int) (int, error) {
	h.calls = append(h.calls, fmt.Sprintf("MultiErr(%d)", a))
	if a < 0 {
		return 0, errors.New("negative")
	}
	return a * 2, nil
}

func (h *Host) MultiVar(a string, rest ...int) int {
	h.calls = append(h.calls, fmt.Sprintf("MultiVar(%q,%v)", a, rest))
	s := 0
	for _, r := range rest {
		s += r
	}
	return s
}

// parameters of one Go type: only the order tells them apart
func (h *Host) SameType2(a, b int) int {
	h.calls = append(h.calls, fmt.Sprintf("SameType2(%d,%d)", a, b))
	return a - b
}

func (h *Host) SameType4(a, b, c, d string) string {
	h.calls = append(h.calls, fmt.Sprintf("SameType4(%q,%q,%q,%q)", a, b, c, d))
	return a + b + c + d
}

func (h *Host) NoArgs() int {
	h.calls = append(h.calls, "NoArgs()")
	return 7
}

func (h *Host) NoResult(a int) {
	h.calls = append(h.calls, fmt.Sprintf("NoResult(%d)", a))
}

var hostIndex = map[reflect.Type]int{}

func init() {
	for i, rt := range hostTypes {
		hostIndex[rt] = i
	}
}

// BadHost has a method whose parameter type cannot be converted; giving it to a script must be
// rejected with an error (or work as long as that method is not called), never panic.
type BadHost struct{ n int }

func (b *BadHost) Fine(a int) int      { return a + 1 }
func (b *BadHost) Chan(c chan int) int { return 1 }
