package c08

import (
	"fmt"
	"math"
	"reflect"
	"sort"
	"strconv"
	"strings"
	"time"

	"github.com/risor-io/risor/object"
)

// node is the "contents" of a Go value or of a risor object under the pinned representation
// relation: the Go type names, integer widths, pointer-ness and nil-vs-empty are forgotten,
// everything else is kept.
type node struct {
	K      string // nil num float str bool time list map struct err opaque
	Neg    bool   // num: sign
	Mag    uint64 // num: magnitude
	F      uint64 // float: bits of the float64 value
	S      string // str / err message / opaque description
	B      bool
	T      time.Time
	L      []node   // list elements, map values, struct field values
	Keys   []string // map keys / struct field names (sorted for maps)
	IsNil  bool     // list/map that was a nil slice/map
	ObjTyp string   // for nodes made from risor objects: the object type
}

func numNode(i int64) node {
	if i < 0 {
		return node{K: "num", Neg: true, Mag: uint64(-(i + 1)) + 1}
	}
	return node{K: "num", Mag: uint64(i)}
}

func unumNode(u uint64) node { return node{K: "num", Mag: u} }

func (n node) String() string {
	switch n.K {
	case "nil":
		return "nil"
	case "num":
		if n.Neg {
			return "-" + strconv.FormatUint(n.Mag, 10)
		}
		return strconv.FormatUint(n.Mag, 10)
	case "float":
		f := math.Float64frombits(n.F)
		return fmt.Sprintf("float(%v|%#x)", f, n.F)
	case "str":
		return strconv.Quote(n.S)
	case "bool":
		return strconv.FormatBool(n.B)
	case "time":
		return "time(" + n.T.Format(time.RFC3339Nano) + " " + n.T.Location().String() + ")"
	case "list":
		parts := make([]string, len(n.L))
		for i, e := range n.L {
			parts[i] = e.String()
		}
		if n.IsNil {
			return "nil-list"
		}
		return "[" + strings.Join(parts, ", ") + "]"
	case "map", "struct":
		parts := make([]string, len(n.L))
		for i, e := range n.L {
			parts[i] = strconv.Quote(n.Keys[i]) + ": " + e.String()
		}
		if n.IsNil {
			return "nil-map"
		}
		return n.K + "{" + strings.Join(parts, ", ") + "}"
	case "err":
		return "error(" + strconv.Quote(n.S) + ")"
	}
	return n.K + "<" + n.S + ">"
}

// canonGo: contents of a Go value.
func canonGo(v reflect.Value, guard int) node {
	if !v.IsValid() {
		return node{K: "nil"}
	}
	if guard > 40 {
		return node{K: "opaque", S: "too deep"}
	}
	rt := v.Type()
	if rt == timeType {
		return node{K: "time", T: v.Interface().(time.Time)}
	}
	switch v.Kind() {
	case reflect.Interface:
		if v.IsNil() {
			return node{K: "nil"}
		}
		if rt == errorType {
			if e, ok := v.Interface().(error); ok {
				return node{K: "err", S: e.Error()}
			}
		}
		return canonGo(v.Elem(), guard+1)
	case reflect.Ptr:
		if v.IsNil() {
			return node{K: "nil"}
		}
		return canonGo(v.Elem(), guard+1)
	case reflect.Bool:
		return node{K: "bool", B: v.Bool()}
	case reflect.Int, reflect.Int8, reflect.Int16, reflect.Int32, reflect.Int64:
		return numNode(v.Int())
	case reflect.Uint, reflect.Uint8, reflect.Uint16, reflect.Uint32, reflect.Uint64, reflect.Uintptr:
		return unumNode(v.Uint())
	case reflect.Float32, reflect.Float64:
		return node{K: "float", F: math.Float64bits(v.Float())}
	case reflect.String:
		return node{K: "str", S: v.String()}
	case reflect.Slice, reflect.Array:
		n := node{K: "list", IsNil: v.Kind() == reflect.Slice && v.IsNil()}
		for i := 0; i < v.Len(); i++ {
			n.L = append(n.L, canonGo(v.Index(i), guard+1))
		}
		return n
	case reflect.Map:
		n := node{K: "map", IsNil: v.IsNil()}
		if rt.Key().Kind() != reflect.String {
			return node{K: "opaque", S: rt.String()}
		}
		keys := make([]string, 0, v.Len())
		for _, k := range v.MapKeys() {
			keys = append(keys, k.String())
		}
		sort.Strings(keys)
		for _, k := range keys {
			n.Keys = append(n.Keys, k)
			n.L = append(n.L, canonGo(v.MapIndex(reflect.ValueOf(k).Convert(rt.Key())), guard+1))
		}
		return n
	case reflect.Struct:
		n := node{K: "struct"}
		for i := 0; i < rt.NumField(); i++ {
			f := rt.Field(i)
			if !f.IsExported() {
				continue
			}
			n.Keys = append(n.Keys, f.Name)
			n.L = append(n.L, canonGo(v.Field(i), guard+1))
		}
		return n
	}
	return node{K: "opaque", S: rt.String()}
}

// canonObj: contents of a risor object, without going through Interface() except for proxies
// (whose contents are the wrapped Go value by definition).
func canonObj(o object.Object, guard int) node {
	if o == nil {
		return node{K: "opaque", S: "<no object>", ObjTyp: "none"}
	}
	if guard > 40 {
		return node{K: "opaque", S: "too deep"}
	}
	var n node
	switch o := o.(type) {
	case *object.NilType:
		n = node{K: "nil"}
	case *object.Int:
		n = numNode(o.Value())
	case *object.Byte:
		n = unumNode(uint64(o.Value()))
	case *object.Float:
		n = node{K: "float", F: math.Float64bits(o.Value())}
	case *object.String:
		n = node{K: "str", S: o.Value()}
	case *object.Bool:
		n = node{K: "bool", B: o.Value()}
	case *object.Time:
		n = node{K: "time", T: o.Value()}
	case *object.List:
		n = node{K: "list"}
		for _, e := range o.Value() {
			n.L = append(n.L, canonObj(e, guard+1))
		}
	case *object.Map:
		n = node{K: "map"}
		items := o.Value()
		keys := make([]string, 0, len(items))
		for k := range items {
			keys = append(keys, k)
		}
		sort.Strings(keys)
		for _, k := range keys {
			n.Keys = append(n.Keys, k)
			n.L = append(n.L, canonObj(items[k], guard+1))
		}
	case *object.ByteSlice:
		n = node{K: "list"}
		for _, b := range o.Value() {
			n.L = append(n.L, unumNode(uint64(b)))
		}
	case *object.FloatSlice:
		n = node{K: "list"}
		for _, f := range o.Value() {
			n.L = append(n.L, node{K: "float", F: math.Float64bits(f)})
		}
	case *object.Error:
		msg := "<nil error>"
		if e := o.Value(); e != nil {
			msg = e.Error()
		}
		n = node{K: "err", S: msg}
	case *object.Proxy:
		n = canonGo(reflect.ValueOf(o.Interface()), guard+1)
	default:
		n = node{K: "opaque", S: string(o.Type())}
	}
	n.ObjTyp = string(o.Type())
	return n
}

// diff compares the reference contents with what was observed. It returns "" when they are equal,
// else a failure class and a human description of the first difference.
func diff(ref, got node, where string) (string, string) {
	emptyish := func(n node) bool {
		return n.K == "nil" || ((n.K == "list" || n.K == "map") && len(n.L) == 0)
	}
	if emptyish(ref) && emptyish(got) {
		// nil and empty containers are not told apart (a nil slice may come back as an empty list)
		if (ref.K == "list" && got.K == "map") || (ref.K == "map" && got.K == "list") {
			return "wrong-type", fmt.Sprintf("%s: %s expected, %s observed", where, ref.K, got.K)
		}
		return "", ""
	}
	if ref.K == "opaque" {
		return "", ""
	}
	if got.K == "opaque" {
		if got.ObjTyp != "" {
			return "wrong-type", fmt.Sprintf("%s: expected %s %s, the script holds a %s", where, ref.K, short(ref), got.S)
		}
		return "", ""
	}
	if ref.K != got.K {
		// an error value is its message; its dynamic Go value may show as a proxy (pointer to a
		// struct) or as a string with the same text (named string type)
		if ref.K == "err" && (got.K == "struct" || (got.K == "str" && got.S == ref.S)) {
			return "", ""
		}
		if got.K == "nil" {
			return "lost-value", fmt.Sprintf("%s: expected %s, observed nil", where, short(ref))
		}
		if ref.K == "nil" {
			return "value-from-nil", fmt.Sprintf("%s: expected nil, observed %s", where, short(got))
		}
		return "wrong-type", fmt.Sprintf("%s: expected %s %s, observed %s %s", where, ref.K, short(ref), got.K, short(got))
	}
	switch ref.K {
	case "num":
		if ref.Neg != got.Neg || ref.Mag != got.Mag {
			cls := "wrong-number"
			if !ref.Neg && ref.Mag > math.MaxInt64 && got.Neg && got.Mag == -ref.Mag {
				cls = "silent-wraparound"
			}
			return cls, fmt.Sprintf("%s: expected %s, observed %s", where, ref, got)
		}
	case "float":
		if ref.F != got.F {
			return "wrong-float", fmt.Sprintf("%s: expected %s, observed %s", where, ref, got)
		}
	case "str":
		if ref.S != got.S {
			return "wrong-string", fmt.Sprintf("%s: expected %s, observed %s", where, short(ref), short(got))
		}
	case "bool":
		if ref.B != got.B {
			return "wrong-bool", fmt.Sprintf("%s: expected %v, observed %v", where, ref.B, got.B)
		}
	case "time":
		_, o1 := ref.T.Zone()
		_, o2 := got.T.Zone()
		if !ref.T.Equal(got.T) || o1 != o2 || ref.T.Location().String() != got.T.Location().String() {
			return "wrong-time", fmt.Sprintf("%s: expected %s, observed %s", where, ref, got)
		}
	case "err":
		if ref.S != got.S {
			return "wrong-error", fmt.Sprintf("%s: expected %s, observed %s", where, short(ref), short(got))
		}
	case "list":
		if len(ref.L) != len(got.L) {
			return "wrong-length", fmt.Sprintf("%s: expected %d elements %s, observed %d %s", where, len(ref.L), short(ref), len(got.L), short(got))
		}
		for i := range ref.L {
			if c, d := diff(ref.L[i], got.L[i], fmt.Sprintf("%s[%d]", where, i)); c != "" {
				return c, d
			}
		}
	case "map", "struct":
		if strings.Join(ref.Keys, "\x00") != strings.Join(got.Keys, "\x00") || len(ref.Keys) != len(got.Keys) {
			return "wrong-keys", fmt.Sprintf("%s: expected keys %q, observed %q", where, ref.Keys, got.Keys)
		}
		for i := range ref.L {
			if c, d := diff(ref.L[i], got.L[i], fmt.Sprintf("%s[%q]", where, ref.Keys[i])); c != "" {
				return c, d
			}
		}
	}
	return "", ""
}

func short(n node) string {
	s := n.String()
	if len(s) > 200 {
		return s[:200] + "…"
	}
	return s
}

// nat builds the risor object a script would naturally hold for the Go value (ints as int,
// floats as float, slices/arrays as lists, string-keyed maps as maps, nil as nil). ok=false when
// there is no natural script value (structs, errors, uint64 above MaxInt64, ...).
// oor != "" replaces every narrow integer leaf by a script int outside its range ("lo": below
// the minimum, "hi": above the maximum); hasOOR reports whether any leaf was replaced.
func nat(v reflect.Value, oor string, hasOOR *bool, guard int) (object.Object, bool) {
	if !v.IsValid() || guard > 40 {
		return nil, false
	}
	rt := v.Type()
	if rt == timeType {
		return object.NewTime(v.Interface().(time.Time)), true
	}
	switch v.Kind() {
	case reflect.Interface:
		if v.IsNil() {
			return object.Nil, true
		}
		// nothing is narrow inside an interface position
		return nat(v.Elem(), "", hasOOR, guard+1)
	case reflect.Ptr:
		if v.IsNil() {
			return object.Nil, true
		}
		return nat(v.Elem(), oor, hasOOR, guard+1)
	case reflect.Bool:
		return object.NewBool(v.Bool()), true
	case reflect.Int, reflect.Int8, reflect.Int16, reflect.Int32, reflect.Int64:
		bits := rt.Bits()
		if oor != "" && bits < 64 {
			*hasOOR = true
			if oor == "lo" {
				return object.NewInt(int64(-1)<<(bits-1) - 1), true
			}
			return object.NewInt(int64(1) << (bits - 1)), true
		}
		return object.NewInt(v.Int()), true
	case reflect.Uint, reflect.Uint8, reflect.Uint16, reflect.Uint32, reflect.Uint64:
		bits := rt.Bits()
		if oor == "lo" {
			*hasOOR = true
			return object.NewInt(-1), true
		}
		if oor == "hi" && bits < 64 {
			*hasOOR = true
			return object.NewInt(int64(1) << bits), true
		}
		if v.Uint() > math.MaxInt64 {
			return nil, false
		}
		return object.NewInt(int64(v.Uint())), true
	case reflect.Float32, reflect.Float64:
		return object.NewFloat(v.Float()), true
	case reflect.String:
		return object.NewString(v.String()), true
	case reflect.Slice, reflect.Array:
		if v.Kind() == reflect.Slice && v.IsNil() {
			return object.Nil, true
		}
		if rt == reflect.TypeOf([]byte(nil)) && oor == "" {
			return object.NewByteSlice(append([]byte{}, v.Bytes()...)), true
		}
		items := make([]object.Object, 0, v.Len())
		for i := 0; i < v.Len(); i++ {
			o, ok := nat(v.Index(i), oor, hasOOR, guard+1)
			if !ok {
				return nil, false
			}
			items = append(items, o)
		}
		return object.NewList(items), true
	case reflect.Map:
		if rt.Key().Kind() != reflect.String {
			return nil, false
		}
		if v.IsNil() {
			return object.Nil, true
		}
		m := map[string]object.Object{}
		for _, k := range v.MapKeys() {
			o, ok := nat(v.MapIndex(k), oor, hasOOR, guard+1)
			if !ok {
				return nil, false
			}
			m[k.String()] = o
		}
		return object.NewMap(m), true
	}
	return nil, false
}
