package props

import "verif/internal/props/c08"

func init() { registrars = append(registrars, c08.Register) }
