package props

import "verif/internal/props/c16"

func init() { registrars = append(registrars, c16.Register) }
