package c14

import (
	"fmt"
	"strings"

	"verif/internal/mon"
)

// Sub is one evaluation: a module tree, an importer kind, a main script and (for graph cases) what
// a correct importer must make observable.
type Sub struct {
	ID        string            `json:"id"`
	Kind      string            `json:"kind"` // graph | spawn | cycle | hostile
	Imp       string            `json:"imp"`  // fs | local | localcfg
	Tree      int               `json:"tree"` // index of the shared tree (LocalImporter: <lt>/t<Tree>/outer/root)
	Files     map[string]string `json:"files"`
	Extra     map[string]string `json:"extra,omitempty"` // files added for this case only (hostile import inside a module)
	Main      string            `json:"main"`
	Conc      bool              `json:"conc"`
	Spelling  string            `json:"spelling"`
	PathClass string            `json:"path_class"`
	Shape     string            `json:"shape"`
	Want      *Want             `json:"want,omitempty"`
}

type Want struct {
	Out   []int    `json:"out"`   // expected content of the script's result list
	Class []string `json:"class"` // per position: state | globals | nojudge
	Ticks []string `json:"ticks"` // modules whose body must have run (each exactly once)
	// modules that are imported for the first time inside >= 2 spawned goroutines (shape of D23)
	GoroutinesFirst []string `json:"goroutines_first,omitempty"`
	// modules imported for the first time inside exactly one spawned goroutine and later by the parent
	OneGoroutineThenParent []string `json:"one_goroutine_then_parent,omitempty"`
	// where the first import statements naming each module sit (top | block | func | goroutine | dep | lazy-dep)
	Attempts map[string][]string `json:"attempts,omitempty"`
}

type genEnv struct {
	Base     uint64 `json:"base"`
	TreeBase uint64 `json:"tree_base"`
	NTrees   int    `json:"n_trees"`
	LT       string `json:"lt"` // directory holding the materialised trees of the LocalImporter pool
}

// ---------------------------------------------------------------------------------------
// main script generation for graph cases

type binding struct {
	mod    int
	handle string            // module handle, or ""
	funcs  map[string]string // function binding
	names  []string          // names this binding occupies in the scope
}

type mainGen struct {
	r     *mon.Rand
	t     *Tree
	m     *model
	lines []string
	binds []binding
	want  *Want
	nal   int
	spell map[string]int
}

const mainPrelude = "gv := 7\ncnt := 5000\nlst := [0, 0, 0]\nout := []\nfunc mget() { return gv }\nfunc mset(v) { gv = v; return gv }\nfunc minc() { cnt++; return cnt }\n"

func (g *mainGen) alias() string {
	g.nal++
	return fmt.Sprintf("h%d", g.nal)
}

func (g *mainGen) emit(s string) { g.lines = append(g.lines, s) }

func (g *mainGen) observe(expr string, val int, class string) {
	g.emit("out.append(" + expr + ")")
	g.want.Out = append(g.want.Out, val)
	g.want.Class = append(g.want.Class, class)
}

// bind emits a top-level import of module i in a random spelling and registers the binding.
func (g *mainGen) bind(i int) {
	d := spell(g.r, g.t.Mods[i], g.r.Chance(1, 3), g.alias(), true)
	g.spell[d.Spelling]++
	g.emit(d.Stmt)
	g.m.load(i, "top")
	b := binding{mod: i, handle: d.Handle, funcs: d.Funcs}
	if d.Handle != "" {
		b.names = []string{d.Handle}
	} else {
		for _, n := range d.Funcs {
			b.names = append(b.names, n)
		}
	}
	// a later binding of the same name replaces the earlier one (same names at different levels)
	var keep []binding
	for _, old := range g.binds {
		clash := false
		for _, n := range old.names {
			for _, n2 := range b.names {
				if n == n2 {
					clash = true
				}
			}
		}
		if !clash {
			keep = append(keep, old)
		}
	}
	g.binds = append(keep, b)
}

// op emits one observation through a binding.
func (g *mainGen) op(b binding) {
	mod := g.t.Mods[b.mod]
	arg := g.r.Range(1, 99999)
	if b.handle != "" {
		h := b.handle
		choices := []string{"inc", "inc", "push", "getcnt", "attrcnt", "lenlst", "applst", "getgv", "attrgv", "setgv"}
		if len(mod.Deps) > 0 {
			choices = append(choices, "fwd", "fwd", "fwd")
		}
		c := mon.Pick(g.r, choices)
		switch c {
		case "inc", "getcnt", "getgv":
			v, cl := g.m.apply(b.mod, c, 0)
			g.observe(h+"."+c+"()", v, cl)
		case "push":
			v, cl := g.m.apply(b.mod, c, 0)
			g.observe(h+".push(0)", v, cl)
		case "setgv":
			v, cl := g.m.apply(b.mod, c, arg)
			g.observe(fmt.Sprintf("%s.setgv(%d)", h, arg), v, cl)
		case "attrcnt":
			v, cl := g.m.apply(b.mod, c, 0)
			g.observe(h+".cnt", v, cl)
		case "attrgv":
			v, cl := g.m.apply(b.mod, c, 0)
			g.observe(h+".gv", v, cl)
		case "lenlst":
			v, cl := g.m.apply(b.mod, c, 0)
			g.observe("len("+h+".lst)", v, cl)
		case "applst":
			g.emit(h + ".lst.append(0)")
			v, cl := g.m.apply(b.mod, c, 0)
			g.observe("len("+h+".lst)", v, cl)
		case "fwd":
			k := g.r.Intn(len(mod.Deps))
			d := mod.Deps[k]
			fop := mon.Pick(g.r, fwdOps)
			pre := "fwd"
			if d.Lazy {
				pre = "lazy"
				g.m.load(d.Target, "lazy-dep")
			}
			a := ""
			if fop == "setgv" {
				a = fmt.Sprint(arg)
			}
			v, cl := g.m.apply(d.Target, fop, arg)
			g.observe(fmt.Sprintf("%s.%s%d_%s(%s)", h, pre, k, fop, a), v, cl)
		}
		return
	}
	c := mon.Pick(g.r, []string{"inc", "inc", "push", "getcnt", "getgv", "setgv", "lenlst", "applst"})
	if b.funcs["lst"] == "" && (c == "lenlst" || c == "applst") {
		c = "push"
	}
	switch c {
	case "inc", "getcnt", "getgv":
		v, cl := g.m.apply(b.mod, c, 0)
		g.observe(b.funcs[c]+"()", v, cl)
	case "push":
		v, cl := g.m.apply(b.mod, c, 0)
		g.observe(b.funcs[c]+"(0)", v, cl)
	case "setgv":
		v, cl := g.m.apply(b.mod, c, arg)
		g.observe(fmt.Sprintf("%s(%d)", b.funcs[c], arg), v, cl)
	case "lenlst":
		v, cl := g.m.apply(b.mod, c, 0)
		g.observe("len("+b.funcs["lst"]+")", v, cl)
	case "applst":
		g.emit(b.funcs["lst"] + ".append(0)")
		v, cl := g.m.apply(b.mod, c, 0)
		g.observe("len("+b.funcs["lst"]+")", v, cl)
	}
}

// mainOp touches the main script's own same-named globals.
func (g *mainGen) mainOp() {
	switch g.r.Intn(7) {
	case 0:
		v := g.r.Range(1, 99999)
		g.m.gv = v
		g.emit(fmt.Sprintf("gv = %d", v))
		g.observe("gv", g.m.gv, "globals")
	case 1:
		g.observe("mget()", g.m.gv, "globals")
	case 2:
		v := g.r.Range(1, 99999)
		g.m.gv = v
		g.observe(fmt.Sprintf("mset(%d)", v), v, "globals")
	case 3:
		g.m.cnt++
		g.observe("minc()", g.m.cnt, "globals")
	case 4:
		g.observe("cnt", g.m.cnt, "globals")
	case 5:
		g.m.lst++
		g.emit("lst.append(0)")
		g.observe("len(lst)", g.m.lst, "globals")
	default:
		g.observe("gv", g.m.gv, "globals")
	}
}

// inFunc emits a function that imports module i in its body and uses it, and calls it several times.
func (g *mainGen) inFunc(i int) string {
	d := spell(g.r, g.t.Mods[i], g.r.Chance(1, 4), g.alias(), true)
	g.spell[d.Spelling+"@func"]++
	g.nal++
	fn := fmt.Sprintf("w%d", g.nal)
	op := mon.Pick(g.r, []string{"inc", "inc", "push", "getcnt", "getgv"})
	arg := ""
	if op == "push" {
		arg = "0"
	}
	g.emit(fmt.Sprintf("func %s() {\n  %s\n  return %s\n}", fn, strings.ReplaceAll(d.Stmt, "\n", "\n  "), callOn(d, op, arg)))
	return fn + ":" + op
}

func (g *mainGen) callInFunc(i int, fnop string, times int, loop bool) {
	parts := strings.SplitN(fnop, ":", 2)
	fn, op := parts[0], parts[1]
	if loop {
		g.emit(fmt.Sprintf("for i := 0; i < %d; i++ { out.append(%s()) }", times, fn))
		for k := 0; k < times; k++ {
			g.m.load(i, "func")
			v, cl := g.m.apply(i, op, 0)
			g.want.Out = append(g.want.Out, v)
			g.want.Class = append(g.want.Class, cl)
		}
		return
	}
	for k := 0; k < times; k++ {
		g.m.load(i, "func")
		v, cl := g.m.apply(i, op, 0)
		g.observe(fn+"()", v, cl)
	}
}

// inBlock emits an import inside an if-block or a loop body at top level.
func (g *mainGen) inBlock(i int) {
	d := spell(g.r, g.t.Mods[i], g.r.Chance(1, 4), g.alias(), false)
	g.spell[d.Spelling+"@block"]++
	stmt := strings.ReplaceAll(d.Stmt, "\n", "\n  ")
	if g.r.Bool() {
		g.emit(fmt.Sprintf("if len(out) >= 0 {\n  %s\n  out.append(%s)\n}", stmt, callOn(d, "inc", "")))
		g.m.load(i, "block")
		v, cl := g.m.apply(i, "inc", 0)
		g.want.Out = append(g.want.Out, v)
		g.want.Class = append(g.want.Class, cl)
		return
	}
	n := g.r.Range(2, 4)
	g.emit(fmt.Sprintf("for i := 0; i < %d; i++ {\n  %s\n  out.append(%s)\n}", n, stmt, callOn(d, "inc", "")))
	for k := 0; k < n; k++ {
		g.m.load(i, "block")
		v, cl := g.m.apply(i, "inc", 0)
		g.want.Out = append(g.want.Out, v)
		g.want.Class = append(g.want.Class, cl)
	}
}

func (g *mainGen) finish() string {
	g.want.Ticks = append([]string{}, g.m.ticks...)
	g.want.Attempts = g.m.attempts
	return mainPrelude + strings.Join(g.lines, "\n") + "\nout\n"
}

func topSpelling(m map[string]int) string {
	best, bn := "", -1
	for k, n := range m {
		if n > bn || (n == bn && k < best) {
			best, bn = k, n
		}
	}
	return best
}

func genGraph(r *mon.Rand, t *Tree, s *Sub) {
	g := &mainGen{r: r, t: t, m: newModel(t), want: &Want{}, spell: map[string]int{}}
	steps := r.Range(6, 22)
	feature := "plain"
	var fns []struct {
		mod int
		fn  string
	}
	for n := 0; n < steps; n++ {
		roll := r.Intn(100)
		switch {
		case len(g.binds) == 0 && len(fns) == 0 || roll < 22:
			g.bind(r.Intn(len(t.Mods)))
		case roll < 34:
			i := r.Intn(len(t.Mods))
			fns = append(fns, struct {
				mod int
				fn  string
			}{i, g.inFunc(i)})
			feature = "infunc"
		case roll < 46 && len(fns) > 0:
			f := mon.Pick(r, fns)
			g.callInFunc(f.mod, f.fn, r.Range(1, 4), r.Chance(1, 3))
		case roll < 52:
			g.inBlock(r.Intn(len(t.Mods)))
			if feature == "plain" {
				feature = "inblock"
			}
		case roll < 60:
			g.mainOp()
		default:
			if len(g.binds) > 0 {
				g.op(mon.Pick(r, g.binds))
			} else {
				g.mainOp()
			}
		}
	}
	// every declared in-function importer is called at least once
	for _, f := range fns {
		g.callInFunc(f.mod, f.fn, 2, false)
	}
	// a final read of every module's state through a fresh alias, and of main's globals
	for i := range t.Mods {
		if g.m.st[i].loaded && r.Chance(2, 3) {
			g.bind(i)
			b := g.binds[len(g.binds)-1]
			if b.handle != "" {
				g.observe(b.handle+".cnt", g.m.st[i].cnt, "state")
				g.observe(b.handle+".gv", g.m.st[i].gv, "globals")
			} else {
				g.observe(b.funcs["getcnt"]+"()", g.m.st[i].cnt, "state")
				g.observe(b.funcs["getgv"]+"()", g.m.st[i].gv, "globals")
			}
		}
	}
	g.observe("gv", g.m.gv, "globals")
	g.observe("cnt", g.m.cnt, "globals")
	g.observe("len(lst)", g.m.lst, "globals")
	s.Main = g.finish()
	s.Want = g.want
	s.Spelling = topSpelling(g.spell)
	s.PathClass = pathClassOfTree(t)
	s.Shape = t.Shape + "/" + feature
}

func pathClassOfTree(t *Tree) string {
	nested, uni := false, false
	for _, m := range t.Mods {
		if strings.Contains(m.ID, "/") {
			nested = true
		}
		if !m.ascii() {
			uni = true
		}
	}
	switch {
	case uni:
		return "valid-unicode"
	case nested:
		return "valid-nested"
	}
	return "valid-ident"
}

// genSpawn: imports inside functions run by spawned goroutines (needs WithConcurrency).
func genSpawn(r *mon.Rand, t *Tree, s *Sub) {
	g := &mainGen{r: r, t: t, m: newModel(t), want: &Want{}, spell: map[string]int{}}
	s.Conc = true
	target := r.Intn(len(t.Mods))
	variant := mon.Pick(r, []string{"preloaded", "goroutines-first-seq", "goroutines-first-seq", "goroutines-first-conc", "one-goroutine-then-parent"})
	// unrelated warm-up through another module
	if len(t.Mods) > 1 && r.Bool() {
		other := (target + 1 + r.Intn(len(t.Mods)-1)) % len(t.Mods)
		// the warm-up must not load the target as a dependency in the goroutines-first variants
		probe := newModel(t)
		probe.load(other, "top")
		if variant == "preloaded" || !probe.st[target].loaded {
			g.bind(other)
			g.op(g.binds[0])
		}
	}
	if variant == "preloaded" {
		g.bind(target)
		g.op(g.binds[len(g.binds)-1])
	}
	d := spell(r, t.Mods[target], r.Chance(1, 4), g.alias(), true)
	g.spell[d.Spelling+"@goroutine"]++
	g.emit(fmt.Sprintf("func w() {\n  %s\n  return %s\n}", strings.ReplaceAll(d.Stmt, "\n", "\n  "), callOn(d, "inc", "")))
	var first []string
	n := r.Range(2, 3)
	switch variant {
	case "preloaded", "goroutines-first-seq":
		for k := 0; k < n; k++ {
			if variant != "preloaded" {
				g.m.loadLog = &first
			}
			g.m.load(target, "goroutine")
			g.m.loadLog = nil
			v, cl := g.m.apply(target, "inc", 0)
			g.emit(fmt.Sprintf("t%d := spawn(w)", k))
			g.observe(fmt.Sprintf("t%d.wait()", k), v, cl)
		}
		if variant != "preloaded" {
			g.want.GoroutinesFirst = first
		}
	case "goroutines-first-conc":
		g.m.loadLog = &first
		g.m.load(target, "goroutine")
		g.m.load(target, "goroutine")
		g.m.loadLog = nil
		var waits []string
		for k := 0; k < n; k++ {
			g.emit(fmt.Sprintf("t%d := spawn(w)", k))
			waits = append(waits, fmt.Sprintf("t%d.wait()", k))
		}
		g.emit("rs := sorted([" + strings.Join(waits, ", ") + "])")
		for k := 0; k < n; k++ {
			// unsynchronised increments from concurrent goroutines: the values are not judged, only
			// the execution count of the module body is
			v, _ := g.m.apply(target, "inc", 0)
			g.observe(fmt.Sprintf("rs[%d]", k), v, "nojudge")
		}
		g.want.GoroutinesFirst = first
	case "one-goroutine-then-parent":
		g.m.loadLog = &first
		g.m.load(target, "goroutine")
		g.m.loadLog = nil
		v, cl := g.m.apply(target, "inc", 0)
		g.emit("t0 := spawn(w)")
		g.observe("t0.wait()", v, cl)
		g.want.OneGoroutineThenParent = first
	}
	// the parent imports the module afterwards (always in the last variant)
	if variant == "one-goroutine-then-parent" || r.Bool() {
		g.bind(target)
		b := g.binds[len(g.binds)-1]
		cl := "state"
		if variant == "goroutines-first-conc" {
			cl = "nojudge"
		}
		if b.handle != "" {
			v, _ := g.m.apply(target, "inc", 0)
			g.observe(b.handle+".inc()", v, cl)
		} else {
			v, _ := g.m.apply(target, "inc", 0)
			g.observe(b.funcs["inc"]+"()", v, cl)
		}
	}
	g.observe("gv", g.m.gv, "globals")
	s.Main = g.finish()
	s.Want = g.want
	s.Spelling = topSpelling(g.spell)
	s.PathClass = pathClassOfTree(t)
	s.Shape = t.Shape + "/spawn-" + variant
}

// genCycle: main imports a module of a tree whose eager imports form a cycle.
func genCycle(r *mon.Rand, t *Tree, s *Sub) {
	entry := r.Intn(len(t.Mods))
	d := spell(r, t.Mods[entry], false, "h1", true)
	pos := mon.Pick(r, []string{"top", "func", "try"})
	switch pos {
	case "top":
		s.Main = "out := []\n" + d.Stmt + "\nout.append(1)\nout\n"
	case "func":
		s.Main = "out := []\nfunc f() {\n  " + strings.ReplaceAll(d.Stmt, "\n", "\n  ") + "\n  return 1\n}\nout.append(f())\nout\n"
	case "try":
		s.Main = "out := []\nr := try(func() {\n  " + strings.ReplaceAll(d.Stmt, "\n", "\n  ") + "\n  return 1\n}, 2)\nout.append(r)\nout\n"
	}
	s.Spelling = d.Spelling
	s.PathClass = pathClassOfTree(t)
	s.Shape = t.Shape + "/" + pos
}

// ---------------------------------------------------------------------------------------

// genSub is a pure function of (env, pool, i).
func genSub(env genEnv, pool string, i int) *Sub {
	r := mon.NewRand(env.Base).Split(pool).SplitN(i)
	s := &Sub{ID: fmt.Sprintf("%s-%d", pool, i)}
	switch pool {
	case "fs":
		s.Imp = "fs"
	default:
		s.Imp = mon.Pick(r, []string{"local", "localcfg"})
	}
	if pool == "fs" && i%20 == 7 {
		genSpecial(r, s, i)
		return s
	}
	roll := r.Intn(100)
	switch {
	case roll < 45:
		s.Kind = "hostile"
	case roll < 51:
		s.Kind = "cycle"
	case roll < 63:
		s.Kind = "spawn"
	default:
		s.Kind = "graph"
	}
	if s.Kind == "cycle" {
		s.Tree = env.NTrees + r.Intn(nCycleTrees)
	} else {
		s.Tree = r.Intn(env.NTrees)
	}
	t := genTree(env.TreeBase, s.Tree, env.NTrees)
	if t.Twin {
		// twin modules tick under one label: only the graph oracle knows how many runs that label owes
		s.Kind = "graph"
	}
	s.Files = t.Files()
	switch s.Kind {
	case "hostile":
		genHostile(r, t, s, env)
	case "cycle":
		genCycle(r, t, s)
	case "spawn":
		genSpawn(r, t, s)
	default:
		genGraph(r, t, s)
	}
	return s
}

// ---------------------------------------------------------------------------------------
// special fixed trees (FSImporter only): shapes the tree generator cannot express

// genSpecial: (a) one from-import statement that names sub-modules of a package and plain members of the
// package's own module side by side, in every order; (b) modules whose names differ only in letter case.
func genSpecial(r *mon.Rand, s *Sub, i int) {
	s.Kind, s.Imp, s.Tree = "graph", "fs", -1
	var lines []string
	w := &Want{}
	obs := func(expr string, v int, class string) {
		lines = append(lines, "out.append("+expr+")")
		w.Out = append(w.Out, v)
		w.Class = append(w.Class, class)
	}
	if (i/20)%4 == 0 {
		s.Shape, s.Spelling, s.PathClass = "mixed-from-import", "from-mixed", "valid-nested"
		s.Files = map[string]string{
			"pkg.risor":     "tick(\"pkg\")\ncnt := 0\nval := 77\nfunc helper() { cnt++; return 1000 + cnt }\nfunc other() { return 2000 }\n",
			"pkg/sub.risor": "tick(\"pkg/sub\")\ncnt := 0\nid := 5\nfunc inc() { cnt++; return cnt }\n",
			"pkg/two.risor": "tick(\"pkg/two\")\nid := 6\nfunc inc() { return 60 }\n",
		}
		type nm struct{ name, kind string }
		pool := []nm{{"sub", "mod"}, {"helper", "fn"}, {"two", "mod"}, {"other", "fn"}, {"val", "val"}}
		p := r.Perm(len(pool))
		k := 2 + r.Intn(4)
		var parts []string
		alias := map[string]string{}
		ticks := map[string]bool{}
		hasMember := false
		for _, j := range p[:k] {
			n := pool[j]
			a := n.name
			if r.Bool() {
				a = fmt.Sprintf("x%d_%s", j, n.name)
				parts = append(parts, n.name+" as "+a)
			} else {
				parts = append(parts, n.name)
			}
			alias[n.name] = a
			if n.kind == "mod" {
				ticks["pkg/"+n.name] = true
			} else {
				hasMember = true
			}
		}
		if hasMember {
			ticks["pkg"] = true
		}
		stmt := "from pkg import " + strings.Join(parts, ", ")
		if r.Bool() {
			stmt = "from pkg import (\n  " + strings.Join(parts, ",\n  ") + ",\n)"
		}
		helperCalls := 0
		emit := func() {
			for _, j := range p[:k] {
				n := pool[j]
				a := alias[n.name]
				switch n.name {
				case "sub":
					obs(a+".id", 5, "globals")
				case "two":
					obs(a+".id", 6, "globals")
					obs(a+".inc()", 60, "state")
				case "helper":
					helperCalls++
					obs(a+"()", 1000+helperCalls, "state")
				case "other":
					obs(a+"()", 2000, "state")
				case "val":
					obs(a, 77, "globals")
				}
			}
		}
		switch r.Intn(3) {
		case 0:
			lines = append(lines, stmt)
			emit()
		case 1:
			lines = append(lines, "if len(out) >= 0 {", stmt)
			emit()
			lines = append(lines, "}")
		default:
			// the statement runs twice (second time everything is loaded already)
			lines = append(lines, "for rep := 0; rep < 2; rep++ {", stmt)
			emit()
			lines = append(lines, "}")
			n := len(w.Out)
			// second pass: same observations, helper() keeps counting
			for q := 0; q < n; q++ {
				v := w.Out[q]
				if v > 1000 && v < 2000 {
					helperCalls++
					v = 1000 + helperCalls
				}
				w.Out = append(w.Out, v)
				w.Class = append(w.Class, w.Class[q])
			}
		}
		for t := range ticks {
			w.Ticks = append(w.Ticks, t)
		}
	} else if (i/20)%4 == 1 {
		// the importing code re-binds names of host globals (a builtin function, a builtin module) before the
		// module is loaded for the first time: the re-binding is the importer's own variable, the module keeps
		// seeing the host's
		s.Shape, s.Spelling, s.PathClass = "host-name-rebound", "import", "valid-flat"
		s.Files = map[string]string{
			"measure.risor": "tick(\"measure\")\nfunc size(x) { return len(x) }\nfunc up() { return len(strings.to_upper(\"ab\")) }\nfunc kind() { return len(type(1)) }\n",
			"quiet.risor":   "tick(\"quiet\")\nlen = func(x) { return 700 }\ntype = func(x) { return \"abcdefghij\" }\nimport measure\nfunc size(x) { return measure.size(x) }\nfunc kind() { return measure.kind() }\nfunc own(x) { return len(x) }\n",
			"mystr.risor":   "tick(\"mystr\")\nfunc to_upper(s) { return \"abcdefg\" }\n",
		}
		switch r.Intn(4) {
		case 0:
			lines = append(lines, "len = func(x) { return 99 }", "import measure")
			obs("measure.size([1, 2, 3])", 3, "globals")
			obs("len([1])", 99, "globals")
			obs("measure.up()", 2, "globals")
			w.Ticks = []string{"measure"}
		case 1:
			lines = append(lines, "import quiet")
			obs("quiet.size([1, 2])", 2, "globals")
			obs("quiet.own([1, 2])", 700, "globals")
			obs("quiet.kind()", 3, "globals")
			obs("len([1, 2, 3, 4])", 4, "globals")
			w.Ticks = []string{"quiet", "measure"}
		case 2:
			lines = append(lines, "import mystr as strings", "import measure")
			obs("measure.up()", 2, "globals")
			obs("len(strings.to_upper(\"ab\"))", 7, "globals")
			w.Ticks = []string{"mystr", "measure"}
		default:
			lines = append(lines, "type = func(x) { return \"abcdefgh\" }", "len = func(x) { return 41 }", "import quiet", "import measure")
			obs("measure.kind()", 3, "globals")
			obs("quiet.own(\"\")", 700, "globals")
			obs("measure.size(\"abcde\")", 5, "globals")
			obs("len(\"\")", 41, "globals")
			w.Ticks = []string{"quiet", "measure"}
		}
	} else if (i/20)%4 == 3 {
		// a module that fails after it has imported (and used) a dependency; the failure is caught around the
		// outermost import: the dependency completed, so it keeps its state and does not run again
		s.Shape, s.Spelling, s.PathClass = "failed-import-keeps-dependencies", "import", "valid-flat"
		s.Files = map[string]string{
			"dep.risor":  "tick(\"dep\")\ncnt := 0\nfunc inc() { cnt++; return cnt }\n",
			"dep2.risor": "tick(\"dep2\")\nimport dep\nbase := dep.inc()\nfunc peek() { return base * 100 + dep.inc() }\n",
			"bad.risor":  "tick(\"bad\")\nimport dep\ndep.inc()\ndep.inc()\nerror(\"boom\")\n",
			"bad2.risor": "tick(\"bad2\")\nimport dep2\nimport dep\ndep.inc()\n[1][5]\n",
		}
		catch := "func(e) { return -1 }"
		switch r.Intn(4) {
		case 0:
			lines = append(lines, "status := try(func() { import bad; return 1 }, "+catch+")")
			obs("status", -1, "state")
			lines = append(lines, "import dep")
			obs("dep.inc()", 3, "state")
			w.Ticks = []string{"bad", "dep"}
		case 1:
			lines = append(lines, "import dep")
			obs("dep.inc()", 1, "state")
			lines = append(lines, "status := try(func() { import bad; return 1 }, "+catch+")")
			obs("status", -1, "state")
			obs("dep.inc()", 4, "state")
			w.Ticks = []string{"bad", "dep"}
		case 2:
			lines = append(lines, "status := try(func() { import bad2; return 1 }, "+catch+")")
			obs("status", -1, "state")
			lines = append(lines, "import dep2", "import dep as d")
			obs("dep2.base", 1, "state")
			obs("d.inc()", 3, "state")
			obs("dep2.peek()", 104, "state")
			w.Ticks = []string{"bad2", "dep2", "dep"}
		default:
			lines = append(lines, "status := try(func() { import bad; return 1 }, "+catch+")", "second := try(func() { import bad2; return 1 }, "+catch+")")
			obs("status", -1, "state")
			obs("second", -1, "state")
			lines = append(lines, "import dep2")
			obs("dep2.peek()", 305, "state")
			w.Ticks = []string{"bad", "bad2", "dep2", "dep"}
		}
	} else {
		s.Shape, s.Spelling, s.PathClass = "case-pair", "import-str-as", "valid-nested"
		mod := func(id string, n int) string {
			return fmt.Sprintf("tick(%q)\nid := %d\ncnt := 0\nfunc inc() { cnt++; return cnt }\n", id, n)
		}
		s.Files = map[string]string{"lib/util.risor": mod("lib/util", 1), "lib/Util.risor": mod("lib/Util", 2), "Lib/util.risor": mod("Lib/util", 3), "tool.risor": mod("tool", 4), "Tool.risor": mod("Tool", 5)}
		ids := []string{"lib/util", "lib/Util", "Lib/util", "tool", "Tool"}
		vals := []int{1, 2, 3, 4, 5}
		p := r.Perm(len(ids))
		k := 2 + r.Intn(4)
		incs := map[int]int{}
		for q, j := range p[:k] {
			h := fmt.Sprintf("h%d", q)
			lines = append(lines, fmt.Sprintf("import %q as %s", ids[j], h))
			obs(h+".id", vals[j], "globals")
			incs[j]++
			obs(h+".inc()", incs[j], "state")
			w.Ticks = append(w.Ticks, ids[j])
		}
		// again, in another order: state is per module
		for q := k - 1; q >= 0; q-- {
			j := p[q]
			incs[j]++
			obs(fmt.Sprintf("h%d.inc()", q), incs[j], "state")
		}
	}
	s.Main = "out := []\n" + strings.Join(lines, "\n") + "\nout\n"
	s.Want = w
}
