package c14

import (
	"fmt"
	"strings"

	"verif/internal/mon"
)

// A pathText is the text between the quotes of a string literal (escapes as the lexer reads them)
// together with its class.
type pathText struct {
	Class string
	Lit   string
}

// fixedPathTexts: hand-picked texts for every class. "@ABS@" is replaced by the absolute path of the
// directory above the import root (LocalImporter) or by "/abs/outer" (FSImporter); the sentinel
// modules are outer/outside.{risor,rsr}, outer/outside/mod.risor and outside2.risor one level higher.
var fixedPathTexts = []pathText{
	{"valid-ident", `ma`}, {"valid-ident", `_u`}, {"valid-ident", `Mod_9`}, {"valid-nested", `pa/mod`}, {"valid-nested", `pa/sub/leaf`},
	{"valid-missing", `nosuch`}, {"valid-missing", `pa/nosuch/x`},
	{"escape-to-valid", `\x6da`}, {"escape-to-valid", `p\141/mod`}, {"escape-to-valid", `pa\x2fmod`}, {"escape-to-valid", `\u006da`}, {"escape-to-valid", `pa\057mod`},
	{"unicode-ident", `é`}, {"unicode-ident", `é/ünï`}, {"unicode-ident", `日本/モジュール`}, {"unicode-ident", `mа`}, // Cyrillic a
	{"dotdot", `..`}, {"dotdot", `../outside`}, {"dotdot", `../../outside2`}, {"dotdot", `../outside/mod`}, {"dotdot", `pa/../../outside`},
	{"dotdot", `pa/sub/../../../outside`}, {"dotdot", `pa/..`}, {"dotdot", `../root/ma`}, {"dotdot-inside", `pa/../ma`}, {"dotdot-inside", `pa/sub/../mod`},
	{"dot", `.`}, {"dot", `./ma`}, {"dot", `ma/.`}, {"dot", `pa/./mod`}, {"dot", `./../outside`},
	{"escaped-dotdot", `\x2e\x2e/outside`}, {"escaped-dotdot", `\056\056/outside`}, {"escaped-dotdot", `\u002e\u002e/outside`}, {"escaped-dotdot", `\U0000002e\U0000002e/outside`},
	{"escaped-dotdot", `..\x2foutside`}, {"escaped-dotdot", `\x2e./outside`}, {"escaped-dotdot", `.\056\057outside`}, {"escaped-dotdot", `pa\x2f\x2e\x2e\x2f\x2e\x2e\x2foutside`},
	{"absolute", `/etc/passwd`}, {"absolute", `/`}, {"absolute", `@ABS@/outside`}, {"absolute", `@ABS@/root/ma`}, {"absolute", `/ma`}, {"absolute", `\x2fetc/passwd`}, {"absolute", `//etc/passwd`},
	{"slashes", `pa//mod`}, {"slashes", `pa/`}, {"slashes", `pa/mod/`}, {"slashes", `//`}, {"slashes", `pa///mod`}, {"slashes", `pa/mod//../../../outside`},
	{"empty", ``},
	{"backslash", `pa\\mod`}, {"backslash", `..\\outside`}, {"backslash", `pa\\..\\..\\outside`}, {"backslash", `\\etc\\passwd`}, {"backslash", `..\\/outside`},
	{"nul", `ma\x00`}, {"nul", `\x00`}, {"nul", `ma\x00/../outside`}, {"nul", `../outside\x00ma`}, {"nul", `ma\000.risor`}, {"nul", `pa/\x00/mod`},
	{"whitespace", ` ma`}, {"whitespace", `ma `}, {"whitespace", `ma\n`}, {"whitespace", `\nma`}, {"whitespace", `ma\n../outside`}, {"whitespace", `../outside\nma`},
	{"whitespace", `ma\r\n../outside`}, {"whitespace", `pa/ mod`}, {"whitespace", `ma\t`}, {"whitespace", `../outside\n`}, {"whitespace", `ma\n/../outside`},
	{"quote-trick", `\"../outside\"`}, {"quote-trick", `\"ma\"`}, {"quote-trick", `\"\"`}, {"quote-trick", `\"../outside`}, {"quote-trick", `../outside\"`}, {"quote-trick", `\"`},
	{"quote-trick", `\"/etc/passwd\"`}, {"quote-trick", `\"\"../outside\"\"`}, {"quote-trick", `\"pa/../../outside\"`}, {"quote-trick", `ma\"/../outside`},
	{"template", `{ma}`}, {"template", `ma{1}`}, {"template", `{"../outside"}`}, {"template", `..{"/"}outside`},
	{"percent", `%2e%2e/outside`}, {"percent", `..%2foutside`}, {"percent", `%2e%2e%2foutside`}, {"percent", `ma%00`},
	{"lookalike", `．．/outside`}, {"lookalike", `‥/outside`}, {"lookalike", `..∕outside`}, {"lookalike", `..／outside`}, {"lookalike", `\u2024\u2024/outside`},
	{"extension", `ma.risor`}, {"extension", `../outside.risor`}, {"extension", `ma.`}, {"extension", `.ma`}, {"extension", `ma.rsr`}, {"extension", `pa.mod`}, {"extension", `...`}, {"extension", `..outside`},
	{"home-drive", `~/x`}, {"home-drive", `~`}, {"home-drive", `C:/x`}, {"home-drive", `C:\\x`}, {"home-drive", `file:///etc/passwd`}, {"home-drive", `$HOME/x`},
	{"invalid-utf8", `\377`}, {"invalid-utf8", `ma\377`}, {"invalid-utf8", `\300\256\300\256/outside`}, {"invalid-utf8", `..\300\257outside`}, {"invalid-utf8", `\xff`}, {"invalid-utf8", `\355\240\200`},
	{"digit-first", `1a`}, {"digit-first", `pa/2`}, {"digit-first", `0`},
	{"hyphen", `a-b`}, {"hyphen", `pa/-`}, {"hyphen", `-`},
}

var longPathTexts = []pathText{
	{"long", strings.Repeat("a", 5000)},
	{"long", strings.Repeat("pa/", 2000) + "mod"},
	{"long", strings.Repeat("../", 500) + "outside"},
	{"long", "pa/" + strings.Repeat("../", 300) + "outside2"},
	{"long", strings.Repeat("a", 255) + "/" + strings.Repeat("b", 256)},
	{"long", strings.Repeat(`\x2e\x2e/`, 200) + "outside"},
}

var randFragments = []string{"ma", "pa", "mod", "sub", "outside", "outside2", "root", "..", ".", "/", "/", "//", `\\`, `\x00`, " ", `\n`, `\x2e`, `\056`, `\x2f`, `\057`,
	"é", `\"`, "..", "../", "/..", `\x2e\x2e`, "etc", "passwd", "%2e", "~", "-", "1", "_", ".risor", ".rsr", `\t`, `\u002e`, "{", "}", "\u2024", `\377`}

func randPathText(r *mon.Rand) pathText {
	n := r.Range(1, 7)
	var b strings.Builder
	for i := 0; i < n; i++ {
		b.WriteString(mon.Pick(r, randFragments))
	}
	return pathText{Class: "random-" + classifyLit(b.String()), Lit: b.String()}
}

// classifyLit gives random texts a coarse class (by what they contain).
func classifyLit(s string) string {
	switch {
	case strings.Contains(s, `\x00`):
		return "nul"
	case strings.Contains(s, `\x2e`) || strings.Contains(s, `\056`) || strings.Contains(s, `\u002e`) || strings.Contains(s, `\x2f`) || strings.Contains(s, `\057`):
		return "escaped"
	case strings.HasPrefix(s, "/"):
		return "absolute"
	case strings.Contains(s, ".."):
		return "dotdot"
	case strings.Contains(s, "//") || strings.HasSuffix(s, "/"):
		return "slashes"
	case strings.Contains(s, `\\`):
		return "backslash"
	case strings.Contains(s, "."):
		return "dot"
	}
	return "other"
}

// rawForms: import statements whose path is NOT a double-quoted string (identifier forms and things
// that are not import statements at all but look like attempts).
var rawForms = []struct{ Class, Spelling, Stmt string }{
	{"dotdot", "raw-import", `import ../outside`}, {"dotdot", "raw-import", `import ..`}, {"dot", "raw-import", `import .`}, {"absolute", "raw-import", `import /etc/passwd`},
	{"dotdot", "raw-import", `import ma/../../outside`}, {"valid-nested", "raw-import", `import pa/mod`}, {"extension", "raw-import", `import ma.outside`},
	{"dotdot", "raw-import-as", `import ma as ..`}, {"dotdot", "raw-import-as", `import "../outside" as ma`}, {"valid-ident", "raw-import-as", `import ma as "x"`},
	{"dotdot", "raw-from", `from .. import outside`}, {"dot", "raw-from", `from . import ma`}, {"dotdot", "raw-from", `from pa.. import mod`}, {"dotdot", "raw-from", `from pa...outside import inc`},
	{"slashes", "raw-from", `from pa./mod import inc`}, {"dotdot", "raw-from-name", `from pa import ..`}, {"dotdot", "raw-from-name", `from pa import "../outside"`},
	{"dotdot", "raw-from-name", `from pa import "mod"`}, {"extension", "raw-from-name", `from pa import mod.inc`}, {"dotdot", "raw-from-name", `from pa import (..)`},
	{"dotdot", "raw-from-name", `from pa import (mod, "../outside")`}, {"valid-nested", "raw-from-name", `from "pa" import "mod"`}, {"dotdot", "raw-from", `from ../outside import inc`},
	{"absolute", "raw-from", `from /etc import passwd`}, {"dotdot", "raw-from", `from pa/../.. import outside`}, {"valid-nested", "raw-import", `import "pa" "mod"`},
	{"unicode-ident", "raw-from", `from é import ünï`}, {"unicode-ident", "raw-import", `import é`}, {"lookalike", "raw-from", `from ． import outside`}, {"lookalike", "raw-from", `from pa.． import outside`},
	{"dotdot", "raw-from", `from pa. .outside import inc`}, {"dotdot", "raw-from", `from pa.\n. import outside`}, {"template", "fstring-import", `import '../outside'`}, {"template", "fstring-import", `import 'ma'`},
	{"template", "fstring-from", `from '../outside' import inc`}, {"dotdot", "backtick-import", "import `../outside`"}, {"valid-ident", "backtick-import", "import `ma`"}, {"dotdot", "backtick-from", "from `../outside` import inc"},
	{"digit-first", "raw-from", `from 1a import inc`}, {"digit-first", "raw-from", `from pa.2 import inc`}, {"unicode-ident", "raw-from", `from ٣ import inc`}, {"unicode-ident", "raw-from", `from pa import ٣`},
	{"dotdot", "raw-from", `from "pa".."outside" import inc`}, {"dotdot", "raw-from", `from pa."../outside" import inc`}, {"dotdot", "raw-from", `from "pa"."../outside" import inc`},
	{"dotdot", "raw-from", `from pa import mod as "../outside"`}, {"valid-ident", "raw-import", `import ma, "../outside"`}, {"valid-ident", "raw-import", `import (ma)`}, {"dotdot", "raw-import", `import ("../outside")`},
	{"dotdot", "raw-import", `import "../" + "outside"`}, {"dotdot", "raw-import", `import "pa" + "/../../outside"`}, {"dotdot", "raw-from", `from "pa" + "/../.." import outside`},
}

var soupTokens = []string{"import", "from", "as", "(", ")", ",", ".", "..", "/", `"../outside"`, `"pa/mod"`, `"ma"`, "ma", "pa", "mod", "outside", "inc", "\n", `"/etc/passwd"`, `".."`, "'ma'", "`ma`", "é", "+"}

// stringSpellings: statement templates around a double-quoted path text.
var stringSpellings = []struct{ Name, Tmpl string }{
	{"import-str", `import "$P"`},
	{"import-str-as", `import "$P" as hx`},
	{"from-str-func", `from "$P" import inc`},
	{"from-str-func-as", `from "$P" import inc as hx`},
	{"from-grouped-func-as", "from \"$P\" import (inc,\n push as px,\n)"},
	{"from-str-mod-as", `from "$P" import mod as hx`},
	{"from-str-many", `from "$P" import inc, push, getcnt as gc`},
}

const sentinelTmpl = "tick(%q)\ncnt := 0\nlst := []\ngv := -1\nfunc inc() { cnt++; return cnt }\nfunc push(v) { lst.append(v); return len(lst) }\nfunc getcnt() { return cnt }\nfunc getgv() { return gv }\nfunc setgv(v) { gv = v; return gv }\nmod := 1\n"

func sentinelSource(where string) string { return fmt.Sprintf(sentinelTmpl, "SENTINEL:"+where) }

func genHostile(r *mon.Rand, t *Tree, s *Sub, env genEnv) {
	var stmt string
	roll := r.Intn(100)
	switch {
	case roll < 62:
		pt := mon.Pick(r, fixedPathTexts)
		if r.Chance(1, 12) {
			pt = mon.Pick(r, longPathTexts)
		}
		sp := mon.Pick(r, stringSpellings)
		s.Spelling, s.PathClass = sp.Name, pt.Class
		stmt = strings.ReplaceAll(sp.Tmpl, "$P", pt.Lit)
	case roll < 80:
		pt := randPathText(r)
		sp := mon.Pick(r, stringSpellings)
		s.Spelling, s.PathClass = sp.Name, pt.Class
		stmt = strings.ReplaceAll(sp.Tmpl, "$P", pt.Lit)
	case roll < 95:
		f := mon.Pick(r, rawForms)
		s.Spelling, s.PathClass = f.Spelling, f.Class
		stmt = f.Stmt
	default:
		n := r.Range(2, 8)
		parts := []string{mon.Pick(r, []string{"import", "from"})}
		for i := 0; i < n; i++ {
			parts = append(parts, mon.Pick(r, soupTokens))
		}
		s.Spelling, s.PathClass = "token-soup", "soup"
		stmt = strings.Join(parts, " ")
	}
	abs := "/abs/outer"
	if s.Imp != "fs" {
		abs = fmt.Sprintf("%s/t%d/outer", env.LT, s.Tree)
	}
	stmt = strings.ReplaceAll(stmt, "@ABS@", abs)
	pos := mon.Pick(r, []string{"top", "top", "func", "module", "try", "goroutine"})
	indent := func(x string) string { return "  " + strings.ReplaceAll(x, "\n", "\n  ") }
	switch pos {
	case "top":
		s.Main = "out := [0]\n" + stmt + "\nout\n"
	case "func":
		s.Main = "out := [0]\nfunc f() {\n" + indent(stmt) + "\n  return 1\n}\nout.append(f())\nout\n"
	case "try":
		s.Main = "out := [0]\nr := try(func() {\n" + indent(stmt) + "\n  return 1\n}, 2)\nout.append(r)\nout\n"
	case "goroutine":
		s.Conc = true
		s.Main = "out := [0]\nfunc f() {\n" + indent(stmt) + "\n  return 1\n}\nt := spawn(f)\nout.append(t.wait())\nout\n"
	case "module":
		name := "hx_" + strings.ReplaceAll(s.ID, "-", "_")
		s.Extra = map[string]string{name + ".risor": "tick(\"" + name + "\")\n" + stmt + "\nv := 1\n"}
		s.Main = "out := [0]\nimport " + name + "\nout.append(" + name + ".v)\nout\n"
	}
	s.Shape = "hostile@" + pos
}
