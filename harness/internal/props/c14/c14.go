// Package c14: imports stay inside the import root, run once, and keep their own globals.
//
// Monitors (all observe the real parser / compiler / VM / importers):
//
//	(a) a recording fs.FS under the FSImporter: every name that reaches Open/ReadFile/Stat must be a
//	    valid slash-separated relative path (fs.ValidPath, no NUL); the FS answers every *invalid* name
//	    with a sentinel module, which must never run;
//	(b) for the LocalImporter: sentinel module files placed outside the import root on a real disk
//	    tree, plus `strace -f -e trace=%file` around the worker process: no path under the tree directory
//	    (and no *.risor / *.rsr path anywhere) may be touched outside the case's import root;
//	(c) a host builtin tick(id) called first thing by every module body: <= 1 tick per module and
//	    evaluation, and exactly the modules the reference model says were imported;
//	(d)+(e) a small reference model of module state (cnt, lst) and of the same-named global gv of the
//	    main script and of every module, compared with what the script observes through every handle.
package c14

import (
	"context"
	"encoding/json"
	"fmt"
	"io"
	"io/fs"
	"os"
	"path/filepath"
	"sort"
	"strings"
	"sync"
	"time"
	"unicode/utf8"

	"github.com/risor-io/risor"
	"github.com/risor-io/risor/importer"
	"github.com/risor-io/risor/object"

	"verif/internal/mon"
)

const ID = "C14"

func Register() {
	mon.Register(&mon.Prop{ID: ID, Drive: drive})
	mon.RegisterWorker(ID, worker)
}

// ---------------------------------------------------------------------------------------
// recording fs.FS

type recFS struct {
	mu    sync.Mutex
	files map[string]string
	names []string
}

func validName(name string) bool {
	return fs.ValidPath(name) && name != "." && !strings.ContainsRune(name, 0) && utf8.ValidString(name)
}

type memFile struct {
	name string
	data []byte
	off  int
}

func (f *memFile) Stat() (fs.FileInfo, error) { return memInfo{f.name, int64(len(f.data))}, nil }
func (f *memFile) Read(p []byte) (int, error) {
	if f.off >= len(f.data) {
		return 0, io.EOF
	}
	n := copy(p, f.data[f.off:])
	f.off += n
	return n, nil
}
func (f *memFile) Close() error { return nil }

type memInfo struct {
	name string
	size int64
}

func (i memInfo) Name() string       { return filepath.Base(i.name) }
func (i memInfo) Size() int64        { return i.size }
func (i memInfo) Mode() fs.FileMode  { return 0o444 }
func (i memInfo) ModTime() time.Time { return time.Time{} }
func (i memInfo) IsDir() bool        { return false }
func (i memInfo) Sys() any           { return nil }

func (r *recFS) lookup(name string) ([]byte, error) {
	r.mu.Lock()
	r.names = append(r.names, name)
	r.mu.Unlock()
	if !validName(name) {
		// "outside the root": anything that is not a valid rooted name is answered with a sentinel
		return []byte(sentinelSource("fs-invalid-name")), nil
	}
	if src, ok := r.files[name]; ok {
		return []byte(src), nil
	}
	return nil, &fs.PathError{Op: "open", Path: name, Err: fs.ErrNotExist}
}

func (r *recFS) Open(name string) (fs.File, error) {
	b, err := r.lookup(name)
	if err != nil {
		return nil, err
	}
	return &memFile{name: name, data: b}, nil
}

func (r *recFS) ReadFile(name string) ([]byte, error) { return r.lookup(name) }

func (r *recFS) Stat(name string) (fs.FileInfo, error) {
	b, err := r.lookup(name)
	if err != nil {
		return nil, err
	}
	return memInfo{name, int64(len(b))}, nil
}

// ---------------------------------------------------------------------------------------
// one evaluation

type Obs struct {
	Err     string   `json:"err,omitempty"`
	Stage   string   `json:"stage,omitempty"` // parse | compile | run (where the error came from, best effort)
	Panic   string   `json:"panic,omitempty"`
	Hang    string   `json:"hang,omitempty"`
	Out     []int64  `json:"out,omitempty"`
	OutOK   bool     `json:"out_ok"`
	Res     string   `json:"res,omitempty"`
	Ticks   []string `json:"ticks,omitempty"`
	FSNames []string `json:"fs_names,omitempty"`
}

type ticker struct {
	mu    sync.Mutex
	ticks []string
}

func (t *ticker) builtin() *object.Builtin {
	return object.NewBuiltin("tick", func(ctx context.Context, args ...object.Object) object.Object {
		id := "?"
		if len(args) > 0 {
			if s, ok := args[0].(*object.String); ok {
				id = s.Value()
			}
		}
		t.mu.Lock()
		if len(t.ticks) < 5000 {
			t.ticks = append(t.ticks, id)
		}
		t.mu.Unlock()
		return object.Nil
	})
}

func ltRoot(lt string, tree int) string {
	return filepath.Join(lt, fmt.Sprintf("t%d", tree), "outer", "root")
}

func evalSub(s *Sub, lt string, timeout time.Duration) *Obs {
	o := &Obs{}
	tk := &ticker{}
	opts := []risor.Option{risor.WithGlobal("tick", tk.builtin())}
	if s.Conc {
		opts = append(opts, risor.WithConcurrency())
	}
	var rec *recFS
	switch s.Imp {
	case "fs":
		files := map[string]string{}
		for k, v := range s.Files {
			files[k] = v
		}
		for k, v := range s.Extra {
			files[k] = v
		}
		rec = &recFS{files: files}
		cfg := risor.NewConfig(opts...)
		opts = append(opts, risor.WithImporter(importer.NewFSImporter(importer.FSImporterOptions{
			GlobalNames: cfg.GlobalNames(), SourceFS: rec,
		})))
	case "local", "localcfg":
		root := ltRoot(lt, s.Tree)
		for k, v := range s.Extra {
			// inside the root: allowed for the worker itself
			if err := os.WriteFile(filepath.Join(root, k), []byte(v), 0o644); err != nil {
				o.Panic = "harness: cannot write extra module: " + err.Error()
				return o
			}
		}
		if s.Imp == "localcfg" {
			opts = append(opts, risor.WithLocalImporter(root))
		} else {
			cfg := risor.NewConfig(opts...)
			opts = append(opts, risor.WithImporter(importer.NewLocalImporter(importer.LocalImporterOptions{
				GlobalNames: cfg.GlobalNames(), SourceDir: root,
			})))
		}
		// marker for the strace log: everything after this line belongs to this case
		_, _ = os.Stat("/c14-mark/" + s.ID)
	}
	ctx, cancel := context.WithTimeout(context.Background(), timeout)
	defer cancel()
	type ret struct {
		res object.Object
		err error
		pan string
	}
	done := make(chan ret, 1)
	go func() {
		var rr ret
		defer func() {
			if r := recover(); r != nil {
				rr.pan = fmt.Sprint(r)
			}
			done <- rr
		}()
		rr.res, rr.err = risor.Eval(ctx, s.Main, opts...)
	}()
	var rr ret
	select {
	case rr = <-done:
	case <-time.After(timeout + 3*time.Second):
		o.Hang = "evaluation did not return and ignored its cancelled context"
		tk.mu.Lock()
		o.Ticks = append([]string{}, tk.ticks...)
		tk.mu.Unlock()
		return o
	}
	if rr.pan != "" {
		o.Panic = rr.pan
	}
	if rr.err != nil {
		func() {
			defer func() {
				if r := recover(); r != nil {
					o.Err = fmt.Sprintf("<Error() panicked: %v>", r)
				}
			}()
			o.Err = rr.err.Error()
		}()
		if ctx.Err() != nil {
			o.Hang = "evaluation ran into its deadline"
		}
		switch {
		case strings.HasPrefix(o.Err, "parse error"), strings.HasPrefix(o.Err, "syntax error"):
			o.Stage = "parse"
		case strings.HasPrefix(o.Err, "compile error"):
			o.Stage = "compile"
		default:
			o.Stage = "run"
		}
	}
	if l, ok := rr.res.(*object.List); ok {
		o.OutOK = true
		for _, it := range l.Value() {
			if i, ok := it.(*object.Int); ok {
				o.Out = append(o.Out, i.Value())
			} else {
				o.OutOK = false
				o.Res = mon.Truncate(l.Inspect(), 400)
				break
			}
		}
	} else if rr.res != nil {
		o.Res = mon.Truncate(rr.res.Inspect(), 400)
	}
	tk.mu.Lock()
	o.Ticks = append([]string{}, tk.ticks...)
	tk.mu.Unlock()
	if rec != nil {
		rec.mu.Lock()
		o.FSNames = append([]string{}, rec.names...)
		rec.mu.Unlock()
	}
	return o
}

// ---------------------------------------------------------------------------------------
// oracle

type Viol struct {
	Sig    string `json:"sig"`
	Detail string `json:"detail"`
	Sub    *Sub   `json:"sub"`
}

func classifyName(name string) string {
	switch {
	case strings.ContainsRune(name, 0):
		return "nul"
	case !utf8.ValidString(name):
		return "invalid-utf8"
	case strings.HasPrefix(name, "/"):
		return "absolute"
	}
	hasDot, hasEmpty := false, false
	for _, e := range strings.Split(name, "/") {
		switch e {
		case "..":
			return "dotdot"
		case ".":
			hasDot = true
		case "":
			hasEmpty = true
		}
	}
	switch {
	case hasDot:
		return "dot"
	case hasEmpty:
		return "empty-element"
	}
	return "other"
}

func describe(s *Sub, o *Obs) string {
	var b strings.Builder
	fmt.Fprintf(&b, "case %s kind=%s importer=%s tree=%d shape=%s spelling=%s path-class=%s\n", s.ID, s.Kind, s.Imp, s.Tree, s.Shape, s.Spelling, s.PathClass)
	fmt.Fprintf(&b, "--- main script ---\n%s", mon.Truncate(s.Main, 1500))
	names := make([]string, 0, len(s.Files)+len(s.Extra))
	for k := range s.Files {
		names = append(names, k)
	}
	for k := range s.Extra {
		names = append(names, k)
	}
	sort.Strings(names)
	fmt.Fprintf(&b, "--- module files: %v\n", names)
	for k, v := range s.Extra {
		fmt.Fprintf(&b, "--- %s ---\n%s", k, mon.Truncate(v, 600))
	}
	fmt.Fprintf(&b, "--- observed: err=%q panic=%q hang=%q\nticks=%v\nout=%v %s\n", mon.Truncate(o.Err, 300), mon.Truncate(o.Panic, 300), o.Hang, truncList(o.Ticks, 24), o.Out, o.Res)
	if s.Want != nil {
		fmt.Fprintf(&b, "--- expected: ticks(each once, as a set)=%v\nout=%v\n", s.Want.Ticks, s.Want.Out)
	}
	if len(o.FSNames) > 0 {
		fmt.Fprintf(&b, "names given to the fs.FS: %q\n", truncList(o.FSNames, 24))
	}
	return b.String()
}

func truncList(xs []string, n int) []string {
	if len(xs) <= n {
		return xs
	}
	return append(append([]string{}, xs[:n]...), fmt.Sprintf("… %d more", len(xs)-n))
}

func contains(xs []string, x string) bool {
	for _, y := range xs {
		if x == y {
			return true
		}
	}
	return false
}

func errClass(o *Obs) string {
	switch {
	case o.Panic != "":
		return "go-panic"
	case strings.Contains(o.Err, "not found"):
		return "module-not-found"
	case strings.Contains(o.Err, "cannot import name"):
		return "name-not-found"
	case o.Stage == "parse":
		return "parse-error"
	case o.Stage == "compile":
		return "compile-error"
	case strings.HasPrefix(o.Err, "panic:"):
		return "internal-panic"
	}
	return "runtime-error"
}

// judge applies the oracle to one observation. Signatures are built from the oracle clause and the
// shape of the input only.
func judge(s *Sub, o *Obs) []Viol {
	var vs []Viol
	add := func(sig string, extra string) {
		for _, v := range vs {
			if v.Sig == sig {
				return
			}
		}
		vs = append(vs, Viol{Sig: sig, Detail: extra + "\n" + describe(s, o), Sub: s})
	}
	imp := s.Imp
	if imp == "localcfg" {
		imp = "local"
	}
	// (a) names that reached the filesystem
	for _, n := range o.FSNames {
		if !validName(n) {
			add("import-escape:"+imp+":"+classifyName(n), fmt.Sprintf("the importer asked the import root's fs.FS for %q, which is not a valid path below the root", n))
		}
	}
	// sentinels
	for _, t := range o.Ticks {
		if strings.HasPrefix(t, "SENTINEL:") {
			add("sentinel-ran:"+imp+":"+strings.TrimPrefix(t, "SENTINEL:"), "a module placed outside the import root was loaded and its body ran")
		}
	}
	if o.Hang != "" {
		// reported by the caller after a confirming re-run
		return vs
	}
	// (c) execution counts
	count := map[string]int{}
	for _, t := range o.Ticks {
		count[t]++
	}
	// byte-identical twin modules share the label "twin": it owes one run per twin the model loaded
	owed := map[string]int{}
	if s.Want != nil {
		for _, t := range s.Want.Ticks {
			owed[t]++
		}
	}
	var twice []string
	for id, n := range count {
		if n > 1 && n > owed[id] && !strings.HasPrefix(id, "SENTINEL:") {
			twice = append(twice, id)
		}
	}
	sort.Strings(twice)
	for _, id := range twice {
		shape := s.Shape
		switch {
		case s.Want != nil && contains(s.Want.GoroutinesFirst, id):
			shape = "import-in-spawned-goroutines"
		case s.Want != nil && contains(s.Want.OneGoroutineThenParent, id):
			shape = "import-in-one-spawned-goroutine-then-parent"
		case s.Kind == "cycle":
			shape = "import-cycle"
		case s.Want != nil:
			// where the first two import statements naming this module sit
			at := s.Want.Attempts[id]
			switch {
			case len(at) >= 2:
				shape = at[0] + "+" + at[1]
			case len(at) == 1:
				shape = "imported-once@" + at[0]
			default:
				shape = s.Shape // fixed trees record no attempt positions
			}
		}
		add("module-ran-twice:"+shape, fmt.Sprintf("the body of module %q ran %d times within one evaluation", id, count[id]))
	}
	if s.Want == nil {
		return vs
	}
	if len(vs) > 0 {
		// wrong values are consequences of what was already reported
		return vs
	}
	// graph / spawn cases: the model says this script runs to completion
	if o.Err != "" || o.Panic != "" {
		add("import-unresolved:"+errClass(o)+":"+s.Shape, "a script whose imports all name existing modules under the root failed")
		return vs
	}
	// the modules that ran are exactly the ones the model loaded
	want := map[string]bool{}
	for _, t := range s.Want.Ticks {
		want[t] = true
	}
	for _, t := range s.Want.Ticks {
		if count[t] == 0 {
			add("import-wrong-module:"+s.Shape, fmt.Sprintf("module %q was imported but its body never ran", t))
		} else if count[t] < owed[t] {
			add("import-wrong-module:"+s.Shape, fmt.Sprintf("%d modules with identical text (label %q) were imported, only %d bodies ran", owed[t], t, count[t]))
			break
		}
	}
	for id := range count {
		if !want[id] {
			add("import-wrong-module:"+s.Shape, fmt.Sprintf("module %q ran although nothing imported it", id))
		}
	}
	if len(vs) > 0 {
		return vs
	}
	// (d) (e) values
	if !o.OutOK || len(o.Out) != len(s.Want.Out) {
		add("import-unresolved:short-result:"+s.Shape, fmt.Sprintf("the script produced %d observations, the model %d", len(o.Out), len(s.Want.Out)))
		return vs
	}
	for i, w := range s.Want.Out {
		if s.Want.Class[i] == "nojudge" || o.Out[i] == int64(w) {
			continue
		}
		clause := "module-state-not-shared"
		if s.Want.Class[i] == "globals" {
			clause = "globals-not-separate"
		}
		add(clause+":"+s.Shape, fmt.Sprintf("observation %d: got %d, a correct importer gives %d", i, o.Out[i], w))
		break
	}
	return vs
}

// ---------------------------------------------------------------------------------------
// worker

type chunk struct {
	Env   genEnv `json:"env"`
	Pool  string `json:"pool"`
	Start int    `json:"start"`
	N     int    `json:"n"`
	One   *Sub   `json:"one,omitempty"` // replay of a single materialised case
	LT    string `json:"lt,omitempty"`
}

type chunkOut struct {
	Evals    int              `json:"evals"`
	Events   map[string]int   `json:"events"`
	Distinct []string         `json:"distinct"`
	Viols    []Viol           `json:"viols"`
	Inconc   []string         `json:"inconc"`
	Samples  []map[string]any `json:"samples"`
	hangs    map[string]bool
}

// The scripts of this workload finish in milliseconds (the longest, an import cycle on the unchanged
// tree, performs about a thousand module loads). The watchdog is not an oracle: a case that hits it is
// run again with six times the budget and only a repeatable hang is reported.
const evalTimeout = 10 * time.Second

func runSub(s *Sub, lt string, co *chunkOut) {
	o := evalSub(s, lt, evalTimeout)
	co.Evals++
	if o.Hang != "" {
		sig := "import-hang:" + s.Shape
		if co.hangs[s.Kind] {
			// a case of the same kind already hung twice in this process: do not spend the budget again
			co.Viols = append(co.Viols, Viol{Sig: sig, Detail: o.Hang + " (a hang of this kind of case was confirmed by a re-run earlier in this worker)\n" + describe(s, o), Sub: s})
		} else {
			o2 := evalSub(s, lt, 6*evalTimeout)
			co.Evals++
			if o2.Hang != "" {
				if co.hangs == nil {
					co.hangs = map[string]bool{}
				}
				co.hangs[s.Kind] = true
				co.Viols = append(co.Viols, Viol{Sig: sig, Detail: o2.Hang + " (twice)\n" + describe(s, o2), Sub: s})
			} else {
				co.Inconc = append(co.Inconc, "case "+s.ID+" hit the watchdog once: "+o.Hang)
			}
			o = o2
		}
	}
	vs := judge(s, o)
	co.Viols = append(co.Viols, vs...)
	// what was observed
	co.Events["kind:"+s.Kind]++
	co.Events["importer:"+s.Imp]++
	co.Events["ticks"] += len(o.Ticks)
	co.Events["fs_names_checked"] += len(o.FSNames)
	switch {
	case o.Panic != "":
		co.Events["go_panic_out_of_eval"]++
		co.Inconc = append(co.Inconc, "case "+s.ID+": Go panic out of risor.Eval (C03's subject): "+mon.Truncate(o.Panic, 200))
	case o.Err == "":
		co.Events["eval_ok"]++
	default:
		co.Events["eval_error_"+o.Stage]++
	}
	if s.Kind == "hostile" {
		if o.Stage == "parse" {
			co.Events["hostile_rejected_by_parser"]++
		} else if len(o.Ticks) > 0 || len(o.FSNames) > 0 {
			co.Events["hostile_reached_importer"]++
		}
	}
	if s.Want != nil {
		co.Events["values_compared"] += len(s.Want.Out)
	}
	co.Distinct = append(co.Distinct, s.Spelling+"|"+s.PathClass+"|"+s.Shape)
	if len(co.Samples) < 2 && (s.Kind == "graph" || s.Kind == "hostile") && len(s.Main) < 1200 {
		have := false
		for _, x := range co.Samples {
			if x["kind"] == s.Kind {
				have = true
			}
		}
		if !have {
			co.Samples = append(co.Samples, map[string]any{"kind": s.Kind, "importer": s.Imp, "shape": s.Shape, "main": s.Main, "err": mon.Truncate(o.Err, 160), "ticks": truncList(o.Ticks, 12), "out": o.Out})
		}
	}
}

func worker(kind string, data json.RawMessage) any {
	var c chunk
	if err := json.Unmarshal(data, &c); err != nil {
		panic(err)
	}
	co := &chunkOut{Events: map[string]int{}}
	if c.One != nil {
		runSub(c.One, c.LT, co)
		return co
	}
	for i := c.Start; i < c.Start+c.N; i++ {
		runSub(genSub(c.Env, c.Pool, i), c.Env.LT, co)
	}
	return co
}

// ---------------------------------------------------------------------------------------
// LocalImporter pool: trees on disk + strace

var sentinelFiles = map[string]string{
	"outer/outside.risor":     "outer-outside",
	"outer/outside.rsr":       "outer-outside-rsr",
	"outer/outside/mod.risor": "outer-outside-dir",
	"outer/root.risor":        "outer-root-sibling",
	"outside2.risor":          "outside2",
	"outside.risor":           "above-outer-outside",
}

func materialise(lt string, k int, files map[string]string) error {
	base := filepath.Join(lt, fmt.Sprintf("t%d", k))
	for name, src := range files {
		p := filepath.Join(base, "outer", "root", name)
		if err := os.MkdirAll(filepath.Dir(p), 0o755); err != nil {
			return err
		}
		if err := os.WriteFile(p, []byte(src), 0o644); err != nil {
			return err
		}
	}
	if err := os.MkdirAll(filepath.Join(base, "outer", "root"), 0o755); err != nil {
		return err
	}
	for name, where := range sentinelFiles {
		p := filepath.Join(base, name)
		if err := os.MkdirAll(filepath.Dir(p), 0o755); err != nil {
			return err
		}
		if err := os.WriteFile(p, []byte(sentinelSource(where)), 0o644); err != nil {
			return err
		}
	}
	return nil
}

// straceOffences scans a strace log for file-system calls, made after the first case marker, that
// touch the tree directory outside the current case's import root, or any *.risor / *.rsr outside it.
func straceOffences(log string, lt string, cwd string) (offs []struct{ Case, Path, Line string }, calls int) {
	cur := ""
	for _, line := range strings.Split(log, "\n") {
		if strings.Contains(line, "resumed>") {
			continue
		}
		paths := quotedStrings(line)
		if len(paths) == 0 {
			continue
		}
		for _, p := range paths {
			if strings.HasPrefix(p, "/c14-mark/") {
				cur = strings.TrimPrefix(p, "/c14-mark/")
			}
		}
		if cur == "" {
			continue
		}
		for _, p := range paths {
			if strings.HasPrefix(p, "/c14-mark/") {
				continue
			}
			abs := p
			if !filepath.IsAbs(abs) {
				abs = filepath.Join(cwd, abs)
			}
			clean := filepath.Clean(abs)
			underLT := strings.HasPrefix(clean, lt+"/")
			isModule := strings.HasSuffix(clean, ".risor") || strings.HasSuffix(clean, ".rsr")
			if !underLT && !isModule {
				continue
			}
			calls++
			if underLT {
				rest := strings.TrimPrefix(clean, lt+"/")
				parts := strings.Split(rest, "/")
				// t<k>/outer/root/... is inside; the ancestors t<k>, t<k>/outer themselves are only directories
				if len(parts) >= 3 && parts[1] == "outer" && parts[2] == "root" {
					continue
				}
				if len(parts) <= 2 && (len(parts) < 2 || parts[1] == "outer") {
					continue
				}
			}
			offs = append(offs, struct{ Case, Path, Line string }{cur, clean, mon.Truncate(line, 300)})
		}
	}
	return
}

// quotedStrings extracts the C-escaped string arguments of a strace line.
func quotedStrings(line string) []string {
	var res []string
	for i := 0; i < len(line); i++ {
		if line[i] != '"' {
			continue
		}
		var b []byte
		j := i + 1
		for j < len(line) && line[j] != '"' {
			if line[j] == '\\' && j+1 < len(line) {
				j++
				switch c := line[j]; {
				case c == 'n':
					b = append(b, '\n')
				case c == 't':
					b = append(b, '\t')
				case c == 'r':
					b = append(b, '\r')
				case c == 'v':
					b = append(b, '\v')
				case c == 'f':
					b = append(b, '\f')
				case c >= '0' && c <= '7':
					v := 0
					n := 0
					for n < 3 && j < len(line) && line[j] >= '0' && line[j] <= '7' {
						v = v*8 + int(line[j]-'0')
						j++
						n++
					}
					j--
					b = append(b, byte(v))
				case c == 'x':
					v := 0
					n := 0
					j++
					for n < 2 && j < len(line) && strings.IndexByte("0123456789abcdefABCDEF", line[j]) >= 0 {
						v = v*16 + strings.IndexByte("0123456789abcdef", strings.ToLower(string(line[j]))[0])
						j++
						n++
					}
					j--
					b = append(b, byte(v))
				default:
					b = append(b, c)
				}
				j++
				continue
			}
			b = append(b, line[j])
			j++
		}
		res = append(res, string(b))
		i = j
	}
	return res
}

// ---------------------------------------------------------------------------------------
// driver

func drive(d *mon.Driver, replay string) int {
	d.Rule = "(spelling, path text class, graph shape) triples: spelling = the import form featured by the case (import ident/string, with/without alias, from-import dotted/string/grouped, binding a module or functions; raw/fstring/backtick/token-soup attempts), path text class = class of the path text (valid ident/nested/unicode, dotdot, escaped dotdot, absolute, slashes, NUL, whitespace/newline, quote tricks, lookalikes, long, random mixtures …), graph shape = module tree shape (single, chain, diamond, dag, samename, unicode, repeat, lazy cycle, eager cycles) plus where the import sits (top level, block, function, module body, try, spawned goroutine)"
	d.Assume = []string{
		"module bodies of the workload complete without raising; re-running the body of a module whose earlier import failed is not judged",
		"concurrent unsynchronised increments from goroutines are not compared with the model (only execution counts are)",
		"the order in which module bodies run is not demanded, only the set and the counts",
		"hostile path texts may be rejected or accepted: only the names reaching the filesystem, the sentinels and the execution counts are judged",
		"LocalImporter monitor: strace sees every path-taking syscall of the worker process after the case marker; symlinks are not part of the workload",
	}
	seedR := d.Rand("cases")
	env := genEnv{Base: seedR.Uint64(), TreeBase: seedR.Uint64(), NTrees: d.N(64, 512)}
	lt := filepath.Join(d.Scratch, "lt")
	env.LT = lt

	judgeChunk := func(c mon.Case, res mon.Result) {
		var ck chunk
		_ = json.Unmarshal(c.Data, &ck)
		if res.Status != "done" || res.Panic != "" {
			detail := res.Panic
			sig := "harness-panic"
			if res.Crash != nil {
				detail = res.Crash.Exit + "\n" + res.Crash.FatalLine + "\n" + res.Crash.StderrTail
			}
			switch {
			case res.Status == "timeout":
				sig = "import-hang:worker-unresponsive"
			case res.Status == "crash":
				sig = "worker-died-during-import"
			case res.Status == "lost":
				d.Fatal("worker lost results for " + c.ID)
				return
			}
			d.Violation(sig, detail, ck)
			return
		}
		var o chunkOut
		if err := json.Unmarshal(res.Data, &o); err != nil {
			d.Fatal("bad worker output: " + err.Error())
			return
		}
		d.Eval(o.Evals)
		for k, v := range o.Events {
			d.Event(k, v)
		}
		for _, k := range o.Distinct {
			d.Distinct(k)
		}
		for _, s := range o.Samples {
			d.Sample(s)
		}
		for _, n := range o.Inconc {
			d.Inconclusive(n)
		}
		for _, v := range o.Viols {
			d.Event("violation:"+v.Sig, 1)
			d.Violation(v.Sig, v.Detail, chunk{One: v.Sub})
		}
	}

	straceWrap := func(dir string) []string {
		return []string{"strace", "--seccomp-bpf", "-f", "-qq", "-e", "trace=%file", "-e", "signal=none", "-o", filepath.Join(dir, "strace.txt")}
	}
	straceSeen := 0
	afterBatch := func(envOf func(id string) *Sub) func(string, []mon.Case) {
		return func(dir string, cases []mon.Case) {
			b, err := os.ReadFile(filepath.Join(dir, "strace.txt"))
			if err != nil {
				d.Inconclusive("no strace log for a LocalImporter batch: " + err.Error())
				return
			}
			offs, calls := straceOffences(string(b), lt, dir)
			straceSeen += calls
			d.Event("strace_module_path_calls", calls)
			for _, o := range offs {
				s := envOf(o.Case)
				cls := "unknown"
				if s != nil {
					cls = s.PathClass
				}
				d.Violation("import-escape:local:"+cls, fmt.Sprintf("strace: the worker touched %q, outside the import root, while running case %s\n%s", o.Path, o.Case, o.Line), chunk{One: s})
			}
		}
	}

	if replay != "" {
		var ck chunk
		if err := mon.LoadReplay(replay, &ck); err != nil {
			fmt.Println("cannot load replay:", err)
			return 3
		}
		if ck.One == nil {
			// a whole chunk (worker death): run it as it was
			fmt.Println("replaying a chunk")
			ck.Env.LT = lt
			for k := 0; k < ck.Env.NTrees+nCycleTrees; k++ {
				if err := materialise(lt, k, genTree(ck.Env.TreeBase, k, ck.Env.NTrees).Files()); err != nil {
					fmt.Println("cannot materialise:", err)
					return 3
				}
			}
			sub := func(id string) *Sub {
				var i int
				if _, err := fmt.Sscanf(id, ck.Pool+"-%d", &i); err != nil {
					return nil
				}
				return genSub(ck.Env, ck.Pool, i)
			}
			d.RunPool([]mon.Case{mon.NewCase("replay", "chunk", ck)}, mon.PoolOpts{BatchSize: 1, Wrap: straceWrap, AfterBatch: afterBatch(sub)}, judgeChunk)
			return d.Finish(1, 0)
		}
		s := ck.One
		s.Tree = 0
		if err := materialise(lt, 0, s.Files); err != nil {
			fmt.Println("cannot materialise:", err)
			return 3
		}
		ck.LT = lt
		sub := func(string) *Sub { return s }
		d.RunPool([]mon.Case{mon.NewCase("replay", "one", ck)}, mon.PoolOpts{BatchSize: 1, Wrap: straceWrap, AfterBatch: afterBatch(sub)}, judgeChunk)
		return d.Finish(1, 0)
	}

	// trees of the LocalImporter pool (the driver writes them; the workers only read, and add
	// case-specific module files inside the root)
	for k := 0; k < env.NTrees+nCycleTrees; k++ {
		if err := materialise(lt, k, genTree(env.TreeBase, k, env.NTrees).Files()); err != nil {
			d.Fatal("cannot write module trees: " + err.Error())
			return d.Finish(1, 0)
		}
	}

	nFS, nLocal := d.N(2560, 80000), d.N(768, 24000)
	per := d.N(32, 200)
	var fsCases, localCases []mon.Case
	for i := 0; i < nFS; i += per {
		fsCases = append(fsCases, mon.NewCase(fmt.Sprintf("fs-chunk-%d", i), "chunk", chunk{Env: env, Pool: "fs", Start: i, N: min(per, nFS-i)}))
	}
	for i := 0; i < nLocal; i += per {
		localCases = append(localCases, mon.NewCase(fmt.Sprintf("local-chunk-%d", i), "chunk", chunk{Env: env, Pool: "local", Start: i, N: min(per, nLocal-i)}))
	}
	d.RunPool(fsCases, mon.PoolOpts{BatchSize: 1, BatchTimeout: 10 * time.Minute}, judgeChunk)
	sub := func(id string) *Sub {
		var i int
		if _, err := fmt.Sscanf(id, "local-%d", &i); err != nil {
			return nil
		}
		return genSub(env, "local", i)
	}
	d.RunPool(localCases, mon.PoolOpts{BatchSize: 1, BatchTimeout: 10 * time.Minute, Wrap: straceWrap, AfterBatch: afterBatch(sub)}, judgeChunk)
	if straceSeen == 0 {
		d.Fatal("the strace monitor saw no module file access at all")
	}
	d.Extra("module_trees", env.NTrees+nCycleTrees)
	return d.Finish(d.N(3000, 100000), d.N(150, 400))
}
