package c14

import (
	"fmt"
	"sort"
	"strings"

	"verif/internal/mon"
)

// ---------------------------------------------------------------------------------------
// Module trees. A tree is a set of module files under one import root plus the import edges
// between them. Every module body starts with tick("<module id>") (the execution-count monitor),
// owns the globals cnt / lst / gv (same names in every module and in the main script) and exposes
// the same small set of functions, so that "shared state" and "separate globals" are observable
// through every handle.

type Dep struct {
	Target int    `json:"target"` // index into Tree.Mods
	Lazy   bool   `json:"lazy"`   // imported inside a function of the importing module (at call time)
	Stmt   string `json:"stmt"`   // the import statement as written in the importing module
	Handle string `json:"handle"` // module handle bound by Stmt ("" when functions are bound)
	// when functions are bound (from X import inc as d0_inc, ...): op name -> local name
	Funcs    map[string]string `json:"funcs,omitempty"`
	Spelling string            `json:"spelling"`
}

type Mod struct {
	// NoFuncs: never imported with a function-binding from-import (it has sub-modules named like its own
	// functions, and `from m import f` names the sub-module)
	NoFuncs bool   `json:"no_funcs,omitempty"`
	ID      string `json:"id"`  // slash-separated path below the root, without extension
	Ext     string `json:"ext"` // ".risor" | ".rsr"
	GV      int    `json:"gv"`  // initial value of the module's global gv
	Deps    []Dep  `json:"deps"`
}

type Tree struct {
	Shape string `json:"shape"`
	Mods  []Mod  `json:"mods"`
	// Twin: all module files are byte-identical (they tick under the shared label "twin"); they are
	// still different modules with globals of their own
	Twin bool `json:"twin,omitempty"`
}

const twinLabel = "twin"

// tickID is the label module i passes to tick().
func (t *Tree) tickID(i int) string {
	if t.Twin {
		return twinLabel
	}
	return t.Mods[i].ID
}

func (m Mod) comps() []string { return strings.Split(m.ID, "/") }
func (m Mod) leaf() string {
	c := m.comps()
	return c[len(c)-1]
}
func (m Mod) ascii() bool {
	for _, r := range m.ID {
		if r > 127 {
			return false
		}
	}
	return true
}

// funcsBound is the set of members a function-binding import binds.
var funcsBound = []string{"inc", "push", "getcnt", "getgv", "setgv", "lst"}

// spell renders one import statement that gives access to module m.
//
//	wantFuncs: bind functions (from <m> import inc as ..) instead of a module handle
//	alias: name prefix to use when the spelling carries aliases
//	plainOK: spellings without alias may be used (binding the module's leaf name / the function names)
//
// The accepted forms are the ones parser.parseImport / parseFromImport accept: identifier or
// double-quoted path after `import`, optional `as`; dotted identifiers or one double-quoted path after
// `from`; imported names are identifiers with optional `as`, either comma-separated on one line or
// grouped in parentheses (newlines and one trailing comma allowed).
func spell(r *mon.Rand, m Mod, wantFuncs bool, alias string, plainOK bool) Dep {
	if m.NoFuncs {
		wantFuncs = false
	}
	c := m.comps()
	dirs, leaf := c[:len(c)-1], c[len(c)-1]
	ascii := m.ascii()
	d := Dep{}
	quoted := `"` + m.ID + `"`
	if !wantFuncs {
		// module handle
		type form struct {
			name string
			ok   bool
		}
		forms := []form{
			{"import-ident", len(dirs) == 0 && ascii && plainOK},
			{"import-ident-as", len(dirs) == 0 && ascii},
			{"import-str", ascii && plainOK},
			{"import-str-as", ascii},
			{"from-dotted-mod", len(dirs) > 0 && plainOK},
			{"from-dotted-mod-as", len(dirs) > 0},
			{"from-str-mod", len(dirs) > 0 && ascii && plainOK},
			{"from-str-mod-as", len(dirs) > 0 && ascii},
			{"from-grouped-mod-as", len(dirs) > 0},
		}
		var ok []string
		for _, f := range forms {
			if f.ok {
				ok = append(ok, f.name)
			}
		}
		if len(ok) == 0 {
			// a top-level module with a non-ASCII name cannot be bound as a module at all
			// (`import é` is rejected by the parser): fall back to binding functions
			return spell(r, m, true, alias, false)
		}
		d.Spelling = mon.Pick(r, ok)
		switch d.Spelling {
		case "import-ident":
			d.Stmt, d.Handle = "import "+leaf, leaf
		case "import-ident-as":
			d.Stmt, d.Handle = "import "+leaf+" as "+alias, alias
		case "import-str":
			d.Stmt, d.Handle = "import "+quoted, leaf
		case "import-str-as":
			d.Stmt, d.Handle = "import "+quoted+" as "+alias, alias
		case "from-dotted-mod":
			d.Stmt, d.Handle = "from "+strings.Join(dirs, ".")+" import "+leaf, leaf
		case "from-dotted-mod-as":
			d.Stmt, d.Handle = "from "+strings.Join(dirs, ".")+" import "+leaf+" as "+alias, alias
		case "from-str-mod":
			d.Stmt, d.Handle = `from "`+strings.Join(dirs, "/")+`" import `+leaf, leaf
		case "from-str-mod-as":
			d.Stmt, d.Handle = `from "`+strings.Join(dirs, "/")+`" import `+leaf+" as "+alias, alias
		case "from-grouped-mod-as":
			tail := mon.Pick(r, []string{")", ",)", ",\n)", ",\n\n)"})
			head := mon.Pick(r, []string{"(", "(\n", "(\n\n"})
			d.Stmt, d.Handle = "from "+strings.Join(dirs, ".")+" import "+head+leaf+" as "+alias+tail, alias
		}
		return d
	}
	// function binding
	forms := []string{"from-dotted-func-as", "from-grouped-func-as"}
	if ascii {
		forms = append(forms, "from-str-func-as")
	}
	if plainOK {
		forms = append(forms, "from-dotted-func", "from-grouped-func")
	}
	d.Spelling = mon.Pick(r, forms)
	d.Funcs = map[string]string{}
	var items []string
	aliased := strings.HasSuffix(d.Spelling, "-as")
	for _, f := range funcsBound {
		if aliased {
			d.Funcs[f] = alias + "_" + f
			items = append(items, f+" as "+alias+"_"+f)
		} else if f != "lst" {
			// (a non-aliased `lst` would rebind the importing script's own global of that name)
			d.Funcs[f] = f
			items = append(items, f)
		}
	}
	from := "from " + strings.Join(c, ".")
	if d.Spelling == "from-str-func-as" {
		from = "from " + quoted
	}
	if strings.Contains(d.Spelling, "grouped") {
		sep := mon.Pick(r, []string{", ", ",\n", ",\n\n  "})
		tail := mon.Pick(r, []string{")", ",)", ",\n)", ",\n\n)"})
		head := mon.Pick(r, []string{"(", "(\n"})
		d.Stmt = from + " import " + head + strings.Join(items, sep) + tail
	} else {
		d.Stmt = from + " import " + strings.Join(items, ", ")
	}
	return d
}

// fwdOps are the operations a module forwards to each of its dependencies.
var fwdOps = []string{"inc", "push", "getcnt", "getgv", "setgv"}

func callOn(d Dep, op string, arg string) string {
	if d.Handle != "" {
		return d.Handle + "." + op + "(" + arg + ")"
	}
	return d.Funcs[op] + "(" + arg + ")"
}

// Source renders the module file.
func (t *Tree) Source(i int) string {
	m := t.Mods[i]
	var b strings.Builder
	fmt.Fprintf(&b, "tick(%q)\n", t.tickID(i))
	b.WriteString("cnt := 0\nlst := []\n")
	fmt.Fprintf(&b, "gv := %d\n", m.GV)
	for _, d := range m.Deps {
		if !d.Lazy {
			b.WriteString(d.Stmt + "\n")
		}
	}
	b.WriteString("func inc() { cnt++; return cnt }\n")
	b.WriteString("func push(v) { lst.append(v); return len(lst) }\n")
	b.WriteString("func getcnt() { return cnt }\n")
	b.WriteString("func getgv() { return gv }\n")
	b.WriteString("func setgv(v) { gv = v; return gv }\n")
	for k, d := range m.Deps {
		pre := "fwd"
		imp := ""
		if d.Lazy {
			pre = "lazy"
			imp = "\n  " + strings.ReplaceAll(d.Stmt, "\n", "\n  ") + "\n  "
		}
		for _, op := range fwdOps {
			param, arg := "", ""
			if op == "setgv" {
				param, arg = "v", "v"
			} else if op == "push" {
				arg = "0"
			}
			fmt.Fprintf(&b, "func %s%d_%s(%s) {%s return %s }\n", pre, k, op, param, imp, callOn(d, op, arg))
		}
	}
	return b.String()
}

// Files returns file name (with extension) -> source.
func (t *Tree) Files() map[string]string {
	f := map[string]string{}
	for i, m := range t.Mods {
		f[m.ID+m.Ext] = t.Source(i)
	}
	return f
}

func (t *Tree) index(id string) int {
	for i, m := range t.Mods {
		if m.ID == id {
			return i
		}
	}
	return -1
}

// ---------------------------------------------------------------------------------------
// tree generation

var topNames = []string{"ma", "mb", "mc", "md", "util", "Mod_9", "_u", "mod"}
var nestedNames = []string{"pa/mod", "pb/mod", "pa/sub/mod", "pa/sub/leaf", "pb/x1", "pa/x1", "pa/mb", "pb/sub/leaf", "ma/inner", "pc/pd/pe/deep"}
var unicodeNames = []string{"é/ünï", "é/mod", "ñ", "日本/モジュール", "pa/é"}

const nCycleTrees = 9

// genTree is a pure function of (base, k): both the driver (which materialises the trees of the
// LocalImporter pool on disk) and the workers regenerate tree k from it. k >= nTrees are the fixed
// cyclic trees.
func genTree(base uint64, k, nTrees int) *Tree {
	if k >= nTrees {
		return cycleTree(k - nTrees)
	}
	r := mon.NewRand(base).Split("tree").SplitN(k)
	shape := mon.Pick(r, []string{"single", "chain", "diamond", "dag", "dag", "samename", "samename", "unicode", "repeat", "lazycycle", "twins", "membername"})
	var ids []string
	pickN := func(pool []string, n int) {
		p := r.Perm(len(pool))
		for _, i := range p {
			if n == 0 {
				break
			}
			dup := false
			for _, x := range ids {
				if x == pool[i] {
					dup = true
				}
			}
			if !dup {
				ids = append(ids, pool[i])
				n--
			}
		}
	}
	t := &Tree{Shape: shape}
	type edge struct{ from, to int }
	var edges []edge
	switch shape {
	case "single":
		pickN(append(append([]string{}, topNames...), nestedNames...), r.Range(1, 2))
	case "chain":
		pickN(append(append([]string{}, topNames...), nestedNames...), r.Range(3, 4))
		for i := 0; i+1 < len(ids); i++ {
			edges = append(edges, edge{i, i + 1})
		}
	case "diamond":
		pickN(append(append([]string{}, topNames...), nestedNames...), 4)
		edges = []edge{{0, 1}, {0, 2}, {1, 3}, {2, 3}}
	case "dag", "repeat", "lazycycle":
		pickN(append(append([]string{}, topNames...), nestedNames...), r.Range(4, 7))
		for i := 0; i < len(ids); i++ {
			for j := i + 1; j < len(ids); j++ {
				if r.Chance(2, 5) {
					edges = append(edges, edge{i, j})
					if shape == "repeat" && r.Bool() {
						edges = append(edges, edge{i, j})
						if r.Chance(1, 3) {
							edges = append(edges, edge{i, j})
						}
					}
				}
			}
		}
		if shape == "repeat" && len(edges) == 0 {
			edges = append(edges, edge{0, 1}, edge{0, 1})
		}
	case "samename":
		ids = []string{"mod", "pa/mod", "pb/mod", "pa/sub/mod"}
		if r.Bool() {
			ids = append(ids, "pa/mb", "mb")
		}
		p := r.Perm(len(ids))
		shuffled := make([]string, len(ids))
		for i, j := range p {
			shuffled[i] = ids[j]
		}
		ids = shuffled
		for i := 0; i < len(ids); i++ {
			for j := i + 1; j < len(ids); j++ {
				if r.Chance(1, 2) {
					edges = append(edges, edge{i, j})
				}
			}
		}
	case "membername":
		// sub-modules whose names equal a function of their parent module (names the main script does not
		// use itself): `from ma import inc` names the module ma/inc, never ma's own member
		ids = []string{"ma", "ma/inc", "ma/push"}
		if r.Bool() {
			ids = append(ids, "ma/getcnt", "mb")
		}
		p := r.Perm(len(ids))
		shuffled := make([]string, len(ids))
		for i, j := range p {
			shuffled[i] = ids[j]
		}
		ids = shuffled
		for i := 0; i < len(ids); i++ {
			for j := i + 1; j < len(ids); j++ {
				if r.Chance(1, 3) {
					edges = append(edges, edge{i, j})
				}
			}
		}
	case "twins":
		// byte-identical files under different names (no edges: an import statement would tell them apart)
		pickN(append(append([]string{}, topNames...), nestedNames...), r.Range(2, 4))
		t.Twin = true
	case "unicode":
		pickN(unicodeNames, r.Range(1, 3))
		pickN(topNames, 2)
		for i := 0; i < len(ids); i++ {
			for j := i + 1; j < len(ids); j++ {
				if r.Chance(1, 2) {
					edges = append(edges, edge{i, j})
				}
			}
		}
	}
	for i, id := range ids {
		ext := ".risor"
		if r.Chance(1, 6) {
			ext = ".rsr"
		}
		gv := 100 * (i + 1)
		if t.Twin {
			gv = 100
		}
		t.Mods = append(t.Mods, Mod{ID: id, Ext: ext, GV: gv, NoFuncs: shape == "membername" && id == "ma"})
	}
	for n, e := range edges {
		target := t.Mods[e.to]
		alias := fmt.Sprintf("d%d", n)
		wantFuncs := r.Chance(1, 4)
		// a non-aliased spelling binds the leaf name: allowed when nothing else in this module binds it
		plainOK := true
		for _, d := range t.Mods[e.from].Deps {
			if d.Handle == target.leaf() {
				plainOK = false
			}
		}
		if wantFuncs {
			plainOK = false // the module defines inc/push/... itself
		}
		for _, fnm := range append([]string{"cnt", "gv"}, funcsBound...) {
			if target.leaf() == fnm {
				plainOK = false // the plain spelling would bind a name every module defines itself
			}
		}
		d := spell(r, target, wantFuncs, alias, plainOK)
		d.Target = e.to
		d.Lazy = r.Chance(1, 4)
		t.Mods[e.from].Deps = append(t.Mods[e.from].Deps, d)
	}
	if shape == "lazycycle" {
		// back edges that are only followed at call time, after every body has completed
		for i := len(ids) - 1; i > 0; i-- {
			if r.Chance(1, 2) {
				j := r.Intn(i)
				d := spell(r, t.Mods[j], false, fmt.Sprintf("back%d", i), false)
				d.Target = j
				d.Lazy = true
				t.Mods[i].Deps = append(t.Mods[i].Deps, d)
			}
		}
	}
	return t
}

// cycleTree returns one of the fixed trees whose *eager* imports form a cycle.
func cycleTree(v int) *Tree {
	mk := func(shape string, ids []string, edges [][2]int, stmts []string) *Tree {
		t := &Tree{Shape: shape}
		for i, id := range ids {
			t.Mods = append(t.Mods, Mod{ID: id, Ext: ".risor", GV: 100 * (i + 1)})
		}
		for n, e := range edges {
			leaf := t.Mods[e[1]].leaf()
			h := fmt.Sprintf("c%d", n)
			stmt := strings.ReplaceAll(stmts[n], "$H", h)
			handle := h
			if !strings.Contains(stmts[n], "$H") {
				handle = leaf
			}
			d := Dep{Target: e[1], Stmt: stmt, Handle: handle, Spelling: "cycle"}
			if strings.Contains(stmt, "$F") {
				// a from-import of SYMBOLS of the module (not of a module below a package)
				var parts []string
				d.Funcs = map[string]string{}
				for _, fnm := range funcsBound {
					parts = append(parts, fnm+" as "+h+"_"+fnm)
					d.Funcs[fnm] = h + "_" + fnm
				}
				d.Stmt = strings.ReplaceAll(stmt, "$F", strings.Join(parts, ", "))
				d.Handle = ""
				d.Spelling = "cycle-symbols"
			}
			t.Mods[e[0]].Deps = append(t.Mods[e[0]].Deps, d)
		}
		return t
	}
	switch v % nCycleTrees {
	case 0:
		return mk("selfcycle", []string{"ma"}, [][2]int{{0, 0}}, []string{"import ma as $H"})
	case 1:
		return mk("cycle2", []string{"ma", "mb"}, [][2]int{{0, 1}, {1, 0}}, []string{"import mb", "import ma"})
	case 2:
		return mk("cycle3", []string{"ma", "pa/mod", "pb/mod"}, [][2]int{{0, 1}, {1, 2}, {2, 0}},
			[]string{`import "pa/mod" as $H`, "from pb import mod as $H", "import ma as $H"})
	case 3:
		return mk("cycle2-from", []string{"pa/mod", "pa/x1"}, [][2]int{{0, 1}, {1, 0}},
			[]string{"from pa import x1 as $H", `from "pa" import mod as $H`})
	case 4:
		return mk("cycle-tail", []string{"ma", "mb", "mc"}, [][2]int{{0, 1}, {1, 2}, {2, 1}},
			[]string{"import mb as $H", "import mc as $H", "import mb as $H"})
	case 5:
		return mk("selfcycle-nested", []string{"pa/sub/mod"}, [][2]int{{0, 0}}, []string{"from pa.sub import mod as $H"})
	case 6:
		return mk("cycle2-symbols", []string{"ma", "mb"}, [][2]int{{0, 1}, {1, 0}}, []string{"from mb import $F", "import ma"})
	case 7:
		return mk("cycle3-symbols", []string{"ma", "mb", "pa/mod"}, [][2]int{{0, 1}, {1, 2}, {2, 0}},
			[]string{"import mb as $H", `from "pa/mod" import $F`, "from ma import $F"})
	default:
		return mk("cycle2-symbols-both", []string{"pa/mod", "pa/x1"}, [][2]int{{0, 1}, {1, 0}},
			[]string{"from pa.x1 import (\n  $F,\n)", "from pa.mod import $F"})
	}
}

// ---------------------------------------------------------------------------------------
// the reference model of what a correct importer does

type modState struct {
	loaded bool
	cnt    int
	lst    int
	gv     int
}

type model struct {
	t     *Tree
	st    []modState
	ticks []string
	// main script's own globals
	gv, cnt, lst int
	// when non-nil, first-time loads are recorded here (used to label the modules that are first
	// imported inside spawned goroutines)
	loadLog *[]string
	// every import attempt per module, in order: where the import statement sits
	// (top | block | func | goroutine | dep | lazy-dep)
	attempts map[string][]string
}

func newModel(t *Tree) *model {
	m := &model{t: t, st: make([]modState, len(t.Mods)), gv: 7, cnt: 5000, lst: 3, attempts: map[string][]string{}}
	for i := range m.st {
		m.st[i].gv = t.Mods[i].GV
	}
	return m
}

// load models `import` of module i: the body runs only when the module was not loaded before;
// eager imports of the body run depth-first in statement order.
func (m *model) load(i int, ctx string) {
	if len(m.attempts[m.t.Mods[i].ID]) < 4 {
		m.attempts[m.t.Mods[i].ID] = append(m.attempts[m.t.Mods[i].ID], ctx)
	}
	if m.st[i].loaded {
		return
	}
	m.st[i].loaded = true
	m.ticks = append(m.ticks, m.t.tickID(i))
	if m.loadLog != nil {
		*m.loadLog = append(*m.loadLog, m.t.Mods[i].ID)
	}
	for _, d := range m.t.Mods[i].Deps {
		if !d.Lazy {
			m.load(d.Target, "dep")
		}
	}
}

// apply performs op on module i and returns the observed value and the oracle clause it belongs to.
func (m *model) apply(i int, op string, arg int) (int, string) {
	s := &m.st[i]
	switch op {
	case "inc":
		s.cnt++
		return s.cnt, "state"
	case "getcnt", "attrcnt":
		return s.cnt, "state"
	case "push", "applst":
		s.lst++
		return s.lst, "state"
	case "lenlst":
		return s.lst, "state"
	case "getgv", "attrgv":
		return s.gv, "globals"
	case "setgv":
		s.gv = arg
		return s.gv, "globals"
	}
	panic("bad op " + op)
}

func sortedCopy(xs []string) []string {
	c := append([]string{}, xs...)
	sort.Strings(c)
	return c
}
