package props

import "verif/internal/props/c06"

func init() { registrars = append(registrars, c06.Register) }
