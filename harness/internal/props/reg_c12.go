package props

import "verif/internal/props/c12"

func init() { registrars = append(registrars, c12.Register) }
