// Package c05: evaluation and compilation are deterministic (consistency monitor over repetitions:
// K evaluations + K compilations in one process, and the same programs again in fresh processes).
// No model is involved: the oracle is that all observations of one program are identical.
package c05

import (
	"context"
	"crypto/sha256"
	"encoding/hex"
	"encoding/json"
	"fmt"
	"runtime/debug"
	"strings"
	"sync"
	"time"

	"github.com/risor-io/risor"
	"github.com/risor-io/risor/compiler"
	"github.com/risor-io/risor/object"
	ros "github.com/risor-io/risor/os"
	"github.com/risor-io/risor/parser"

	"verif/internal/eng"
	"verif/internal/gen"
	"verif/internal/mon"
	"verif/internal/rz"
)

const ID = "C05"

func Register() {
	mon.Register(&mon.Prop{ID: ID, Drive: drive})
	mon.RegisterWorker(ID, worker)
}

// observation of one evaluation
type obs struct {
	Result string   `json:"result"`
	Err    string   `json:"err"`
	Out    string   `json:"out"`
	Ticks  []string `json:"ticks"`
	Code   string   `json:"code"`  // sha256 of MarshalCode of this compilation
	Code2  string   `json:"code2"` // sha256 of Marshal(Unmarshal(Marshal(code)))
	Panic  string   `json:"panic,omitempty"`
	// TimedOut: the 20 s watchdog fired during this evaluation (a loaded machine): its outcome says nothing
	TimedOut bool `json:"timed_out,omitempty"`
}

func (o obs) digest() string {
	h := sha256.New()
	b, _ := json.Marshal(o)
	h.Write(b)
	return hex.EncodeToString(h.Sum(nil))[:24]
}

func sum(b []byte) string {
	h := sha256.Sum256(b)
	return hex.EncodeToString(h[:])[:24]
}

// hostValue is a Go value with methods that take containers: what the script passes must reach Go the
// same way on every evaluation (or be refused the same way).
type hostValue struct{}

func (h *hostValue) Join(xs []string) string { return strings.Join(xs, "|") }
func (h *hostValue) Sum(xs []int) int {
	t := 0
	for i, x := range xs {
		t = t*31 + x*(i+1)
	}
	return t
}
func (h *hostValue) Keys(m map[string]int) int { return len(m) }
func (h *hostValue) Any(v any) string          { return fmt.Sprint(v) }

func observe(src string) (o obs) {
	ctx, cancel := context.WithTimeout(context.Background(), 20*time.Second)
	defer cancel()
	stdout := &rz.OutFile{}
	var mu sync.Mutex
	var ticks []string
	tick := object.NewBuiltin("tick", func(ctx context.Context, args ...object.Object) object.Object {
		mu.Lock()
		defer mu.Unlock()
		if len(args) == 0 {
			ticks = append(ticks, "-")
			return object.Nil
		}
		ticks = append(ticks, args[0].Inspect())
		return args[0]
	})
	defer func() {
		if r := recover(); r != nil {
			o.Panic = fmt.Sprintf("%v\n%s", r, debug.Stack())
		}
		if ctx.Err() != nil {
			o.TimedOut = true
		}
	}()
	vos := ros.NewVirtualOS(ctx, ros.WithStdout(stdout), ros.WithArgs([]string{"prog", "-a", "b"}),
		ros.WithEnvironment(map[string]string{"ALPHA": "1", "BETA": "2", "GAMMA": "3", "DELTA": "4", "EPS": "5", "ZETA": "6", "ETA": "7"}))
	cfg := risor.NewConfig(risor.WithOS(vos), risor.WithGlobal("tick", tick), risor.WithGlobal("host", &hostValue{}))
	prog, err := parser.Parse(ctx, src)
	if err != nil {
		o.Err = "parse: " + err.Error()
		return
	}
	code, err := compiler.Compile(prog, cfg.CompilerOpts()...)
	if err != nil {
		o.Err = "compile: " + err.Error()
		return
	}
	if b, err := compiler.MarshalCode(code); err == nil {
		o.Code = sum(b)
		if c2, err := compiler.UnmarshalCode(b); err == nil {
			if b2, err := compiler.MarshalCode(c2); err == nil {
				o.Code2 = sum(b2)
			} else {
				o.Code2 = "remarshal-error: " + err.Error()
			}
		} else {
			o.Code2 = "unmarshal-error: " + err.Error()
		}
	} else {
		o.Code = "marshal-error: " + err.Error()
	}
	res, err := risor.EvalCode(ctx, code, risor.WithOS(vos), risor.WithGlobal("tick", tick), risor.WithGlobal("host", &hostValue{}))
	o.Out = stdout.String()
	o.Ticks = ticks
	if err != nil {
		o.Err = err.Error()
		return
	}
	if res != nil {
		o.Result = string(res.Type()) + ":" + res.Inspect()
	}
	return
}

func diffObs(a, b obs) (kind, detail string) {
	switch {
	case a.Panic != b.Panic:
		return "go-panic", a.Panic + "\n---\n" + b.Panic
	case a.Code != b.Code:
		return "bytecode", fmt.Sprintf("MarshalCode differs between two compilations of the same source: %s vs %s", a.Code, b.Code)
	case a.Code2 != b.Code2 || (a.Code != "" && a.Code2 != a.Code):
		return "bytecode-after-serialisation", fmt.Sprintf("marshal %s, after unmarshal+marshal %s / %s", a.Code, a.Code2, b.Code2)
	case a.Err != b.Err:
		return "error", fmt.Sprintf("%q vs %q", a.Err, b.Err)
	case a.Result != b.Result:
		return "result", fmt.Sprintf("%s vs %s", a.Result, b.Result)
	case a.Out != b.Out:
		return "output", fmt.Sprintf("%q vs %q", a.Out, b.Out)
	case strings.Join(a.Ticks, ",") != strings.Join(b.Ticks, ","):
		return "side-effect-order", fmt.Sprintf("%v vs %v", a.Ticks, b.Ticks)
	}
	return "", ""
}

// ---------------------------------------------------------------------------------------
// order-sensitive programs (source templates; no model needed)

var keyPool = []string{"a", "b", "c", "d", "e", "k1", "k2", "zz", "A", "é", "0", "10", "2", "", "x y"}

func orderProgram(r *mon.Rand) (src string, tags []string) {
	if r.Chance(1, 25) {
		// several things wrong at once: which one is reported must not vary
		bad := []string{"[1]", "{}", "g()", "-x", "1 + 2", "{1, 2}", "func() {}", "a.b", "'{x}'"}
		p := r.Perm(len(bad))
		k := 2 + r.Intn(4)
		var ps []string
		for i := 0; i < k; i++ {
			ps = append(ps, fmt.Sprintf("p%d=%s", i, bad[p[i]]))
		}
		switch r.Intn(5) {
		case 3, 4:
			// several top-level functions declared twice (also under the names of default globals)
			names := []string{"load", "store", "keys", "sorted", "fa", "fb", "zz_last", "len"}
			q := r.Perm(len(names))
			n := 2 + r.Intn(4)
			var decls []string
			for i := 0; i < n; i++ {
				decls = append(decls, fmt.Sprintf("func %s(x) { return %d }", names[q[i]], i))
			}
			q2 := r.Perm(n)
			for _, i := range q2 {
				decls = append(decls, fmt.Sprintf("func %s(y, z) { return %d }", names[q[i]], 10+i))
			}
			return "print(1)\n" + strings.Join(decls, "\n") + "\nprint(2)\n", []string{fmt.Sprintf("functions-redefined%d", n)}
		case 0:
			return "func f(" + strings.Join(ps, ", ") + ") { return 1 }\nprint(f())\n", []string{fmt.Sprintf("bad-defaults%d", k)}
		case 1:
			return "print(1)\nx := [nosuch_a, nosuch_b, nosuch_c]\ny := {nosuch_d: nosuch_e}\n", []string{"several-undefined"}
		default:
			return "m := {\"a\": 1, \"b\": 2, \"c\": 3}\nprint(m.nope, m.nada)\n", []string{"missing-attr"}
		}
	}
	var b strings.Builder
	tick := 0
	tk := func() string { tick++; return fmt.Sprintf("tick(%d)", tick) }
	nm := 2 + r.Intn(11)
	// one from-import statement binding 2..6 names (with and without aliases), in a random order
	if r.Chance(1, 2) {
		mod := mon.Pick(r, []struct {
			name  string
			names []string
			use   string
		}{
			{"math", []string{"abs", "sqrt", "min", "max", "floor", "ceil", "pow", "round"}, "(4.0)"},
			{"strings", []string{"to_upper", "to_lower", "trim_space", "fields", "repeat", "contains", "has_prefix"}, ""},
			{"strconv", []string{"atoi", "parse_bool", "parse_float", "parse_int"}, ""},
		})
		p := r.Perm(len(mod.names))
		k := 2 + r.Intn(5)
		if k > len(p) {
			k = len(p)
		}
		var parts, bound []string
		for _, j := range p[:k] {
			if r.Chance(1, 3) {
				alias := fmt.Sprintf("al%d", j)
				parts = append(parts, mod.names[j]+" as "+alias)
				bound = append(bound, alias)
			} else {
				parts = append(parts, mod.names[j])
				bound = append(bound, mod.names[j])
			}
		}
		if r.Bool() {
			fmt.Fprintf(&b, "from %s import %s\n", mod.name, strings.Join(parts, ", "))
		} else {
			fmt.Fprintf(&b, "from %s import (\n  %s,\n)\n", mod.name, strings.Join(parts, ",\n  "))
		}
		fmt.Fprintf(&b, "print([%s])\n", strings.Join(bound, ", "))
		tags = append(tags, fmt.Sprintf("from-import%d", k))
	}
	// a set whose members are byte_slices (hashable through their string value)
	if r.Chance(1, 3) {
		nb := 2 + r.Intn(6)
		var items []string
		for i := 0; i < nb; i++ {
			items = append(items, fmt.Sprintf("byte_slice(%q)", mon.Pick(r, keyPool)))
		}
		fmt.Fprintf(&b, "bset := {%s}\nprint(bset, list(bset))\nfor bi, bx := range bset { print(bi, bx) }\nprint(sorted(list(bset)), string(bset), bset.union({byte_slice(\"zz\")}))\n", strings.Join(items, ", "))
		tags = append(tags, fmt.Sprintf("byte-slice-set%d", nb))
	}
	// map literal with side-effecting values and (sometimes) duplicate keys
	b.WriteString("m := {")
	for i := 0; i < nm; i++ {
		if i > 0 {
			b.WriteString(", ")
		}
		k := mon.Pick(r, keyPool)
		if r.Chance(1, 6) {
			tags = append(tags, "dup-key-candidate")
		}
		fmt.Fprintf(&b, "%q: %s", k, tk())
	}
	b.WriteString("}\n")
	tags = append(tags, fmt.Sprintf("map%d", nm))
	ns := 2 + r.Intn(8)
	b.WriteString("s := {")
	for i := 0; i < ns; i++ {
		if i > 0 {
			b.WriteString(", ")
		}
		switch r.Intn(4) {
		case 0:
			fmt.Fprintf(&b, "%q", mon.Pick(r, keyPool))
		case 1:
			fmt.Fprintf(&b, "%d.5", r.Intn(5))
		case 2:
			b.WriteString(mon.Pick(r, []string{"true", "false", "nil"}))
		default:
			b.WriteString(tk())
		}
	}
	b.WriteString("}\n")
	tags = append(tags, fmt.Sprintf("set%d", ns))
	stmts := []string{
		"print(m)", "print(s)", "print(keys(m))", "print(m.keys(), m.values())", "print(m.items())", "print(string(m), string(s))",
		"for k, v := range m { tick(k); print(k, v) }", "for k := range m { tick(k) }", "for i, x := range s { print(i, x) }", "for x in s { tick(x) }", "for x in m { tick(x) }",
		"print(sorted(m))", "print(sorted(keys(m)))", "print(list(s))", "print(set(keys(m)))", "print(json.marshal(m))", `print(encode(m, "json"))`, "print(json.marshal(list(s)))",
		"print(s.union({1, \"q\", 2.5}))", "print(s.intersection({1, 2, 3, \"a\", true}))", "m2 := m.copy(); m2.update({\"zz\": tick(100), \"a\": tick(101), \"new\": tick(102)}); print(m2)",
		"print([m, s, [s, m]])", "print('{m} and {s}')", "print(len(m), len(s), \"a\" in m, 1 in s)", "a, b := {\"p\": 1, \"q\": 2}; print(a, b)", "x, y := {5, 6}; print(x, y)",
		"func f(a=1, b=\"x\", c=2.5, d=true) { return [a, b, c, d] }; print(f(), f(9), f(9, 8), f)", "print(any(s), all(s), any(m.values()))",
		"try(func() { return m.nope }, func(e) { print(e) })", "try(func() { return sorted([{}, [], 1, \"a\"]) }, func(e) { print(e) })",
		"try(func() { return {{}, [], 1} }, func(e) { print(e) })", "print(type(m), type(s), m == m.copy(), s == set(list(s)))", "print(reversed(keys(m)))", "delete(m, keys(m)[0]); print(m)",
		"print(math.sum(m.values()))", "print(strings.join(keys(m), \",\"))", "print(coalesce(nil, m, s))", "print(chunk(keys(m), 2))", "print({\"n\": m, \"l\": [s]})", "print(errors.new(string(m)))",
		"g := func(k) { return m[k] }; print(keys(m).map(g))", "print(keys(m).filter(func(k) { return k > \"a\" }))", "each := []; keys(m).each(func(k) { each.append(k) }); print(each)",
		"print(sorted(m, func(a, b) { return len(a) < len(b) }))", "print(sorted(s, func(a, b) { tick(a); return false }))", "print(sorted(m, func(a, b) { tick(b); return m[a] < m[b] }))",
		"print(sorted(keys(m), func(a, b) { return false }), sorted(s, func(a, b) { return type(a) < type(b) }))", "print(sorted(m.values(), func(a, b) { return a % 3 < b % 3 }))",
		"print(try(func() { return host.Join({\"b\", \"a\", \"c\", \"d\"}) }, func(e) { return string(e) }), try(func() { return host.Sum({3, 1, 2, 9, 7}) }, func(e) { return string(e) }))",
		"print(host.Join(keys(m)), host.Any(m), host.Any(s), try(func() { return host.Sum(s) }, func(e) { return string(e) }))", "print(host.Any({\"z\": 1, \"y\": [s], \"x\": m}), host.Keys({\"p\": 1, \"q\": 2}))",
		"print(math.sum({0.1, 0.2, 0.3, 0.4, 0.5, 0.6, 0.7}), math.sum({1e16, 1.0, -1e16, 3.0}), math.sum({1, 2.5, 3}))", "print(try(func() { return math.sum({\"a\", [1], {}, nil}) }, func(e) { return string(e) }), try(func() { return math.sum(s) }, func(e) { return string(e) }))",
		"print(math.sum(m.values()), math.max(1, 2), try(func() { return math.sum(set(m.values())) }, func(e) { return string(e) }))",
		"print(os.environ())", "print(os.environ()[0], len(os.environ()), os.getenv(\"GAMMA\"), os.args())", "for i, e := range os.environ() { tick(e) }",
		"print(try(func() { return encode([{\"a\": 1, \"b\": 2}, {\"a\": 3, \"zq\": 4, \"zb\": 5, \"zk\": 6, \"zc\": 7, \"b\": 8, \"zz\": 9, \"ze\": 10}, {\"yq\": 1, \"yb\": 2, \"ya\": 3, \"a\": 4}], \"csv\") }, func(e) { return string(e) }))",
		"print(try(func() { return encode([m, {\"a\": 1, \"k1\": 2, \"k9\": 3, \"k4\": 4, \"k7\": 5, \"k2\": 6}, m.copy()], \"csv\") }, func(e) { return string(e) }))",
		"print(try(func() { return encode([{\"x\": \"1\"}, m], \"csv\") }, func(e) { return string(e) }), try(func() { return encode(list(s), \"csv\") }, func(e) { return string(e) }))",
		"print(try(func() { return decode(encode([{\"h3\": \"a\", \"h1\": \"b\", \"h2\": \"c\"}, {\"h1\": \"d\", \"n5\": \"e\", \"n2\": \"f\", \"n8\": \"g\", \"n1\": \"h\"}], \"csv\"), \"csv\") }, func(e) { return string(e) }))",
		"far := {9223372036854775807, -1, 0, -9223372036854775807, 5, 4611686018427387904, -4611686018427387905, 1.5, \"q\"}; print(far, list(far), string(far)); for x in far { tick(x) }; print(json.marshal(list(far)), sorted(far.union({2})))",
		"print({9223372036854775807, -1}, {-9223372036854775807, 2, 1}, list({9223372036854775806, -3, 7}), {4611686018427387904: 1, -4611686018427387905: 2})",
		"print(s.union(set(m.values())))", "print(sorted(m.values()))", "print(string(keys(m)), sprintf(\"%v %v\", m, s))", "print(m.get(\"a\", 0), m.pop(\"b\", -1), m.setdefault(\"q\", tick(200)), m)",
	}
	n := 3 + r.Intn(8)
	perm := r.Perm(len(stmts)) // without replacement: several templates declare names
	for i := 0; i < n; i++ {
		j := perm[i]
		b.WriteString(stmts[j])
		b.WriteString("\n")
		tags = append(tags, fmt.Sprintf("t%d", j))
	}
	b.WriteString("[m, s]\n")
	return b.String(), tags
}

// ---------------------------------------------------------------------------------------

type caseData struct {
	eng.Batch
	Kind string `json:"kind"` // "gen" (engine programs) or "order" (templates)
	Rep  int    `json:"rep"`  // process repetition index (same programs, fresh process)
	K    int    `json:"k"`    // repetitions inside the process
	Src  string `json:"src,omitempty"`
}

type progResult struct {
	Index  int    `json:"i"`
	Digest string `json:"d"`
	Sig    string `json:"sig,omitempty"`
}

type failure struct {
	Index  int    `json:"index"`
	Sig    string `json:"sig"`
	Detail string `json:"detail"`
	Source string `json:"source"`
}

type out struct {
	Programs []progResult   `json:"programs"`
	Fail     []failure      `json:"fail"`
	Observed int            `json:"observed"` // programs with >=1 observable
	Evals    int            `json:"evals"`
	TimedOut int            `json:"timed_out"`
	Ticks    int            `json:"ticks"`
	ErrProgs map[string]int `json:"err_progs"`
	Samples  []string       `json:"samples"`
	Sigs     []string       `json:"sigs"`
}

func (c caseData) source(i int) (string, string) {
	if c.Src != "" {
		return c.Src, "replay"
	}
	if c.Kind == "order" {
		r := mon.NewRand(c.Seed).SplitN(i)
		src, tags := orderProgram(r)
		return src, "order:" + strings.Join(tags, ",")
	}
	p, _ := c.Batch.Program(i)
	return gen.RenderProgram(p), "gen:" + eng.FeatureSig(p)
}

func worker(kind string, data json.RawMessage) any {
	var c caseData
	if err := json.Unmarshal(data, &c); err != nil {
		panic(err)
	}
	if c.K == 0 {
		c.K = 4
	}
	o := &out{ErrProgs: map[string]int{}}
	for i := c.From; i < c.From+c.N; i++ {
		src, sig := c.source(i)
		if c.Kind == "gen" {
			// skip programs the model cannot bound (they may run very long)
			p, _ := c.Batch.Program(i)
			if _, _, ok, err := eng.Model(p); err != nil || !ok {
				continue
			}
		}
		first := observe(src)
		if first.TimedOut {
			o.TimedOut++
			continue
		}
		o.Evals++
		var bad string
		var detail string
		for k := 1; k < c.K; k++ {
			next := observe(src)
			if next.TimedOut {
				o.TimedOut++
				continue
			}
			o.Evals++
			if kd, dt := diffObs(first, next); kd != "" {
				bad, detail = kd, dt
				break
			}
		}
		if first.Code != "" && first.Code2 != first.Code {
			bad, detail = "bytecode-after-serialisation", fmt.Sprintf("marshal %s, after unmarshal+marshal %s", first.Code, first.Code2)
		}
		o.Ticks += len(first.Ticks)
		if first.Err != "" {
			cls := first.Err
			if j := strings.Index(cls, ":"); j > 0 {
				cls = cls[:j]
			}
			o.ErrProgs[c.Kind+"-ending-in:"+cls]++
		}
		if first.Result != "" || first.Out != "" || len(first.Ticks) > 0 {
			o.Observed++
			o.Sigs = append(o.Sigs, sig)
		}
		o.Programs = append(o.Programs, progResult{Index: i, Digest: first.digest(), Sig: sig})
		if bad != "" && len(o.Fail) < 10 {
			o.Fail = append(o.Fail, failure{Index: i, Sig: "nondeterministic-in-process:" + bad, Detail: detail, Source: src})
		}
		if len(o.Samples) < 1 && i%13 == 0 && c.Kind == "order" {
			o.Samples = append(o.Samples, src)
		}
	}
	return o
}

func drive(d *mon.Driver, replay string) int {
	d.Rule = "each program is compiled and evaluated K=4 times in one process (fresh VM each; MarshalCode bytes, bytes after unmarshal+marshal, result, error text, printed output and the order of tick() host calls must be identical) and the same list of programs is run again in 2 more fresh processes whose digests must match; programs = engine programs (C01's generator) + order-sensitive templates (map/set literals with 2..12 entries, side-effecting values, duplicate keys, iteration/printing/encoding of maps and sets, default parameters, error messages). A program is non-trivial when it produced >=1 observable (value, output or tick); distinct by its construct signature"
	d.Assume = []string{"no model is involved: nothing beyond self-consistency is demanded", "programs never use rand, time, goroutines or host pointers"}
	var cases []mon.Case
	reps := 3
	type key struct {
		kind string
		from int
	}
	if replay != "" {
		var c caseData
		if err := mon.LoadReplay(replay, &c); err != nil {
			fmt.Println("cannot load replay:", err)
			return 3
		}
		for rep := 0; rep < reps; rep++ {
			c.Rep = rep
			cases = append(cases, mon.NewCase(fmt.Sprintf("replay-%d", rep), c.Kind, c))
		}
	} else {
		r := d.Rand("programs")
		seedGen, seedOrd := r.Uint64(), r.Uint64()
		nGen, nOrd := d.N(2400, 150000), d.N(1600, 60000)
		per := 200
		for rep := 0; rep < reps; rep++ {
			for from := 0; from < nGen; from += per {
				cases = append(cases, mon.NewCase(fmt.Sprintf("gen-%d-r%d", from, rep), "gen", caseData{Batch: eng.Batch{Seed: seedGen, From: from, N: per, Mix: -1}, Kind: "gen", Rep: rep}))
			}
			for from := 0; from < nOrd; from += per {
				cases = append(cases, mon.NewCase(fmt.Sprintf("order-%d-r%d", from, rep), "order", caseData{Batch: eng.Batch{Seed: seedOrd, From: from, N: per}, Kind: "order", Rep: rep}))
			}
		}
	}
	digests := map[string]map[int]string{} // "<kind>/<index>" -> rep -> digest
	sources := map[string]caseData{}
	d.RunPool(cases, mon.PoolOpts{BatchSize: 1, BatchTimeout: 900e9}, func(c mon.Case, res mon.Result) {
		var cd caseData
		_ = json.Unmarshal(c.Data, &cd)
		if res.Status != "done" {
			detail := ""
			if res.Crash != nil {
				detail = res.Crash.Exit + " " + res.Crash.FatalLine
			}
			if res.Status == "crash" && res.Crash != nil && res.Crash.Confirmed {
				d.Violation("worker-died", detail+"\n"+mon.Truncate(res.Crash.StderrTail, 2000), cd)
			} else {
				d.Inconclusive("worker " + c.ID + ": " + res.Status + " " + detail)
			}
			return
		}
		if res.Panic != "" {
			d.Fatal("harness panic in worker: " + res.Panic)
			return
		}
		var o out
		if err := json.Unmarshal(res.Data, &o); err != nil {
			d.Fatal("bad worker output: " + err.Error())
			return
		}
		d.Eval(o.Evals)
		for k := 0; k < o.TimedOut && k < 3; k++ {
			d.Inconclusive("an evaluation ran into the 20 s watchdog (not compared)")
		}
		d.Event("evaluations-timed-out-not-compared", o.TimedOut)
		d.Event("tick-calls-observed", o.Ticks)
		d.Event("programs-with-observables", o.Observed)
		for k, v := range o.ErrProgs {
			d.Event(k, v)
		}
		for _, s := range o.Sigs {
			d.Distinct(s)
		}
		for _, s := range o.Samples {
			d.Sample(s)
		}
		for _, f := range o.Fail {
			rc := cd
			rc.Src = f.Source
			rc.N = 1
			d.Violation(f.Sig, mon.Truncate(f.Detail, 2000)+"\n--- program:\n"+mon.Truncate(f.Source, 3000), rc)
		}
		for _, p := range o.Programs {
			k := fmt.Sprintf("%s/%d", cd.Kind, p.Index)
			if digests[k] == nil {
				digests[k] = map[int]string{}
			}
			digests[k][cd.Rep] = p.Digest
			if _, ok := sources[k]; !ok {
				rc := cd
				rc.From = p.Index
				rc.N = 1
				sources[k] = rc
			}
		}
	})
	cross := 0
	for k, reps := range digests {
		first := ""
		same := true
		for _, dg := range reps {
			if first == "" {
				first = dg
			} else if dg != first {
				same = false
			}
		}
		if len(reps) >= 2 {
			cross++
		}
		if !same {
			rc := sources[k]
			src, _ := rc.source(rc.From)
			d.Violation("nondeterministic-across-processes", fmt.Sprintf("program %s gave different observations in different processes: %v\n--- program:\n%s", k, reps, mon.Truncate(src, 3000)), rc)
		}
	}
	d.Event("programs-compared-across-processes", cross)
	if replay != "" {
		return d.Finish(0, 0)
	}
	return d.Finish(d.N(20000, 1000000), d.N(2000, 50000))
}
