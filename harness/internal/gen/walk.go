package gen

// stmtLists collects pointers to every statement list of the program (top level, function bodies,
// if/else blocks, switch case bodies, loop bodies).
func stmtLists(p *Program) []*[]Stmt {
	var res []*[]Stmt
	res = append(res, &p.Stmts)
	var ws func(s Stmt)
	var we func(e Expr)
	wl := func(l *[]Stmt) {
		res = append(res, l)
		for _, s := range *l {
			ws(s)
		}
	}
	we = func(e Expr) {
		switch x := e.(type) {
		case nil:
		case *TemplateLit:
			for _, p := range x.Parts {
				if p.X != nil {
					we(p.X)
				}
			}
		case *Prefix:
			we(x.X)
		case *Paren:
			we(x.X)
		case *Binary:
			we(x.L)
			we(x.R)
		case *InExpr:
			we(x.X)
			we(x.C)
		case *Ternary:
			we(x.C)
			we(x.A)
			we(x.B)
		case *Index:
			we(x.X)
			we(x.I)
		case *SliceE:
			we(x.X)
			if x.Lo != nil {
				we(x.Lo)
			}
			if x.Hi != nil {
				we(x.Hi)
			}
		case *Attr:
			we(x.X)
		case *MethodCall:
			we(x.X)
			for _, a := range x.Args {
				we(a)
			}
		case *Call:
			we(x.F)
			for _, a := range x.Args {
				we(a)
			}
		case *ListLit:
			for _, a := range x.Items {
				we(a)
			}
		case *MapLit:
			for _, a := range x.Vals {
				we(a)
			}
		case *SetLit:
			for _, a := range x.Items {
				we(a)
			}
		case *FuncLit:
			wl(&x.Body)
		case *IfExpr:
			we(x.Cond)
			wl(&x.Then)
			if x.ElseIf != nil {
				we(x.ElseIf)
			}
			if x.HasElse {
				wl(&x.Else)
			}
		case *SwitchExpr:
			we(x.Subject)
			for i := range x.Cases {
				for _, v := range x.Cases[i].Values {
					we(v)
				}
				wl(&x.Cases[i].Body)
			}
		case *Pipe:
			for _, s := range x.Stages {
				we(s)
			}
		}
	}
	ws = func(s Stmt) {
		switch x := s.(type) {
		case *ExprStmt:
			we(x.X)
		case *VarDecl:
			we(x.X)
		case *MultiDecl:
			we(x.X)
		case *Assign:
			we(x.Target)
			we(x.X)
		case *FuncDecl:
			wl(&x.F.Body)
		case *Return:
			if x.X != nil {
				we(x.X)
			}
		case *For:
			if x.Init != nil {
				ws(x.Init)
			}
			if x.Cond != nil {
				we(x.Cond)
			}
			if x.Post != nil {
				ws(x.Post)
			}
			if x.Iter != nil {
				we(x.Iter)
			}
			wl(&x.Body)
		case *Defer:
			we(x.Call)
		}
	}
	for _, s := range p.Stmts {
		ws(s)
	}
	return res
}

// Shrink removes statements one at a time while stillFails keeps returning true. stillFails must
// itself reject programs the model cannot decide. The program is modified in place.
func Shrink(p *Program, stillFails func(*Program) bool, maxTries int) {
	tries := 0
	for changed := true; changed && tries < maxTries; {
		changed = false
		lists := stmtLists(p)
		for li := len(lists) - 1; li >= 0 && tries < maxTries; li-- {
			l := lists[li]
			for i := len(*l) - 1; i >= 0 && tries < maxTries; i-- {
				saved := *l
				cand := make([]Stmt, 0, len(saved)-1)
				cand = append(cand, saved[:i]...)
				cand = append(cand, saved[i+1:]...)
				*l = cand
				tries++
				if stillFails(p) {
					changed = true
				} else {
					*l = saved
				}
			}
			if changed {
				break // lists are stale after a removal that dropped nested lists
			}
		}
	}
}

// Features returns a coarse structural signature of a program: the set of node kinds and the deepest
// chain of nested control constructs.
func Features(p *Program) (kinds map[string]int, deepest string) {
	kinds = map[string]int{}
	var chain []string
	best := ""
	var ws func(s Stmt)
	var we func(e Expr)
	enter := func(k string, f func()) {
		chain = append(chain, k)
		if len(chain) > len(splitChain(best)) {
			best = joinChain(chain)
		}
		f()
		chain = chain[:len(chain)-1]
	}
	wl := func(l []Stmt) {
		for _, s := range l {
			ws(s)
		}
	}
	we = func(e Expr) {
		switch x := e.(type) {
		case nil:
		case *IntLit:
			kinds["int"]++
		case *FloatLit:
			kinds["float"]++
		case *StrLit:
			kinds["str"]++
		case *BoolLit, *NilLit:
			kinds["const"]++
		case *Ident:
			kinds["ident"]++
		case *TemplateLit:
			kinds["template"]++
			for _, p := range x.Parts {
				if p.X != nil {
					we(p.X)
				}
			}
		case *Prefix:
			kinds["prefix"+x.Op]++
			we(x.X)
		case *Paren:
			we(x.X)
		case *Binary:
			kinds["bin"+x.Op]++
			we(x.L)
			we(x.R)
		case *InExpr:
			kinds["in"]++
			we(x.X)
			we(x.C)
		case *Ternary:
			kinds["ternary"]++
			we(x.C)
			we(x.A)
			we(x.B)
		case *Index:
			kinds["index"]++
			we(x.X)
			we(x.I)
		case *SliceE:
			kinds["slice"]++
			we(x.X)
			we(x.Lo)
			we(x.Hi)
		case *Attr:
			kinds["attr"]++
			we(x.X)
		case *MethodCall:
			kinds["method:"+x.Name]++
			we(x.X)
			for _, a := range x.Args {
				we(a)
			}
		case *Call:
			if id, ok := x.F.(*Ident); ok && builtinNames[id.Name] {
				kinds["call:"+id.Name]++
			} else {
				kinds["call"]++
			}
			we(x.F)
			for _, a := range x.Args {
				we(a)
			}
		case *ListLit:
			kinds["list"]++
			for _, a := range x.Items {
				we(a)
			}
		case *MapLit:
			kinds["map"]++
			for _, a := range x.Vals {
				we(a)
			}
		case *SetLit:
			kinds["set"]++
			for _, a := range x.Items {
				we(a)
			}
		case *FuncLit:
			kinds["funclit"]++
			enter("func", func() { wl(x.Body) })
		case *IfExpr:
			kinds["if"]++
			we(x.Cond)
			enter("if", func() {
				wl(x.Then)
				if x.HasElse {
					wl(x.Else)
				}
			})
			if x.ElseIf != nil {
				we(x.ElseIf)
			}
		case *SwitchExpr:
			kinds["switch"]++
			we(x.Subject)
			enter("switch", func() {
				for _, c := range x.Cases {
					for _, v := range c.Values {
						we(v)
					}
					wl(c.Body)
				}
			})
		case *Pipe:
			kinds["pipe"]++
			for _, s := range x.Stages {
				we(s)
			}
		}
	}
	ws = func(s Stmt) {
		switch x := s.(type) {
		case *ExprStmt:
			we(x.X)
		case *VarDecl:
			kinds["decl:"+x.Kind]++
			we(x.X)
		case *MultiDecl:
			kinds["multi"]++
			we(x.X)
		case *Assign:
			switch x.Target.(type) {
			case *Index:
				kinds["assign-index"+x.Op]++
			case *Attr:
				kinds["assign-attr"+x.Op]++
			default:
				kinds["assign"+x.Op]++
			}
			we(x.X)
		case *IncDec:
			kinds["incdec"]++
		case *FuncDecl:
			kinds["funcdecl"]++
			enter("func", func() { wl(x.F.Body) })
		case *Return:
			kinds["return"]++
			we(x.X)
		case *Break:
			kinds["break"]++
			if len(chain) > 0 {
				kinds["break@"+joinChain(lastN(chain, 3))]++
			}
		case *Continue:
			kinds["continue"]++
			if len(chain) > 0 {
				kinds["continue@"+joinChain(lastN(chain, 3))]++
			}
		case *For:
			kinds["for:"+x.Kind]++
			we(x.Cond)
			we(x.Iter)
			enter("for:"+x.Kind, func() { wl(x.Body) })
		case *Defer:
			kinds["defer"]++
			we(x.Call)
		}
	}
	wl(p.Stmts)
	return kinds, best
}

func lastN(c []string, n int) []string {
	if len(c) > n {
		return c[len(c)-n:]
	}
	return c
}

func joinChain(c []string) string {
	s := ""
	for i, x := range c {
		if i > 0 {
			s += ">"
		}
		s += x
	}
	return s
}

func splitChain(s string) []string {
	if s == "" {
		return nil
	}
	var res []string
	cur := ""
	for _, c := range s {
		if c == '>' {
			res = append(res, cur)
			cur = ""
		} else {
			cur += string(c)
		}
	}
	return append(res, cur)
}

// Instrument inserts a call `<name>(<site>)` before every statement of every statement list and
// returns the number of sites. Used by C04 to sample the operand stack depth between statements.
func Instrument(p *Program, name string) int {
	site := 0
	for _, l := range stmtLists(p) {
		var out []Stmt
		for _, s := range *l {
			site++
			out = append(out, &ExprStmt{X: &Call{F: &Ident{Name: name}, Args: []Expr{&IntLit{V: int64(site)}}}})
			out = append(out, s)
		}
		*l = out
	}
	return site
}

// FreeNames returns the identifiers that the function's own code refers to (not descending into
// nested function literals) at a place where no declaration of the function itself is in scope: block
// scopes and declaration order are followed, so that a name which a nested block re-declares still counts
// where it is used outside that block or before the declaration (`x := x + 1`). Callers resolve the names
// and ignore globals and builtins.
func FreeNames(fl *FuncLit) []string {
	scopes := []map[string]bool{{}}
	used := map[string]bool{}
	declare := func(n string) { scopes[len(scopes)-1][n] = true }
	use := func(n string) {
		for i := len(scopes) - 1; i >= 0; i-- {
			if scopes[i][n] {
				return
			}
		}
		used[n] = true
	}
	push := func() { scopes = append(scopes, map[string]bool{}) }
	pop := func() { scopes = scopes[:len(scopes)-1] }
	for _, p := range fl.Params {
		declare(p.Name)
	}
	if fl.Name != "" {
		declare(fl.Name)
	}
	push() // the body block
	var ws func(s Stmt)
	var we func(e Expr)
	wl := func(l []Stmt) {
		for _, s := range l {
			ws(s)
		}
	}
	block := func(l []Stmt) {
		push()
		wl(l)
		pop()
	}
	we = func(e Expr) {
		switch x := e.(type) {
		case nil:
		case *Ident:
			use(x.Name)
		case *TemplateLit:
			for _, p := range x.Parts {
				if p.X != nil {
					we(p.X)
				}
			}
		case *Prefix:
			we(x.X)
		case *Paren:
			we(x.X)
		case *Binary:
			we(x.L)
			we(x.R)
		case *InExpr:
			we(x.X)
			we(x.C)
		case *Ternary:
			we(x.C)
			we(x.A)
			we(x.B)
		case *Index:
			we(x.X)
			we(x.I)
		case *SliceE:
			we(x.X)
			we(x.Lo)
			we(x.Hi)
		case *Attr:
			we(x.X)
		case *MethodCall:
			we(x.X)
			for _, a := range x.Args {
				we(a)
			}
		case *Call:
			we(x.F)
			for _, a := range x.Args {
				we(a)
			}
		case *ListLit:
			for _, a := range x.Items {
				we(a)
			}
		case *MapLit:
			for _, a := range x.Vals {
				we(a)
			}
		case *SetLit:
			for _, a := range x.Items {
				we(a)
			}
		case *FuncLit:
			// nested literal: its free variables are resolved when IT is created
		case *IfExpr:
			we(x.Cond)
			block(x.Then)
			if x.ElseIf != nil {
				we(x.ElseIf)
			}
			block(x.Else)
		case *SwitchExpr:
			we(x.Subject)
			for _, c := range x.Cases {
				for _, v := range c.Values {
					we(v)
				}
				block(c.Body)
			}
		case *Pipe:
			for _, s := range x.Stages {
				we(s)
			}
		}
	}
	ws = func(s Stmt) {
		switch x := s.(type) {
		case *ExprStmt:
			we(x.X)
		case *VarDecl:
			we(x.X)
			declare(x.Name)
		case *MultiDecl:
			we(x.X)
			for _, n := range x.Names {
				if x.Decl {
					declare(n)
				} else {
					use(n)
				}
			}
		case *Assign:
			we(x.Target)
			we(x.X)
		case *IncDec:
			use(x.Name)
		case *FuncDecl:
			declare(x.F.Name)
		case *Return:
			we(x.X)
		case *For:
			push() // loop scope: init variable, range variables
			if x.Init != nil {
				ws(x.Init)
			}
			we(x.Cond)
			we(x.Iter)
			if x.K != "" {
				declare(x.K)
			}
			if x.V != "" {
				declare(x.V)
			}
			block(x.Body)
			if x.Post != nil {
				ws(x.Post)
			}
			pop()
		case *Defer:
			we(x.Call)
		}
	}
	wl(fl.Body)
	var res []string
	for n := range used {
		res = append(res, n)
	}
	return res
}
