package gen

// expr generates an expression of (usually) the wanted abstract type; d is the remaining depth.
func (g *Gen) expr(t T, d int) Expr {
	g.budget--
	if d <= 0 || g.budget <= 0 {
		return g.leaf(t)
	}
	// redundant parentheses now and then
	if g.chance(1, 25) && !g.inTmpl {
		g.feat("redundant-parens")
		return &Paren{X: g.expr(t, d-1)}
	}
	// generic wrappers that work for every type
	if !g.inTmpl {
		switch g.pick(40) {
		case 0:
			if !g.inTern {
				g.feat("ternary")
				c := g.expr(tBool, d-1)
				g.inTern = true
				a, b := g.expr(t, d-1), g.expr(t, d-1)
				g.inTern = false
				return &Ternary{C: c, A: a, B: b}
			}
		case 1:
			g.feat("if-expr")
			x := &IfExpr{Cond: g.cond(), Then: []Stmt{&ExprStmt{X: g.expr(t, d-1)}}}
			if g.chance(3, 4) {
				x.HasElse = true
				x.Else = []Stmt{&ExprStmt{X: g.expr(t, d-1)}}
			}
			return x
		case 2:
			g.feat("switch-expr")
			return g.switchExpr(func() []Stmt { return []Stmt{&ExprStmt{X: g.expr(t, d-1)}} })
		case 3:
			if c := g.userCall(t, d-1); c != nil {
				return c
			}
		case 4:
			if t != tFunc {
				g.feat("and-or-value")
				op := "&&"
				if g.chance(1, 2) {
					op = "||"
				}
				return &Binary{Op: op, L: g.expr(t, d-1), R: g.expr(t, d-1)}
			}
		case 5:
			// immediately invoked function literal
			if g.level < 2 {
				g.feat("iife")
				fl := &FuncLit{Body: []Stmt{&Return{X: nil}}}
				g.level++
				g.push(true)
				savedLoops, savedTern := g.loops, g.inTern
				g.loops = 0
				fl.Body = []Stmt{&Return{X: g.expr(t, d-1)}}
				g.loops, g.inTern = savedLoops, savedTern
				g.pop()
				g.level--
				return &Call{F: fl}
			}
		}
	}
	switch t {
	case tInt:
		return g.intExpr(d)
	case tFloat:
		return g.floatExpr(d)
	case tStr:
		return g.strExpr(d)
	case tBool:
		return g.boolExpr(d)
	case tListInt, tListStr, tListAny:
		return g.listExpr(t, d)
	case tMap:
		if v := g.pickVar(tMap); v != nil && g.chance(1, 2) {
			return &Ident{Name: v.name}
		}
		return g.containerLit(tMap)
	case tSet:
		if v := g.pickVar(tSet); v != nil && g.chance(1, 2) {
			return &Ident{Name: v.name}
		}
		return g.containerLit(tSet)
	case tNil:
		return &NilLit{}
	}
	// tAny
	ts := []T{tInt, tInt, tFloat, tStr, tStr, tBool, tListInt, tListStr, tMap, tNil, tListAny, tSet}
	return g.expr(ts[g.pick(len(ts))], d)
}

func (g *Gen) leaf(t T) Expr {
	if v := g.pickVar(t); v != nil && g.chance(2, 3) {
		return &Ident{Name: v.name}
	}
	switch t {
	case tInt:
		return g.intLit()
	case tFloat:
		return &FloatLit{V: float64(g.pick(64)) / 8}
	case tStr:
		return g.strLit()
	case tBool:
		return &BoolLit{V: g.chance(1, 2)}
	case tNil:
		return &NilLit{}
	case tListInt, tListStr, tMap, tSet:
		if g.inTmpl {
			return &IntLit{V: int64(g.pick(5))}
		}
		return g.containerLit(t)
	case tListAny:
		if g.inTmpl {
			return &IntLit{V: int64(g.pick(5))}
		}
		return &ListLit{Items: []Expr{g.intLit(), g.strLit(), &BoolLit{V: true}}}
	}
	ts := []T{tInt, tFloat, tStr, tBool, tNil}
	return g.leaf(ts[g.pick(len(ts))])
}

var intOps = []string{"+", "+", "-", "-", "*", "*", "/", "%", "**", "<<", ">>", "&"}

func (g *Gen) intExpr(d int) Expr {
	switch g.pick(16) {
	case 0, 1, 2, 3, 4, 5, 6:
		op := intOps[g.pick(len(intOps))]
		g.feat("int" + op)
		l := g.expr(tInt, d-1)
		var r Expr
		switch op {
		case "/", "%":
			if g.chance(1, 3) {
				r = g.expr(tInt, d-1) // may be zero: the model knows
			} else {
				r = g.nonZeroInt()
			}
		case "**":
			l = &IntLit{V: int64(g.pick(10))}
			if g.chance(1, 3) {
				l = &Prefix{Op: "-", X: &IntLit{V: int64(1 + g.pick(5))}}
			}
			r = &IntLit{V: int64(g.pick(6))}
		case "<<", ">>":
			r = &IntLit{V: int64(g.pick(66))}
		default:
			r = g.expr(tInt, d-1)
		}
		return &Binary{Op: op, L: l, R: r}
	case 7:
		g.feat("neg")
		return &Prefix{Op: "-", X: g.expr(tInt, d-1)}
	case 8:
		g.feat("len")
		ts := []T{tListInt, tStr, tMap, tListStr, tSet}
		return &Call{F: &Ident{Name: "len"}, Args: []Expr{g.expr(ts[g.pick(len(ts))], d-1)}}
	case 9:
		// index into a list of ints
		g.feat("index-list")
		return &Index{X: g.nonEmptyList(d - 1), I: g.smallIndex()}
	case 10:
		if v := g.pickVar(tMap); v != nil {
			g.feat("index-map")
			key := []string{"a", "b", "k"}[g.pick(3)]
			if g.chance(1, 2) {
				g.feat("attr-read")
				return &Attr{X: &Ident{Name: v.name}, Name: key}
			}
			return &Index{X: &Ident{Name: v.name}, I: &StrLit{V: key}}
		}
	case 11:
		if c := g.userCall(tInt, d-1); c != nil {
			return c
		}
	case 12:
		g.feat("list-index-method")
		return &MethodCall{X: g.expr(tListInt, d-1), Name: []string{"index", "count"}[g.pick(2)], Args: []Expr{g.expr(tInt, d-1)}}
	case 13:
		if g.failHere() && !g.inTmpl {
			g.feat("fail:type")
			return &Binary{Op: "+", L: g.expr(tInt, d-1), R: g.strLit()}
		}
	}
	return g.leaf(tInt)
}

// nonEmptyList returns a list-of-int expression that is non-empty in the common case.
func (g *Gen) nonEmptyList(d int) Expr {
	if v := g.pickVar(tListInt); v != nil && g.chance(1, 2) {
		return &Ident{Name: v.name}
	}
	l := &ListLit{}
	n := 1 + g.pick(3)
	for i := 0; i < n; i++ {
		l.Items = append(l.Items, g.expr(tInt, d-1))
	}
	return l
}

func (g *Gen) floatExpr(d int) Expr {
	switch g.pick(8) {
	case 0, 1, 2:
		op := []string{"+", "-", "*", "/"}[g.pick(4)]
		g.feat("float" + op)
		l, r := g.expr(tFloat, d-1), g.expr(tFloat, d-1)
		switch g.pick(3) {
		case 0:
			l = g.expr(tInt, d-1)
			g.feat("int-float-mix")
		case 1:
			r = g.expr(tInt, d-1)
			g.feat("float-int-mix")
		}
		return &Binary{Op: op, L: l, R: r}
	case 3:
		return &Prefix{Op: "-", X: g.expr(tFloat, d-1)}
	case 4:
		g.feat("float**")
		return &Binary{Op: "**", L: &FloatLit{V: float64(g.pick(9)) / 2}, R: &FloatLit{V: float64(g.pick(5))}}
	}
	return g.leaf(tFloat)
}

func (g *Gen) strExpr(d int) Expr {
	switch g.pick(14) {
	case 0, 1, 2:
		g.feat("str+")
		return &Binary{Op: "+", L: g.expr(tStr, d-1), R: g.expr(tStr, d-1)}
	case 3:
		g.feat("index-str")
		s := []string{"abc", "é日本", "xyz!", "q"}[g.pick(4)]
		return &Index{X: &StrLit{V: s}, I: g.smallIndex()}
	case 4:
		g.feat("slice-str")
		return g.sliceOf(&StrLit{V: []string{"abcdef", "é日本語", "hello world"}[g.pick(3)]}, 4)
	case 5, 6:
		if !g.inTmpl {
			return g.template(d)
		}
	case 7:
		g.feat("to_upper")
		return &MethodCall{X: g.expr(tStr, d-1), Name: []string{"to_upper", "to_lower"}[g.pick(2)]}
	case 8:
		g.feat("string()")
		return &Call{F: &Ident{Name: "string"}, Args: []Expr{g.expr([]T{tInt, tFloat, tBool, tListInt, tMap, tNil, tStr}[g.pick(7)], d-1)}}
	case 9:
		g.feat("type()")
		return &Call{F: &Ident{Name: "type"}, Args: []Expr{g.expr(tAny, d-1)}}
	case 10:
		if c := g.userCall(tStr, d-1); c != nil {
			return c
		}
	case 11:
		if !g.inTmpl {
			g.feat("pipe")
			// x | to-string | type : stages are bare callables or calls with literal arguments
			return &Pipe{Stages: []Expr{g.expr(tAny, d-1), &Ident{Name: "type"}}}
		}
	}
	return g.leaf(tStr)
}

// sliceOf builds a slice expression over x whose literal bounds usually are in range (n = known length
// of x, or a small guess).
func (g *Gen) sliceOf(x Expr, n int) Expr {
	s := &SliceE{X: x}
	lo, hi := g.pick(n), 0
	hi = lo + g.pick(n-lo+1)
	if g.failHere() {
		g.feat("fail:slice")
		hi = n + 50
	}
	switch g.pick(5) {
	case 0:
		s.Hi = &IntLit{V: int64(hi)}
	case 1:
		s.Lo = &IntLit{V: int64(lo)}
	case 2:
	case 3:
		s.Lo = &IntLit{V: int64(lo)}
		s.Hi = &Prefix{Op: "-", X: &IntLit{V: 1}}
	default:
		s.Lo = &IntLit{V: int64(lo)}
		s.Hi = &IntLit{V: int64(hi)}
	}
	return s
}

func (g *Gen) template(d int) Expr {
	g.feat("template")
	tl := &TemplateLit{}
	n := 1 + g.pick(4)
	texts := []string{"v=", " ", "{x}", "a'b", "é:", "-", "\n", "t\t", "\\"}
	saved := g.inTmpl
	g.inTmpl = true
	for i := 0; i < n; i++ {
		if g.chance(1, 2) {
			tl.Parts = append(tl.Parts, TemplPart{Text: texts[g.pick(len(texts))]})
		} else {
			// expressions inside templates: no braces, no quotes that need escaping, no nested templates
			var x Expr
			switch g.pick(5) {
			case 0, 1:
				x = g.templExpr(tInt, 2)
			case 2:
				x = g.templExpr(tStr, 1)
			case 3:
				x = g.templExpr(tBool, 1)
			default:
				if v := g.visible(func(v *gvar) bool { return v.typ != tFunc }); len(v) > 0 {
					x = &Ident{Name: v[g.pick(len(v))].name}
				} else {
					x = g.templExpr(tInt, 1)
				}
			}
			tl.Parts = append(tl.Parts, TemplPart{X: x})
		}
	}
	g.inTmpl = saved
	return tl
}

// templExpr: a restricted expression (identifiers, int literals, arithmetic, comparisons, len()).
func (g *Gen) templExpr(t T, d int) Expr {
	switch t {
	case tInt:
		if d > 0 && g.chance(1, 2) {
			op := []string{"+", "-", "*"}[g.pick(3)]
			return &Binary{Op: op, L: g.templExpr(tInt, d-1), R: g.templExpr(tInt, d-1)}
		}
		if v := g.pickVar(tInt); v != nil && g.chance(1, 2) {
			return &Ident{Name: v.name}
		}
		return &IntLit{V: int64(g.pick(20))}
	case tStr:
		if v := g.pickVar(tStr); v != nil {
			return &Ident{Name: v.name}
		}
		return &StrLit{V: []string{"a", "ab", "z"}[g.pick(3)]}
	case tBool:
		return &Binary{Op: []string{"<", "==", ">="}[g.pick(3)], L: g.templExpr(tInt, 0), R: g.templExpr(tInt, 0)}
	}
	return &IntLit{V: 1}
}

var cmpOps = []string{"==", "!=", "<", "<=", ">", ">="}

func (g *Gen) boolExpr(d int) Expr {
	switch g.pick(14) {
	case 0, 1, 2, 3:
		op := cmpOps[g.pick(len(cmpOps))]
		t := []T{tInt, tInt, tFloat, tStr, tBool, tListInt}[g.pick(6)]
		g.feat("cmp" + op)
		l, r := g.expr(t, d-1), g.expr(t, d-1)
		if t == tInt && g.chance(1, 4) {
			r = g.expr(tFloat, d-1)
			g.feat("cmp-int-float")
		}
		return &Binary{Op: op, L: l, R: r}
	case 4:
		// equality across arbitrary types never fails
		g.feat("eq-any")
		return &Binary{Op: []string{"==", "!="}[g.pick(2)], L: g.expr(tAny, d-1), R: g.expr(tAny, d-1)}
	case 5, 6:
		op := "&&"
		if g.chance(1, 2) {
			op = "||"
		}
		g.feat("bool" + op)
		return &Binary{Op: op, L: g.expr(tBool, d-1), R: g.expr(tBool, d-1)}
	case 7:
		g.feat("not")
		return &Prefix{Op: "!", X: g.expr(tAny, d-1)}
	case 8, 9:
		// `in`: one operand is trivial so that operand order cannot be observed
		not := g.chance(1, 3)
		g.feat("in")
		switch g.pick(4) {
		case 0:
			return &InExpr{X: g.expr(tInt, d-1), C: g.trivial(tListInt), Not: not}
		case 1:
			return &InExpr{X: g.trivial(tInt), C: g.expr(tListInt, d-1), Not: not}
		case 2:
			return &InExpr{X: g.trivial(tStr), C: g.trivial(tMap), Not: not}
		default:
			return &InExpr{X: &StrLit{V: []string{"a", "b", "lo", ""}[g.pick(4)]}, C: g.expr(tStr, d-1), Not: not}
		}
	case 10:
		if v := g.pickVar(tSet); v != nil {
			g.feat("in-set")
			return &InExpr{X: g.trivial(tInt), C: &Ident{Name: v.name}}
		}
	case 11:
		if c := g.userCall(tBool, d-1); c != nil {
			return c
		}
	case 12:
		g.feat("any-all")
		return &Call{F: &Ident{Name: []string{"any", "all"}[g.pick(2)]}, Args: []Expr{g.expr(tListInt, d-1)}}
	case 13:
		if g.failHere() && !g.inTmpl {
			g.feat("fail:compare")
			return &Binary{Op: "<", L: g.expr(tInt, d-1), R: g.strLit()}
		}
	}
	return g.leaf(tBool)
}

// trivial: an identifier or literal of the type (no side effects, cannot fail).
func (g *Gen) trivial(t T) Expr {
	if v := g.pickVar(t); v != nil && g.chance(2, 3) {
		return &Ident{Name: v.name}
	}
	switch t {
	case tListInt:
		return &ListLit{Items: []Expr{&IntLit{V: 1}, &IntLit{V: int64(g.pick(4))}}}
	case tMap:
		return &MapLit{Keys: []string{"a"}, Vals: []Expr{&IntLit{V: 1}}}
	case tStr:
		return &StrLit{V: []string{"a", "b", "k"}[g.pick(3)]}
	}
	return &IntLit{V: int64(g.pick(5))}
}

func (g *Gen) listExpr(t T, d int) Expr {
	if t == tListAny {
		l := &ListLit{}
		n := g.pick(4)
		for i := 0; i < n; i++ {
			l.Items = append(l.Items, g.expr(tAny, d-1))
		}
		g.feat("list-any")
		return l
	}
	switch g.pick(12) {
	case 0, 1:
		g.feat("list+")
		return &Binary{Op: "+", L: g.expr(t, d-1), R: g.expr(t, d-1)}
	case 2:
		if t == tListInt {
			g.feat("slice-list")
			l := &ListLit{}
			for i := 0; i < 4; i++ {
				l.Items = append(l.Items, g.expr(tInt, d-1))
			}
			return g.sliceOf(l, 4)
		}
	case 3:
		g.feat("sorted")
		return &Call{F: &Ident{Name: "sorted"}, Args: []Expr{g.expr(t, d-1)}}
	case 4:
		if t == tListStr {
			g.feat("keys")
			return &Call{F: &Ident{Name: "keys"}, Args: []Expr{g.expr(tMap, d-1)}}
		}
		g.feat("keys-list")
		return &Call{F: &Ident{Name: "keys"}, Args: []Expr{g.expr(tListStr, d-1)}}
	case 5:
		g.feat("reversed")
		return &Call{F: &Ident{Name: "reversed"}, Args: []Expr{g.expr(t, d-1)}}
	case 6, 7:
		if t == tListInt && g.level < 2 && !g.inTmpl {
			// map / filter with a function literal (callback through a builtin)
			name := []string{"map", "filter"}[g.pick(2)]
			g.feat("list." + name)
			fl := g.callback(name)
			return &MethodCall{X: g.expr(tListInt, d-1), Name: name, Args: []Expr{fl}}
		}
	case 8:
		if c := g.userCall(t, d-1); c != nil {
			return c
		}
	case 9:
		if t == tListInt {
			g.feat("append-expr")
			return &MethodCall{X: g.containerLit(tListInt), Name: "append", Args: []Expr{g.expr(tInt, d-1)}}
		}
	case 10:
		if t == tListInt {
			g.feat("pipe-sorted")
			return &Pipe{Stages: []Expr{g.expr(tListInt, d-1), &Ident{Name: "sorted"}, &Ident{Name: "reversed"}}}
		}
	}
	if v := g.pickVar(t); v != nil && g.chance(1, 2) {
		return &Ident{Name: v.name}
	}
	return g.containerLit(t)
}

// callback: a one- or two-parameter function literal over ints for list.map / list.filter.
func (g *Gen) callback(kind string) *FuncLit {
	fl := &FuncLit{}
	g.level++
	g.push(true)
	savedLoops, savedTern := g.loops, g.inTern
	g.loops = 0
	x := g.fresh("x")
	if kind == "map" && g.chance(1, 2) {
		i := g.fresh("i")
		fl.Params = []Param{{Name: i}, {Name: x}}
		g.declare(&gvar{name: i, typ: tInt})
		g.feat("map-with-index")
	} else {
		fl.Params = []Param{{Name: x}}
	}
	g.declare(&gvar{name: x, typ: tInt})
	g.push(false)
	if g.chance(1, 3) {
		fl.Body = append(fl.Body, g.stmts()...)
	}
	if kind == "filter" {
		fl.Body = append(fl.Body, &Return{X: g.expr(tBool, 2)})
	} else {
		fl.Body = append(fl.Body, &Return{X: g.expr(tInt, 2)})
	}
	g.pop()
	g.loops, g.inTern = savedLoops, savedTern
	g.pop()
	g.level--
	return fl
}

// userCall generates a call of a visible user function whose return type fits (nil if none).
func (g *Gen) userCall(t T, d int) Expr {
	if g.inTmpl && d > 1 {
		d = 1
	}
	fs := g.visible(func(v *gvar) bool {
		return v.typ == tFunc && v.fn != nil && (t == tAny || v.fn.ret == t) && !v.fn.recursive
	})
	// a function must not call itself or functions declared later: only functions whose generation
	// has finished are in scope with fn set, except the function being generated (excluded by name)
	var ok []*gvar
	for _, f := range fs {
		if g.generating[f.name] {
			continue
		}
		ok = append(ok, f)
	}
	if len(ok) == 0 {
		return nil
	}
	f := ok[g.pick(len(ok))]
	nargs := f.fn.nreq
	if extra := len(f.fn.params) - f.fn.nreq; extra > 0 {
		nargs += g.pick(extra + 1)
	}
	if g.failHere() {
		g.feat("fail:args")
		nargs = len(f.fn.params) + 1
	}
	var args []Expr
	for i := 0; i < nargs; i++ {
		pt := tInt
		if i < len(f.fn.params) {
			pt = f.fn.params[i]
		}
		args = append(args, g.expr(pt, d))
	}
	g.feat("user-call")
	return &Call{F: &Ident{Name: f.name}, Args: args}
}
