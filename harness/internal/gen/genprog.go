package gen

import (
	"fmt"
)

// Rng is the random source of the generator (mon.Rand satisfies it).
type Rng interface{ Intn(n int) int }

// abstract types used to direct generation
type T int

const (
	tAny T = iota
	tInt
	tFloat
	tStr
	tBool
	tNil
	tListInt
	tListStr
	tListAny
	tMap // map[string]int
	tSet // set of ints
	tFunc
)

type gvar struct {
	name    string
	typ     T
	level   int  // function nesting level of the declaration (0 = global)
	ro      bool // must not be assigned (const, loop counters, functions, frozen iterables)
	fn      *gfunc
	isConst bool
}

type gfunc struct {
	name      string
	params    []T
	nreq      int // required parameters
	ret       T
	level     int
	recursive bool
}

type gscope struct {
	vars   []*gvar
	parent *gscope
	fnTop  bool // first scope of a function body
}

// Mix selects the flavour of generated programs.
type Mix int

const (
	MixExpr Mix = iota
	MixControl
	MixData
	MixClosure
)

// Gen is the program generator.
type Gen struct {
	R            Rng
	Mix          Mix
	budget       int
	sc           *gscope
	level        int // current function nesting level
	loops        int // loop nesting inside the current function
	nameN        int
	inTern       bool
	inTmpl       bool
	funcs        []*gfunc
	Feats        map[string]int // feature counts of the generated program
	NoForwardRef bool           // do not refer to top-level functions before their declaration
	errRate      int            // per-mille chance of a deliberately failing operation at a failure site
	NoFail       bool
	pending      []Stmt
	noDefer      bool            // no defer statements (loop-dominated programs: deferred calls pile up per iteration)
	generating   map[string]bool // named functions whose body is being generated (not callable yet)
}

func NewGen(r Rng, mix Mix) *Gen {
	return &Gen{R: r, Mix: mix, Feats: map[string]int{}, errRate: 25, generating: map[string]bool{}}
}

func (g *Gen) feat(f string) { g.Feats[f]++ }

func (g *Gen) chance(num, den int) bool { return g.R.Intn(den) < num }

func (g *Gen) pick(n int) int { return g.R.Intn(n) }

func (g *Gen) fresh(prefix string) string {
	g.nameN++
	return fmt.Sprintf("%s%d", prefix, g.nameN)
}

func (g *Gen) push(fnTop bool) { g.sc = &gscope{parent: g.sc, fnTop: fnTop} }
func (g *Gen) pop()            { g.sc = g.sc.parent }

func (g *Gen) declare(v *gvar) *gvar {
	v.level = g.level
	g.sc.vars = append(g.sc.vars, v)
	return v
}

// visible returns the variables that may be referenced here: own function's, the directly enclosing
// function's (depth-1 capture) and globals. Deeper captures are exercised by C02 only.
func (g *Gen) visible(pred func(*gvar) bool) []*gvar {
	var res []*gvar
	seen := map[string]bool{}
	for s := g.sc; s != nil; s = s.parent {
		for i := len(s.vars) - 1; i >= 0; i-- {
			v := s.vars[i]
			if seen[v.name] {
				continue
			}
			seen[v.name] = true
			if !(v.level == g.level || v.level == 0 || v.level == g.level-1) {
				continue
			}
			if pred == nil || pred(v) {
				res = append(res, v)
			}
		}
	}
	return res
}

func (g *Gen) varsOf(t T) []*gvar {
	return g.visible(func(v *gvar) bool { return v.typ == t })
}

func (g *Gen) pickVar(t T) *gvar {
	vs := g.varsOf(t)
	if len(vs) == 0 {
		return nil
	}
	return vs[g.pick(len(vs))]
}

// ---------------------------------------------------------------------------------------
// programs

// Program generates one program with the given size budget.
func (g *Gen) Program(size int) *Program {
	g.budget = size
	g.sc = &gscope{}
	g.level = 0
	p := &Program{}
	// a few globals of assorted types so that expressions have operands
	nInit := 2 + g.pick(4)
	for i := 0; i < nInit; i++ {
		p.Stmts = append(p.Stmts, g.declStmt(g.randType()))
	}
	nFuncs := g.pick(3)
	if g.Mix == MixClosure || g.Mix == MixControl {
		nFuncs = 1 + g.pick(3)
	}
	for i := 0; i < nFuncs; i++ {
		p.Stmts = append(p.Stmts, g.funcDecl())
	}
	if g.chance(1, 4) {
		p.Stmts = append(p.Stmts, g.recursionDecls()...)
	}
	if g.chance(1, 5) {
		p.Stmts = append(p.Stmts, g.wrapperDecls()...)
	}
	n := 2 + g.pick(6)
	for i := 0; i < n && g.budget > 0; i++ {
		p.Stmts = append(p.Stmts, g.stmts()...)
	}
	// final observation: print and return the state
	obs := g.observe()
	if g.chance(1, 2) {
		p.Stmts = append(p.Stmts, &ExprStmt{X: &Call{F: &Ident{Name: "print"}, Args: obs}})
	}
	switch g.pick(3) {
	case 0:
		p.Stmts = append(p.Stmts, &ExprStmt{X: &ListLit{Items: obs}})
	case 1:
		p.Stmts = append(p.Stmts, &ExprStmt{X: g.expr(tAny, 2)})
	}
	return p
}

func (g *Gen) observe() []Expr {
	var res []Expr
	for _, v := range g.visible(func(v *gvar) bool { return v.typ != tFunc }) {
		res = append(res, &Ident{Name: v.name})
		if len(res) >= 6 {
			break
		}
	}
	if len(res) == 0 {
		res = append(res, &IntLit{V: 0})
	}
	return res
}

func (g *Gen) randType() T {
	switch g.pick(10) {
	case 0, 1, 2:
		return tInt
	case 3:
		return tFloat
	case 4, 5:
		return tStr
	case 6:
		return tBool
	case 7:
		return tListInt
	case 8:
		if g.chance(1, 2) {
			return tListStr
		}
		return tMap
	default:
		if g.chance(1, 3) {
			return tSet
		}
		return tListAny
	}
}

// shadowName picks the name of a visible variable that is not declared in the current scope, so that
// a new declaration shadows it (inside functions only: block variables of the main program are globals,
// where vm.Get by name would be ambiguous for the final-state comparison).
func (g *Gen) shadowName() string {
	if g.level < 1 || !g.chance(1, 4) {
		return ""
	}
	mine := map[string]bool{}
	for _, v := range g.sc.vars {
		mine[v.name] = true
	}
	var cands []string
	for _, v := range g.visible(func(v *gvar) bool { return v.typ != tFunc }) {
		if !mine[v.name] && !g.generating[v.name] {
			cands = append(cands, v.name)
		}
	}
	// parameters and the function's own name live in the function's top scope; a redeclaration in the
	// first body scope shadows them legally, so no further restriction is needed
	if len(cands) == 0 {
		return ""
	}
	g.feat("shadowing")
	return cands[g.pick(len(cands))]
}

func (g *Gen) declStmt(t T) Stmt {
	name := g.shadowName()
	if name == "" {
		name = g.fresh("v")
	}
	x := g.expr(t, 2)
	kind := ":="
	ro := false
	switch g.pick(8) {
	case 0:
		kind = "var"
	case 1:
		kind = "const"
		ro = true
	}
	g.feat("decl:" + kind)
	g.declare(&gvar{name: name, typ: t, ro: ro, isConst: kind == "const"})
	return &VarDecl{Kind: kind, Name: name, X: x}
}

// ---------------------------------------------------------------------------------------
// functions

func (g *Gen) funcDecl() Stmt {
	f, _ := g.funcLit(g.fresh("f"), true)
	g.feat("funcdecl")
	return &FuncDecl{F: f}
}

// funcLit generates a function; when name != "" it is declared (named) in the current scope.
func (g *Gen) funcLit(name string, declare bool) (*FuncLit, *gfunc) {
	np := g.pick(4)
	gf := &gfunc{name: name, level: g.level}
	fl := &FuncLit{Name: name}
	ndef := 0
	if np > 0 && g.chance(1, 3) {
		ndef = 1 + g.pick(np)
	}
	ptypes := make([]T, np)
	for i := range ptypes {
		switch g.pick(6) {
		case 0, 1, 2:
			ptypes[i] = tInt
		case 3:
			ptypes[i] = tStr
		case 4:
			ptypes[i] = tFloat // defaults such as 2.0 must stay floats (division, type())
		default:
			ptypes[i] = tListInt
		}
		if i >= np-ndef && ptypes[i] == tListInt {
			ptypes[i] = tInt // defaults are literals of int/float/string/bool
		}
	}
	gf.params = ptypes
	gf.nreq = np - ndef
	// return type
	switch g.pick(6) {
	case 0, 1, 2:
		gf.ret = tInt
	case 3:
		gf.ret = tStr
	case 4:
		gf.ret = tListInt
	default:
		gf.ret = tBool
	}
	var fv *gvar
	if declare && name != "" {
		fv = g.declare(&gvar{name: name, typ: tFunc, ro: true, fn: gf})
		g.funcs = append(g.funcs, gf)
	}
	_ = fv
	// body
	if name != "" {
		g.generating[name] = true
		defer delete(g.generating, name)
	}
	savedLoops, savedTern := g.loops, g.inTern
	g.loops = 0
	g.level++
	g.push(true)
	for i, t := range ptypes {
		pn := g.fresh("p")
		p := Param{Name: pn}
		if i >= np-ndef {
			p.Default = g.literal(t)
			g.feat("default-param")
		}
		fl.Params = append(fl.Params, p)
		g.declare(&gvar{name: pn, typ: t})
	}
	if name != "" && !declare {
		// named function literal used as an expression: its own name is visible inside
		g.declare(&gvar{name: name, typ: tFunc, ro: true, fn: gf})
	}
	g.push(false)
	n := 1 + g.pick(4)
	for i := 0; i < n && g.budget > 0; i++ {
		fl.Body = append(fl.Body, g.stmts()...)
	}
	// result
	if g.chance(3, 4) {
		fl.Body = append(fl.Body, &Return{X: g.expr(gf.ret, 2)})
		g.feat("return")
	} else {
		fl.Body = append(fl.Body, &ExprStmt{X: g.expr(gf.ret, 2)}) // implicit return of the last expression
		g.feat("implicit-return")
	}
	g.pop()
	g.pop()
	g.level--
	g.loops, g.inTern = savedLoops, savedTern
	return fl, gf
}

func (g *Gen) literal(t T) Expr {
	switch t {
	case tInt:
		return g.intLit()
	case tFloat:
		return &FloatLit{V: float64(g.pick(40)) / 4}
	case tStr:
		return g.strLit()
	case tBool:
		return &BoolLit{V: g.chance(1, 2)}
	}
	return &IntLit{V: int64(g.pick(5))}
}

func (g *Gen) intLit() Expr {
	v := int64(g.pick(12))
	switch g.pick(12) {
	case 0:
		v = int64(g.pick(1000))
	case 1:
		v = 1 << uint(20+g.pick(42))
	case 2:
		v = 9223372036854775807 - int64(g.pick(3))
	}
	form := 0
	switch g.pick(10) {
	case 0:
		form = 1
	case 1:
		form = 2
	}
	if g.inTmpl {
		form = 0
	}
	g.feat(fmt.Sprintf("intlit:%d", form))
	return &IntLit{V: v, Form: form}
}

var strPool = []string{"", "a", "b", "ab", "hello", "x y", "é", "日本", "a\nb", "q\"uote", "tab\t", "back\\slash", "{brace}", "'sq'", "z", "0", "😀!"}

func (g *Gen) strLit() Expr {
	s := strPool[g.pick(len(strPool))]
	if g.inTmpl {
		// inside a template expression only plain text without escapes or quotes
		s = []string{"a", "b", "ab", "z"}[g.pick(4)]
		return &StrLit{V: s}
	}
	raw := g.chance(1, 5)
	if raw {
		g.feat("rawstring")
	}
	return &StrLit{V: s, Raw: raw}
}

// ---------------------------------------------------------------------------------------
// statements

// stmts generates one statement (sometimes preceded by a helper declaration it needs).
func (g *Gen) stmts() []Stmt {
	g.pending = nil
	s := g.stmt()
	pre := g.pending
	g.pending = nil
	return append(pre, s)
}

func (g *Gen) stmt() Stmt {
	g.budget -= 2
	w := []int{12, 14, 8, 6, 8, 8, 10, 6, 8, 4, 3, 4, 3, 3, 3} // weights per kind below
	switch g.Mix {
	case MixControl:
		w = []int{8, 10, 6, 4, 14, 10, 18, 6, 8, 4, 6, 4, 6, 3, 3}
	case MixData:
		w = []int{12, 12, 8, 10, 6, 4, 8, 12, 6, 6, 2, 8, 2, 3, 4}
	case MixClosure:
		w = []int{10, 10, 6, 4, 6, 4, 10, 4, 14, 10, 4, 4, 4, 6, 3}
	}
	total := 0
	for _, x := range w {
		total += x
	}
	k := g.pick(total)
	kind := 0
	for i, x := range w {
		if k < x {
			kind = i
			break
		}
		k -= x
	}
	if g.budget <= 0 {
		kind = 1
	}
	switch kind {
	case 0:
		return g.declStmt(g.randType())
	case 1:
		return g.assignStmt()
	case 2:
		return g.compoundStmt()
	case 3:
		return g.indexAssignStmt()
	case 4:
		return g.ifStmt()
	case 5:
		return g.switchStmt()
	case 6:
		return g.forStmt()
	case 7:
		return g.multiStmt()
	case 8:
		return g.callStmt()
	case 9:
		return g.closureStmt()
	case 10:
		if s := g.controlStmt(); s != nil {
			return s
		}
		return g.assignStmt()
	case 11:
		return g.printStmt()
	case 12:
		if s := g.deferStmt(); s != nil {
			return s
		}
		return g.printStmt()
	case 13:
		return g.tryStmt()
	default:
		if g.level == 0 || g.chance(1, 2) {
			return g.nestedFuncStmt()
		}
		return g.printStmt()
	}
}

func (g *Gen) assignable(t T) *gvar {
	vs := g.visible(func(v *gvar) bool { return v.typ == t && !v.ro })
	if len(vs) == 0 {
		return nil
	}
	return vs[g.pick(len(vs))]
}

func (g *Gen) anyAssignable() *gvar {
	vs := g.visible(func(v *gvar) bool { return !v.ro && v.typ != tFunc })
	if len(vs) == 0 {
		return nil
	}
	return vs[g.pick(len(vs))]
}

func (g *Gen) assignStmt() Stmt {
	v := g.anyAssignable()
	if v == nil {
		return g.declStmt(g.randType())
	}
	g.feat("assign")
	return &Assign{Target: &Ident{Name: v.name}, Op: "=", X: g.expr(v.typ, 3)}
}

func (g *Gen) compoundStmt() Stmt {
	if g.chance(1, 3) {
		if v := g.assignable(tInt); v != nil {
			op := "++"
			if g.chance(1, 2) {
				op = "--"
			}
			g.feat("incdec")
			return &IncDec{Name: v.name, Op: op}
		}
	}
	t := []T{tInt, tInt, tFloat, tStr, tListInt}[g.pick(5)]
	v := g.assignable(t)
	if v == nil {
		return g.assignStmt()
	}
	ops := []string{"+=", "-=", "*=", "/="}
	op := ops[g.pick(4)]
	var x Expr
	switch t {
	case tStr, tListInt:
		op = "+="
		x = g.expr(t, 2)
	case tInt:
		x = g.expr(tInt, 2)
		if op == "/=" {
			x = g.nonZeroInt()
		}
	default:
		x = g.expr(tFloat, 2)
	}
	g.feat("compound:" + op)
	return &Assign{Target: &Ident{Name: v.name}, Op: op, X: x}
}

func (g *Gen) nonZeroInt() Expr {
	if g.failHere() {
		g.feat("fail:divzero")
		return &IntLit{V: 0}
	}
	return &IntLit{V: int64(1 + g.pick(7))}
}

// failHere decides whether a deliberately failing operation is placed at this failure site.
func (g *Gen) failHere() bool {
	if g.NoFail {
		return false
	}
	return g.R.Intn(1000) < g.errRate
}

func (g *Gen) indexAssignStmt() Stmt {
	// target container and index are trivial expressions (identifier / literal): the statement leaves
	// the relative order of target and value open, and compound targets are evaluated twice
	switch g.pick(3) {
	case 0:
		if v := g.pickVar(tMap); v != nil {
			key := []string{"a", "b", "k", "zz"}[g.pick(4)]
			op := "="
			if g.chance(1, 3) {
				op = []string{"+=", "-=", "*="}[g.pick(3)]
				key = "a" // may be missing: key error
				g.feat("map-compound-index")
			}
			if g.chance(1, 3) && isPlainIdent(key) {
				g.feat("attr-assign")
				return &Assign{Target: &Attr{X: &Ident{Name: v.name}, Name: key}, Op: op, X: g.assignValue(op)}
			}
			g.feat("map-index-assign")
			return &Assign{Target: &Index{X: &Ident{Name: v.name}, I: &StrLit{V: key}}, Op: op, X: g.assignValue(op)}
		}
	}
	v := g.pickVar(tListInt)
	if v == nil {
		return g.assignStmt()
	}
	idx := g.smallIndex()
	op := "="
	if g.chance(1, 3) {
		op = []string{"+=", "-=", "*="}[g.pick(3)]
	}
	g.feat("list-index-assign:" + op)
	return &Assign{Target: &Index{X: &Ident{Name: v.name}, I: idx}, Op: op, X: g.assignValue(op)}
}

// assignValue: the value of an index/attribute assignment. For compound operators the target is
// evaluated twice by the implementation (recorded finding), so the value must not be able to rebind or
// mutate the target: no calls, only literals, identifiers and arithmetic.
func (g *Gen) assignValue(op string) Expr {
	if op == "=" {
		return g.expr(tInt, 2)
	}
	return g.pureInt(2)
}

func (g *Gen) pureInt(d int) Expr {
	if d > 0 && g.chance(1, 2) {
		return &Binary{Op: []string{"+", "-", "*"}[g.pick(3)], L: g.pureInt(d - 1), R: g.pureInt(d - 1)}
	}
	if v := g.pickVar(tInt); v != nil && g.chance(1, 2) {
		return &Ident{Name: v.name}
	}
	return &IntLit{V: int64(g.pick(9))}
}

// smallIndex is a literal index that is usually in range for the short lists the generator builds.
func (g *Gen) smallIndex() Expr {
	if g.failHere() {
		g.feat("fail:index")
		return &IntLit{V: int64(7 + g.pick(3))}
	}
	switch g.pick(4) {
	case 0:
		return &Prefix{Op: "-", X: &IntLit{V: 1}}
	default:
		return &IntLit{V: 0}
	}
}

func (g *Gen) blockOf(n int) []Stmt {
	g.push(false)
	defer g.pop()
	var res []Stmt
	for i := 0; i < n && g.budget > 0; i++ {
		res = append(res, g.stmts()...)
	}
	return res
}

func (g *Gen) ifStmt() Stmt {
	x := &IfExpr{Cond: g.cond(), Then: g.blockOf(1 + g.pick(3))}
	g.feat("if")
	cur := x
	for g.chance(1, 3) && g.budget > 0 {
		ei := &IfExpr{Cond: g.cond(), Then: g.blockOf(1 + g.pick(2))}
		cur.ElseIf = ei
		cur = ei
		g.feat("else-if")
	}
	if g.chance(1, 2) {
		cur.HasElse = true
		cur.Else = g.blockOf(1 + g.pick(2))
		g.feat("else")
	}
	// branches may end in a bare value (the value of the if expression, discarded when the if is used as a
	// statement): a literal, a name, or a ternary whose last operand is a literal
	for b := x; b != nil; b = b.ElseIf {
		if g.chance(1, 4) {
			b.Then = append(b.Then, g.trailValue())
		}
		if b.HasElse && g.chance(1, 3) {
			b.Else = append(b.Else, g.trailValue())
		}
	}
	return &ExprStmt{X: x}
}

// trailValue is an expression statement that only produces a value.
func (g *Gen) trailValue() Stmt {
	g.feat("branch-ends-in-bare-value")
	lit := func() Expr {
		switch g.pick(4) {
		case 0:
			return &IntLit{V: int64(g.pick(100))}
		case 1:
			return &BoolLit{V: g.chance(1, 2)}
		default:
			return &StrLit{V: []string{"text", "", "a b", "else"}[g.pick(4)]}
		}
	}
	switch g.pick(5) {
	case 0:
		if vs := g.visible(func(v *gvar) bool { return v.typ != tFunc }); len(vs) > 0 {
			return &ExprStmt{X: &Ident{Name: vs[g.pick(len(vs))].name}}
		}
	case 1:
		if !g.inTern {
			g.feat("ternary-statement")
			g.inTern = true
			c := g.expr(tBool, 1)
			g.inTern = false
			return &ExprStmt{X: &Ternary{C: c, A: lit(), B: lit()}}
		}
	}
	return &ExprStmt{X: lit()}
}

func (g *Gen) cond() Expr {
	if g.chance(1, 6) {
		return g.expr(tAny, 2) // truthiness of arbitrary values
	}
	return g.expr(tBool, 3)
}

func (g *Gen) switchExpr(valueOf func() []Stmt) *SwitchExpr {
	t := []T{tInt, tInt, tStr, tBool}[g.pick(4)]
	sw := &SwitchExpr{Subject: g.expr(t, 2)}
	n := 1 + g.pick(4)
	hasDefault := false
	for i := 0; i < n; i++ {
		c := SwitchCase{}
		if !hasDefault && g.chance(1, 4) {
			c.Default = true
			hasDefault = true
			g.feat("switch-default")
		} else {
			nv := 1 + g.pick(2)
			for j := 0; j < nv; j++ {
				if g.chance(3, 4) {
					c.Values = append(c.Values, g.literal(t))
				} else {
					c.Values = append(c.Values, g.expr(t, 1))
				}
			}
			if nv > 1 {
				g.feat("switch-multi-value")
			}
		}
		if g.chance(1, 8) {
			g.feat("switch-empty-case")
		} else {
			c.Body = valueOf()
		}
		sw.Cases = append(sw.Cases, c)
	}
	g.feat("switch")
	return sw
}

func (g *Gen) switchStmt() Stmt {
	return &ExprStmt{X: g.switchExpr(func() []Stmt { return g.blockOf(1 + g.pick(2)) })}
}

func (g *Gen) forStmt() Stmt {
	f := &For{}
	g.push(false)
	defer g.pop()
	kinds := []string{"three", "three", "cond", "inf", "range0", "range1", "range2", "range2", "in"}
	f.Kind = kinds[g.pick(len(kinds))]
	n := int64(g.pick(5))
	if g.chance(1, 10) {
		n = int64(5 + g.pick(20))
	}
	var pre []Stmt
	switch f.Kind {
	case "three":
		i := g.fresh("i")
		f.Init = &VarDecl{Kind: ":=", Name: i, X: &IntLit{V: 0}}
		if g.chance(1, 10) {
			// the init statement is an expression (its value has to be discarded); the counter is declared
			// before the loop
			pre = append(pre, &VarDecl{Kind: ":=", Name: i, X: &IntLit{V: 0}})
			g.sc.parent.vars = append(g.sc.parent.vars, &gvar{name: i, typ: tInt, ro: true, level: g.level})
			f.Init = &ExprStmt{X: &Call{F: &Ident{Name: "len"}, Args: []Expr{&ListLit{Items: []Expr{&Ident{Name: i}}}}}}
			g.feat("for-init-expression")
		}
		f.Cond = &Binary{Op: "<", L: &Ident{Name: i}, R: &IntLit{V: n}}
		if g.chance(1, 5) {
			f.Post = &Assign{Target: &Ident{Name: i}, Op: "+=", X: &IntLit{V: int64(1 + g.pick(2))}}
		} else if g.chance(1, 5) {
			f.Post = &Assign{Target: &Ident{Name: i}, Op: "=", X: &Binary{Op: "+", L: &Ident{Name: i}, R: &IntLit{V: 1}}}
		} else if g.chance(1, 6) {
			// the post statement is an expression (its value has to be discarded); the counter advances at
			// the top of the body, before any continue
			f.Post = &ExprStmt{X: &Call{F: &Ident{Name: "len"}, Args: []Expr{&ListLit{Items: []Expr{&Ident{Name: i}}}}}}
			f.Body = append(f.Body, &IncDec{Name: i, Op: "++"})
			g.feat("for-post-expression")
		} else {
			f.Post = &IncDec{Name: i, Op: "++"}
		}
		if _, isDecl := f.Init.(*VarDecl); isDecl && g.chance(1, 8) {
			// no init clause: `for ; cond; post`; the counter is declared before the loop
			pre = append(pre, &VarDecl{Kind: ":=", Name: i, X: &IntLit{V: 0}})
			g.sc.parent.vars = append(g.sc.parent.vars, &gvar{name: i, typ: tInt, ro: true, level: g.level})
			f.Init = nil
			g.feat("for-no-init")
		}
		if g.chance(1, 8) {
			// no condition: `for init; ; ; post` (the form the parser accepts); the body leaves with break
			f.Body = append([]Stmt{&ExprStmt{X: &IfExpr{Cond: &Binary{Op: ">=", L: &Ident{Name: i}, R: f.Cond.(*Binary).R}, Then: []Stmt{&Break{}}}}}, f.Body...)
			f.Cond = nil
			g.feat("for-no-condition")
		}
		if _, isDecl := f.Init.(*VarDecl); isDecl {
			g.declare(&gvar{name: i, typ: tInt, ro: true})
		}
	case "cond", "inf":
		c := g.fresh("c")
		pre = append(pre, &VarDecl{Kind: ":=", Name: c, X: &IntLit{V: 0}})
		// the counter is declared in the enclosing scope
		g.sc.parent.vars = append(g.sc.parent.vars, &gvar{name: c, typ: tInt, ro: true, level: g.level})
		if f.Kind == "cond" {
			f.Cond = &Binary{Op: "<", L: &Ident{Name: c}, R: &IntLit{V: n}}
			f.Body = append(f.Body, &IncDec{Name: c, Op: "++"})
		} else {
			f.Body = append(f.Body, &IncDec{Name: c, Op: "++"})
			f.Body = append(f.Body, &ExprStmt{X: &IfExpr{Cond: &Binary{Op: ">", L: &Ident{Name: c}, R: &IntLit{V: n}}, Then: []Stmt{&Break{}}}})
		}
	default:
		// iterable: list, string, int, map (keys sorted)
		var elemT, keyT T = tInt, tInt
		switch g.pick(6) {
		case 0, 1:
			f.Iter = g.iterExpr(tListInt)
		case 2:
			f.Iter = g.iterExpr(tStr)
			elemT = tStr
		case 3:
			f.Iter = &IntLit{V: n}
			if g.chance(1, 3) {
				// ranging over a negative int: |n| iterations, positions count up, values count down
				f.Iter = &Prefix{Op: "-", X: &IntLit{V: n}}
				g.feat("range-negative-int")
			}
		case 4:
			f.Iter = g.iterExpr(tListStr)
			elemT = tStr
		default:
			if f.Kind == "in" {
				f.Iter = g.iterExpr(tListInt) // `for v in <map>` is not generated
			} else {
				f.Iter = g.iterExpr(tMap)
				keyT = tStr
			}
		}
		switch f.Kind {
		case "range1":
			f.K = g.fresh("k")
			g.declare(&gvar{name: f.K, typ: keyT, ro: true})
		case "range2":
			f.K = g.fresh("k")
			f.V = g.fresh("e")
			g.declare(&gvar{name: f.K, typ: keyT, ro: true})
			g.declare(&gvar{name: f.V, typ: elemT, ro: true})
		case "in":
			f.V = g.fresh("e")
			g.declare(&gvar{name: f.V, typ: elemT, ro: true})
		}
	}
	g.feat("for:" + f.Kind)
	g.loops++
	savedPending := g.pending
	f.Body = append(f.Body, g.blockOf(1+g.pick(3))...)
	g.pending = savedPending
	g.loops--
	// the counter declaration (if any) precedes the loop statement
	g.pending = append(pre, g.pending...)
	return f
}

// iterExpr is an iterable whose identity cannot be mutated by the loop body: a literal, or an
// identifier that is frozen (read-only) for the rest of the enclosing scope.
func (g *Gen) iterExpr(t T) Expr {
	if v := g.pickVar(t); v != nil && g.chance(1, 2) {
		v.ro = true // frozen from here on (conservative)
		return &Ident{Name: v.name}
	}
	return g.containerLit(t)
}

func (g *Gen) containerLit(t T) Expr {
	switch t {
	case tListInt:
		n := g.pick(4)
		l := &ListLit{}
		for i := 0; i < n; i++ {
			l.Items = append(l.Items, g.expr(tInt, 1))
		}
		return l
	case tListStr:
		n := g.pick(4)
		l := &ListLit{}
		for i := 0; i < n; i++ {
			l.Items = append(l.Items, g.strLit())
		}
		return l
	case tStr:
		return g.strLit()
	case tMap:
		n := g.pick(4)
		m := &MapLit{}
		keys := []string{"a", "b", "k", "zz", "c"}
		used := map[string]bool{}
		for i := 0; i < n; i++ {
			k := keys[g.pick(len(keys))]
			if used[k] {
				continue
			}
			used[k] = true
			m.Keys = append(m.Keys, k)
			m.Vals = append(m.Vals, g.expr(tInt, 1))
		}
		return m
	case tSet:
		n := 1 + g.pick(3)
		s := &SetLit{}
		for i := 0; i < n; i++ {
			s.Items = append(s.Items, &IntLit{V: int64(g.pick(4))})
		}
		return s
	}
	return &ListLit{}
}

func (g *Gen) multiStmt() Stmt {
	n := 2 + g.pick(2)
	var names []string
	decl := g.chance(2, 3)
	var src Expr
	elemT := tInt
	switch g.pick(3) {
	case 0:
		l := &ListLit{}
		for i := 0; i < n; i++ {
			l.Items = append(l.Items, g.expr(tInt, 1))
		}
		if g.failHere() {
			l.Items = l.Items[1:]
			g.feat("fail:unpack")
		}
		src = l
	case 1:
		s := []string{"ab", "xyz", "é日", "abc"}[g.pick(4)]
		n = len([]rune(s))
		src = &StrLit{V: s}
		elemT = tStr
	default:
		l := &ListLit{}
		for i := 0; i < n; i++ {
			l.Items = append(l.Items, g.strLit())
		}
		src = l
		elemT = tStr
	}
	if decl {
		// sometimes the declared names shadow int variables of an enclosing scope and the right-hand side
		// reads exactly those variables (`lo, hi := [hi, lo + 1]`): the names must not be in scope yet
		// while the right-hand side is evaluated
		if g.level >= 1 && g.chance(1, 3) {
			mine := map[string]bool{}
			for _, v := range g.sc.vars {
				mine[v.name] = true
			}
			var cands []string
			for _, v := range g.visible(func(v *gvar) bool { return v.typ == tInt }) {
				if !mine[v.name] && !g.generating[v.name] {
					cands = append(cands, v.name)
				}
			}
			if len(cands) >= n {
				first := g.pick(len(cands))
				l := &ListLit{}
				for i := 0; i < n; i++ {
					names = append(names, cands[(first+i)%len(cands)])
				}
				for i := 0; i < n; i++ {
					var it Expr = &Ident{Name: names[(i+1)%n]}
					if g.chance(1, 2) {
						it = &Binary{Op: "+", L: it, R: &IntLit{V: int64(1 + g.pick(9))}}
					}
					l.Items = append(l.Items, it)
				}
				g.feat("shadowing")
				g.feat("multi-decl-shadowing-own-rhs")
				g.feat("multi-decl")
				st := &MultiDecl{Names: names, X: l, Decl: true}
				for _, nm := range names {
					g.declare(&gvar{name: nm, typ: tInt})
				}
				return st
			}
		}
		for i := 0; i < n; i++ {
			nm := g.fresh("m")
			names = append(names, nm)
		}
		g.feat("multi-decl")
		st := &MultiDecl{Names: names, X: src, Decl: true}
		for _, nm := range names {
			g.declare(&gvar{name: nm, typ: elemT})
		}
		return st
	}
	used := map[string]bool{}
	for i := 0; i < n; i++ {
		v := g.assignable(elemT)
		if v == nil || used[v.name] {
			return g.assignStmt()
		}
		used[v.name] = true
		names = append(names, v.name)
	}
	g.feat("multi-assign")
	return &MultiDecl{Names: names, X: src}
}

func (g *Gen) callStmt() Stmt {
	if g.chance(1, 6) {
		// the call sits inside a template string that is itself only an expression statement: its
		// interpolated expressions are still evaluated, with their side effects and failures
		inner := g.templEffectCall()
		g.feat("template-stmt-with-effects")
		parts := []TemplPart{{Text: "t "}, {X: inner}}
		if g.chance(1, 2) {
			parts = append(parts, TemplPart{Text: " and "}, TemplPart{X: g.templExpr(tInt, 1)})
		}
		return &ExprStmt{X: &TemplateLit{Parts: parts}}
	}
	return g.callStmtPlain()
}

// templEffectCall: a call with a visible effect whose text is legal inside a template string (no braces,
// no quotes that would need escaping): append to a list variable, a finished user function, or print.
func (g *Gen) templEffectCall() Expr {
	arg := func(t T) Expr {
		switch t {
		case tStr:
			return g.templExpr(tStr, 1)
		case tListInt:
			return &ListLit{Items: []Expr{g.templExpr(tInt, 1), g.templExpr(tInt, 0)}}
		case tFloat:
			return &FloatLit{V: float64(g.pick(9)) + 0.5}
		}
		return g.templExpr(tInt, 1)
	}
	switch g.pick(3) {
	case 0:
		if v := g.visible(func(v *gvar) bool { return v.typ == tListInt && !v.ro }); len(v) > 0 {
			return &MethodCall{X: &Ident{Name: v[g.pick(len(v))].name}, Name: "append", Args: []Expr{arg(tInt)}}
		}
	case 1:
		var ok []*gvar
		for _, f := range g.visible(func(v *gvar) bool { return v.typ == tFunc && v.fn != nil && !v.fn.recursive }) {
			if !g.generating[f.name] {
				ok = append(ok, f)
			}
		}
		if len(ok) > 0 {
			f := ok[g.pick(len(ok))]
			var args []Expr
			for i := 0; i < f.fn.nreq; i++ {
				args = append(args, arg(f.fn.params[i]))
			}
			return &Call{F: &Ident{Name: f.name}, Args: args}
		}
	}
	return &Call{F: &Ident{Name: "print"}, Args: []Expr{arg(tInt), arg(tStr)}}
}

func (g *Gen) callStmtPlain() Stmt {
	switch g.pick(4) {
	case 0:
		if v := g.visible(func(v *gvar) bool { return v.typ == tListInt && !v.ro }); len(v) > 0 {
			g.feat("append-stmt")
			return &ExprStmt{X: &MethodCall{X: &Ident{Name: v[g.pick(len(v))].name}, Name: "append", Args: []Expr{g.expr(tInt, 2)}}}
		}
	}
	if c := g.userCall(tAny, 2); c != nil {
		g.feat("call-stmt")
		return &ExprStmt{X: c}
	}
	return g.printStmt()
}

func (g *Gen) printStmt() Stmt {
	n := 1 + g.pick(3)
	var args []Expr
	for i := 0; i < n; i++ {
		args = append(args, g.expr(tAny, 2))
	}
	g.feat("print")
	return &ExprStmt{X: &Call{F: &Ident{Name: "print"}, Args: args}}
}

func (g *Gen) controlStmt() Stmt {
	if g.loops > 0 && g.chance(2, 3) {
		var c Stmt = &Break{}
		name := "break"
		if g.chance(1, 2) {
			c = &Continue{}
			name = "continue"
		}
		g.feat(name)
		// usually guarded, so that the loop body still runs
		if g.chance(4, 5) {
			return &ExprStmt{X: &IfExpr{Cond: g.cond(), Then: []Stmt{c}}}
		}
		return c
	}
	if g.level > 0 {
		g.feat("early-return")
		r := &Return{X: g.expr(tAny, 2)}
		if g.chance(1, 6) {
			r.X = nil
		}
		return &ExprStmt{X: &IfExpr{Cond: g.cond(), Then: []Stmt{r}}}
	}
	return nil
}

func (g *Gen) deferStmt() Stmt {
	if g.level == 0 || g.noDefer {
		return nil
	}
	g.feat("defer")
	switch g.pick(4) {
	case 3:
		// a deferred closure that registers a deferred call of its own, between two other deferred calls of
		// the same function: each activation has its own list, all run in reverse order of registration
		g.feat("defer-inside-deferred-closure")
		k := int64(g.pick(90))
		pr := func(tag string) *Call {
			return &Call{F: &Ident{Name: "print"}, Args: []Expr{&StrLit{V: tag}, &IntLit{V: k}}}
		}
		inner := &FuncLit{Body: []Stmt{&Defer{Call: pr("inner deferred")}, &ExprStmt{X: pr("deferred body")}}}
		if g.chance(1, 2) {
			inner.Body = append([]Stmt{&Defer{Call: pr("inner first")}}, inner.Body...)
		}
		cluster := []Stmt{&Defer{Call: pr("first registered")}, &Defer{Call: &Call{F: inner}}}
		if g.chance(1, 2) {
			cluster = append(cluster, &Defer{Call: pr("last registered")})
		}
		return &ExprStmt{X: &IfExpr{Cond: &BoolLit{V: true}, Then: cluster}}
	case 0:
		return &Defer{Call: &Call{F: &Ident{Name: "print"}, Args: []Expr{&StrLit{V: "deferred"}, g.expr(tAny, 1)}}}
	case 1:
		// deferred closure mutating a global
		if v := g.visible(func(v *gvar) bool { return v.level == 0 && v.typ == tInt && !v.ro }); len(v) > 0 {
			gv := v[g.pick(len(v))]
			fn := &FuncLit{Body: []Stmt{&Assign{Target: &Ident{Name: gv.name}, Op: "+=", X: &IntLit{V: int64(1 + g.pick(3))}}}}
			return &Defer{Call: &Call{F: fn}}
		}
	}
	if c := g.userCall(tAny, 1); c != nil {
		if call, ok := c.(*Call); ok {
			return &Defer{Call: call}
		}
	}
	return &Defer{Call: &Call{F: &Ident{Name: "print"}, Args: []Expr{&StrLit{V: "d"}}}}
}

func (g *Gen) tryStmt() Stmt {
	g.feat("try")
	name := g.fresh("t")
	var body []Stmt
	// a function that may fail
	saved := g.errRate
	g.errRate = 300
	g.level++
	g.push(true)
	g.push(false)
	savedLoops := g.loops
	g.loops = 0
	body = append(body, g.stmts()...)
	if g.chance(1, 2) {
		body = append(body, &ExprStmt{X: &Call{F: &Ident{Name: "error"}, Args: []Expr{&StrLit{V: "boom " + name}}}})
		g.feat("raise")
	}
	body = append(body, &Return{X: g.expr(tInt, 2)})
	g.loops = savedLoops
	g.pop()
	g.pop()
	g.level--
	g.errRate = saved
	args := []Expr{&FuncLit{Body: body}}
	switch g.pick(4) {
	case 0:
		args = append(args, &IntLit{V: int64(g.pick(9))})
	case 1:
		// handler with the error as parameter, returning the message (user errors only have known text)
		e := g.fresh("e")
		args = append(args, &FuncLit{Params: []Param{{Name: e}}, Body: []Stmt{&Return{X: &Call{F: &Ident{Name: "type"}, Args: []Expr{&Ident{Name: e}}}}}})
	case 2:
		args = append(args, &FuncLit{Body: []Stmt{&Return{X: &IntLit{V: -1}}}})
	}
	g.declare(&gvar{name: name, typ: tAny})
	return &VarDecl{Kind: ":=", Name: name, X: &Call{F: &Ident{Name: "try"}, Args: args}}
}

func (g *Gen) nestedFuncStmt() Stmt {
	if g.level >= 2 {
		return g.printStmt()
	}
	return g.funcDecl()
}

// closureStmt: build a closure over local state and use it (depth-1 captures and globals).
func (g *Gen) closureStmt() Stmt {
	g.feat("closure")
	name := g.fresh("cl")
	fl, gf := g.funcLit("", false)
	gf.name = name
	g.declare(&gvar{name: name, typ: tFunc, ro: true, fn: gf})
	return &VarDecl{Kind: ":=", Name: name, X: fl}
}

// LoopProgram generates a program that is dominated by one outer loop with the given bound whose body
// is a generated statement block (nested loops, switches, conditionals, break/continue, calls, try):
// the shape used to check that iteration count alone never exhausts VM capacity.
func (g *Gen) LoopProgram(size int, bound int64) *Program {
	g.budget = size
	g.sc = &gscope{}
	g.level = 0
	p := &Program{}
	nInit := 2 + g.pick(3)
	for i := 0; i < nInit; i++ {
		p.Stmts = append(p.Stmts, g.declStmt([]T{tInt, tInt, tStr, tListInt, tBool}[g.pick(5)]))
	}
	if g.chance(1, 2) {
		p.Stmts = append(p.Stmts, g.funcDecl())
	}
	acc := g.fresh("acc")
	p.Stmts = append(p.Stmts, &VarDecl{Kind: ":=", Name: acc, X: &IntLit{V: 0}})
	g.declare(&gvar{name: acc, typ: tInt, ro: true})
	inFunc := g.chance(1, 3)
	var target *[]Stmt = &p.Stmts
	var fl *FuncLit
	if inFunc {
		// the loop runs inside a function (frames, locals, return from inside the loop)
		fl = &FuncLit{Name: g.fresh("run")}
		g.level++
		g.push(true)
		g.push(false)
		target = &fl.Body
	}
	f := &For{}
	g.push(false)
	kinds := []string{"three", "cond", "inf", "range0", "range1", "range2", "in"}
	f.Kind = kinds[g.pick(len(kinds))]
	bump := &Assign{Target: &Ident{Name: acc}, Op: "+=", X: &IntLit{V: 1}}
	var pre []Stmt
	switch f.Kind {
	case "three":
		i := g.fresh("i")
		f.Init = &VarDecl{Kind: ":=", Name: i, X: &IntLit{V: 0}}
		f.Cond = &Binary{Op: "<", L: &Ident{Name: i}, R: &IntLit{V: bound}}
		f.Post = &IncDec{Name: i, Op: "++"}
		g.declare(&gvar{name: i, typ: tInt, ro: true})
	case "cond", "inf":
		c := g.fresh("c")
		pre = append(pre, &VarDecl{Kind: ":=", Name: c, X: &IntLit{V: 0}})
		g.sc.parent.vars = append(g.sc.parent.vars, &gvar{name: c, typ: tInt, ro: true, level: g.level})
		f.Body = append(f.Body, &IncDec{Name: c, Op: "++"})
		if f.Kind == "cond" {
			f.Cond = &Binary{Op: "<", L: &Ident{Name: c}, R: &IntLit{V: bound}}
		} else {
			f.Body = append(f.Body, &ExprStmt{X: &IfExpr{Cond: &Binary{Op: ">", L: &Ident{Name: c}, R: &IntLit{V: bound}}, Then: []Stmt{&Break{}}}})
		}
	default:
		f.Iter = &IntLit{V: bound}
		switch f.Kind {
		case "range1":
			f.K = g.fresh("k")
			g.declare(&gvar{name: f.K, typ: tInt, ro: true})
		case "range2":
			f.K = g.fresh("k")
			f.V = g.fresh("e")
			g.declare(&gvar{name: f.K, typ: tInt, ro: true})
			g.declare(&gvar{name: f.V, typ: tInt, ro: true})
		case "in":
			f.V = g.fresh("e")
			g.declare(&gvar{name: f.V, typ: tInt, ro: true})
		}
	}
	g.feat("for:" + f.Kind)
	f.Body = append(f.Body, bump)
	g.loops++
	savedMix := g.Mix
	g.Mix = MixControl
	g.noDefer = true
	f.Body = append(f.Body, g.blockOf(2+g.pick(4))...)
	g.noDefer = false
	g.Mix = savedMix
	g.loops--
	g.pop()
	*target = append(*target, pre...)
	*target = append(*target, f)
	if inFunc {
		fl.Body = append(fl.Body, &Return{X: &Ident{Name: acc}})
		g.pop()
		g.pop()
		g.level--
		p.Stmts = append(p.Stmts, &FuncDecl{F: fl})
		p.Stmts = append(p.Stmts, &ExprStmt{X: &Call{F: &Ident{Name: fl.Name}}})
	}
	obs := g.observe()
	obs = append(obs, &Ident{Name: acc})
	p.Stmts = append(p.Stmts, &ExprStmt{X: &ListLit{Items: obs}})
	return p
}

// recursionDecls generates top-level recursive functions (direct recursion with a decreasing argument,
// and mutual recursion that relies on top-level function names being usable before their declaration)
// together with a variable holding a result, so that later statements can use it.
func (g *Gen) recursionDecls() []Stmt {
	n := func() Expr { return &Ident{Name: "n"} }
	lit := func(v int64) Expr { return &IntLit{V: v} }
	bin := func(op string, l, r Expr) Expr { return &Binary{Op: op, L: l, R: r} }
	call := func(f string, a ...Expr) Expr { return &Call{F: &Ident{Name: f}, Args: a} }
	ifRet := func(cond Expr, v Expr) Stmt { return &ExprStmt{X: &IfExpr{Cond: cond, Then: []Stmt{&Return{X: v}}}} }
	var out []Stmt
	arg := int64(1 + g.pick(9))
	res := g.fresh("v")
	kinds := 4
	if g.NoForwardRef {
		kinds = 3 // no references to functions declared later (pieces of a REPL session must compile alone)
	}
	switch g.pick(kinds) {
	case 0:
		// factorial / sum style
		f := g.fresh("rec")
		op := []string{"*", "+", "-"}[g.pick(3)]
		out = append(out, &FuncDecl{F: &FuncLit{Name: f, Params: []Param{{Name: "n"}}, Body: []Stmt{
			ifRet(bin("<=", n(), lit(1)), lit(1)),
			&Return{X: bin(op, n(), call(f, bin("-", n(), lit(1))))}}}})
		g.declare(&gvar{name: f, typ: tFunc, ro: true, fn: &gfunc{name: f, params: []T{tInt}, nreq: 1, ret: tInt, recursive: true}})
		out = append(out, &VarDecl{Kind: ":=", Name: res, X: call(f, lit(arg))})
		g.declare(&gvar{name: res, typ: tInt})
		g.feat("recursion")
	case 1:
		// fibonacci style (two recursive calls), default parameter
		f := g.fresh("rec")
		out = append(out, &FuncDecl{F: &FuncLit{Name: f, Params: []Param{{Name: "n"}, {Name: "acc", Default: lit(0)}}, Body: []Stmt{
			ifRet(bin("<", n(), lit(2)), bin("+", n(), &Ident{Name: "acc"})),
			&ExprStmt{X: bin("+", call(f, bin("-", n(), lit(1))), call(f, bin("-", n(), lit(2)), lit(1)))}}}})
		g.declare(&gvar{name: f, typ: tFunc, ro: true, fn: &gfunc{name: f, params: []T{tInt}, nreq: 1, ret: tInt, recursive: true}})
		out = append(out, &VarDecl{Kind: ":=", Name: res, X: call(f, lit(arg%8))})
		g.declare(&gvar{name: res, typ: tInt})
		g.feat("recursion")
	case 2:
		// list-building recursion
		f := g.fresh("rec")
		out = append(out, &FuncDecl{F: &FuncLit{Name: f, Params: []Param{{Name: "n"}}, Body: []Stmt{
			ifRet(bin("<=", n(), lit(0)), &ListLit{}),
			&Return{X: bin("+", call(f, bin("-", n(), lit(1))), &ListLit{Items: []Expr{bin("*", n(), n())}})}}}})
		g.declare(&gvar{name: f, typ: tFunc, ro: true, fn: &gfunc{name: f, params: []T{tInt}, nreq: 1, ret: tListInt, recursive: true}})
		out = append(out, &VarDecl{Kind: ":=", Name: res, X: call(f, lit(arg%6))})
		g.declare(&gvar{name: res, typ: tListInt})
		g.feat("recursion")
	default:
		// mutual recursion: the first function refers to the second before its declaration
		a, b := g.fresh("even"), g.fresh("odd")
		out = append(out, &FuncDecl{F: &FuncLit{Name: a, Params: []Param{{Name: "n"}}, Body: []Stmt{
			ifRet(bin("==", n(), lit(0)), &BoolLit{V: true}),
			&Return{X: call(b, bin("-", n(), lit(1)))}}}})
		out = append(out, &FuncDecl{F: &FuncLit{Name: b, Params: []Param{{Name: "n"}}, Body: []Stmt{
			ifRet(bin("==", n(), lit(0)), &BoolLit{V: false}),
			&Return{X: call(a, bin("-", n(), lit(1)))}}}})
		g.declare(&gvar{name: a, typ: tFunc, ro: true, fn: &gfunc{name: a, params: []T{tInt}, nreq: 1, ret: tBool, recursive: true}})
		g.declare(&gvar{name: b, typ: tFunc, ro: true, fn: &gfunc{name: b, params: []T{tInt}, nreq: 1, ret: tBool, recursive: true}})
		out = append(out, &VarDecl{Kind: ":=", Name: res, X: call(a, lit(arg))})
		g.declare(&gvar{name: res, typ: tBool})
		g.feat("mutual-recursion")
	}
	return out
}

// wrapperDecls generates the wrapper idiom: inside a function a new variable takes the name of a function
// that is visible there (a top-level function, or a parameter) and is initialised with a literal whose body
// calls that name. The literal's name is the binding visible where the literal is written; the new
// variable exists only after its declaration statement.
func (g *Gen) wrapperDecls() []Stmt {
	lit := func(v int64) Expr { return &IntLit{V: v} }
	bin := func(op string, l, r Expr) Expr { return &Binary{Op: op, L: l, R: r} }
	id := func(n string) Expr { return &Ident{Name: n} }
	call := func(f string, a ...Expr) Expr { return &Call{F: &Ident{Name: f}, Args: a} }
	var out []Stmt
	arg := int64(1 + g.pick(9))
	k := int64(1 + g.pick(5))
	res := g.fresh("v")
	deco := g.fresh("deco")
	op := []string{"+", "*", "-"}[g.pick(3)]
	switch g.pick(3) {
	case 0:
		// shadows a top-level function inside another function
		base := g.fresh("base")
		out = append(out, &FuncDecl{F: &FuncLit{Name: base, Params: []Param{{Name: "x"}}, Body: []Stmt{
			&Return{X: bin("+", bin("*", id("x"), lit(2)), lit(k))}}}})
		g.declare(&gvar{name: base, typ: tFunc, ro: true, fn: &gfunc{name: base, params: []T{tInt}, nreq: 1, ret: tInt}})
		out = append(out, &FuncDecl{F: &FuncLit{Name: deco, Params: []Param{{Name: "n"}}, Body: []Stmt{
			&VarDecl{Kind: ":=", Name: base, X: &FuncLit{Params: []Param{{Name: "x"}}, Body: []Stmt{
				&Return{X: bin(op, call(base, id("x")), id("n"))}}}},
			&Return{X: call(base, id("n"))}}}})
	case 1:
		// shadows a parameter, in a nested block
		out = append(out, &FuncDecl{F: &FuncLit{Name: deco, Params: []Param{{Name: "n"}, {Name: "h", Default: nil}}, Body: []Stmt{
			&ExprStmt{X: &IfExpr{Cond: bin(">", id("n"), lit(0)), Then: []Stmt{
				&VarDecl{Kind: ":=", Name: "h", X: &FuncLit{Params: []Param{{Name: "x"}}, Body: []Stmt{
					&Return{X: bin(op, call("h", id("x")), id("n"))}}}},
				&Return{X: call("h", lit(k))}}}},
			&Return{X: call("h", lit(1))}}}})
		out = append(out, &VarDecl{Kind: ":=", Name: res, X: call(deco, lit(arg-3), &FuncLit{Params: []Param{{Name: "x"}}, Body: []Stmt{&Return{X: bin("+", id("x"), lit(3))}}})})
		g.declare(&gvar{name: res, typ: tInt})
		g.feat("wrapper-shadows-parameter")
		return out
	default:
		// shadows a local of the same function from a nested block; the wrapper escapes and is called later
		out = append(out, &FuncDecl{F: &FuncLit{Name: deco, Params: []Param{{Name: "n"}}, Body: []Stmt{
			&VarDecl{Kind: ":=", Name: "w", X: &FuncLit{Params: []Param{{Name: "x"}}, Body: []Stmt{&Return{X: bin("-", id("x"), id("n"))}}}},
			&VarDecl{Kind: ":=", Name: "acc", X: &ListLit{}},
			&For{Kind: "three", Init: &VarDecl{Kind: ":=", Name: "i", X: lit(0)}, Cond: bin("<", id("i"), lit(2)), Post: &IncDec{Name: "i", Op: "++"}, Body: []Stmt{
				&VarDecl{Kind: ":=", Name: "w", X: &FuncLit{Params: []Param{{Name: "x"}}, Body: []Stmt{
					&Return{X: bin(op, call("w", id("x")), id("i"))}}}},
				&ExprStmt{X: &MethodCall{X: id("acc"), Name: "append", Args: []Expr{call("w", lit(k))}}}}},
			&Return{X: bin("+", call("w", lit(k)), call("len", id("acc")))}}}})
	}
	g.declare(&gvar{name: deco, typ: tFunc, ro: true, fn: &gfunc{name: deco, params: []T{tInt}, nreq: 1, ret: tInt}})
	out = append(out, &VarDecl{Kind: ":=", Name: res, X: call(deco, lit(arg))})
	g.declare(&gvar{name: res, typ: tInt})
	g.feat("wrapper-shadows-visible-function")
	return out
}
