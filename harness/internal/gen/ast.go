// Package gen holds the shared engine of the behavioural monitors: the harness's own AST of risor
// programs, a type/scope-directed program generator, a renderer to source text (with explicit
// layout gaps for C20), and a reference interpreter written from the pinned language rules in
// /verif/design/LANGUAGE_RULES.md. Nothing here calls into the code under test.
package gen

// Expr is an expression node.
type Expr interface{ isExpr() }

// Stmt is a statement node.
type Stmt interface{ isStmt() }

type (
	IntLit struct {
		V    int64
		Form int // 0 decimal, 1 hex, 2 octal
	}
	FloatLit struct{ V float64 }
	// StrLit is a plain string ("..." or `...`); Raw selects backticks (only when V has no backtick).
	StrLit struct {
		V   string
		Raw bool
	}
	// TemplateLit is a '...' string with interpolated expressions: Parts are literal texts and
	// expressions, alternating arbitrarily.
	TemplateLit struct{ Parts []TemplPart }
	BoolLit     struct{ V bool }
	NilLit      struct{}
	Ident       struct{ Name string }
	Prefix      struct {
		Op string // "-" or "!"
		X  Expr
	}
	Binary struct {
		Op   string
		L, R Expr
	}
	InExpr struct {
		X, C Expr
		Not  bool
	}
	Ternary struct{ C, A, B Expr }
	Index   struct{ X, I Expr }
	SliceE  struct {
		X      Expr
		Lo, Hi Expr // nil = omitted
	}
	Attr struct {
		X    Expr
		Name string
	}
	MethodCall struct {
		X    Expr
		Name string
		Args []Expr
	}
	Call struct {
		F    Expr
		Args []Expr
	}
	ListLit struct{ Items []Expr }
	MapLit  struct {
		Keys []string
		Vals []Expr
	}
	SetLit  struct{ Items []Expr }
	FuncLit struct {
		Name   string // "" = anonymous
		Params []Param
		Body   []Stmt
	}
	IfExpr struct {
		Cond    Expr
		Then    []Stmt
		Else    []Stmt // nil = no else; ElseIf takes precedence
		ElseIf  *IfExpr
		HasElse bool
	}
	SwitchExpr struct {
		Subject Expr
		Cases   []SwitchCase
	}
	Pipe struct{ Stages []Expr }
	// Paren is an explicit, redundant pair of parentheses kept in the AST so that the renderer
	// reproduces it (the meaning is that of X).
	Paren struct{ X Expr }
)

type TemplPart struct {
	Text string
	X    Expr // nil = literal text
}

type Param struct {
	Name    string
	Default Expr // literal or nil
}

type SwitchCase struct {
	Default bool
	Values  []Expr
	Body    []Stmt // may be empty
}

func (*IntLit) isExpr()      {}
func (*FloatLit) isExpr()    {}
func (*StrLit) isExpr()      {}
func (*TemplateLit) isExpr() {}
func (*BoolLit) isExpr()     {}
func (*NilLit) isExpr()      {}
func (*Ident) isExpr()       {}
func (*Prefix) isExpr()      {}
func (*Binary) isExpr()      {}
func (*InExpr) isExpr()      {}
func (*Ternary) isExpr()     {}
func (*Index) isExpr()       {}
func (*SliceE) isExpr()      {}
func (*Attr) isExpr()        {}
func (*MethodCall) isExpr()  {}
func (*Call) isExpr()        {}
func (*ListLit) isExpr()     {}
func (*MapLit) isExpr()      {}
func (*SetLit) isExpr()      {}
func (*FuncLit) isExpr()     {}
func (*IfExpr) isExpr()      {}
func (*SwitchExpr) isExpr()  {}
func (*Pipe) isExpr()        {}
func (*Paren) isExpr()       {}

type (
	// VarDecl: Kind is "var", ":=" or "const".
	VarDecl struct {
		Kind string
		Name string
		X    Expr
	}
	// MultiDecl: a, b := x  (Decl) or a, b = x.
	MultiDecl struct {
		Names []string
		X     Expr
		Decl  bool
	}
	// Assign: Target is *Ident, *Index or *Attr; Op is "=", "+=", "-=", "*=", "/=".
	Assign struct {
		Target Expr
		Op     string
		X      Expr
	}
	IncDec struct {
		Name string
		Op   string // "++" or "--"
	}
	ExprStmt struct{ X Expr }
	// FuncDecl is a named function declaration used as a statement.
	FuncDecl struct{ F *FuncLit }
	Return   struct{ X Expr } // X may be nil
	Break    struct{}
	Continue struct{}
	// For: Kind is "inf", "cond", "three", "range0" (for range x), "range1" (for k := range x),
	// "range2" (for k, v := range x), "in" (for v in x).
	For struct {
		Kind string
		Init Stmt // three
		Cond Expr // cond, three (may be nil in three)
		Post Stmt // three
		K, V string
		Iter Expr
		Body []Stmt
	}
	Defer struct{ Call Expr } // *Call or *MethodCall
)

func (*VarDecl) isStmt()   {}
func (*MultiDecl) isStmt() {}
func (*Assign) isStmt()    {}
func (*IncDec) isStmt()    {}
func (*ExprStmt) isStmt()  {}
func (*FuncDecl) isStmt()  {}
func (*Return) isStmt()    {}
func (*Break) isStmt()     {}
func (*Continue) isStmt()  {}
func (*For) isStmt()       {}
func (*Defer) isStmt()     {}

// Program is a list of top-level statements.
type Program struct{ Stmts []Stmt }
