package gen

import (
	"fmt"
	"math"
	"sort"
	"strconv"
	"strings"
)

// Value is a model value: int64, float64, string, bool, NilV, *List, *Map, *Set, *ErrV,
// *Closure, *BuiltinV, *BoundMethod, *Partial.
type Value interface{}

type NilV struct{}

type List struct{ Items []Value }

type Map struct{ M map[string]Value }

type setKey struct {
	K string
	I int64
	F float64
	S string
}

type Set struct{ Items map[setKey]Value }

// ErrV is an error *value* (what a try-handler receives, what errors.new would make).
type ErrV struct {
	Msg    string
	Raised bool
}

type Closure struct {
	Fn  *FuncLit
	Env *scope
}

type BuiltinV struct{ Name string }

type BoundMethod struct {
	Recv Value
	Name string
}

type Partial struct {
	F    Value
	Args []Value
}

// ThreadV is the result of spawn(): the model runs the spawned call to completion at once (the
// generators always wait() immediately, so no other order is observable).
type ThreadV struct {
	Res Value
	Err *RErr
}

// RErr is a raised run-time error travelling through the interpreter.
type RErr struct {
	Cat   string // "type error", "index error", "slice error", "key error", "args error", "eval error", "value error", "unpack", "user", "panic"
	Msg   string // exact message for Cat=="user"
	Fatal bool   // not catchable by try (args error, eval error)
}

func (e *RErr) Error() string { return e.Cat + ": " + e.Msg }

func typeErr(format string, a ...any) *RErr {
	return &RErr{Cat: "type error", Msg: fmt.Sprintf(format, a...)}
}

func TypeName(v Value) string {
	switch v.(type) {
	case int64:
		return "int"
	case float64:
		return "float"
	case string:
		return "string"
	case bool:
		return "bool"
	case NilV:
		return "nil"
	case *List:
		return "list"
	case *Map:
		return "map"
	case *Set:
		return "set"
	case *ErrV:
		return "error"
	case *Closure:
		return "function"
	case *BuiltinV, *BoundMethod:
		return "builtin"
	case *Partial:
		return "partial"
	case *ThreadV:
		return "thread"
	}
	return fmt.Sprintf("?%T", v)
}

func Truthy(v Value) bool {
	switch x := v.(type) {
	case int64:
		return x != 0
	case float64:
		return x != 0
	case string:
		return x != ""
	case bool:
		return x
	case NilV:
		return false
	case *List:
		return len(x.Items) > 0
	case *Map:
		return len(x.M) > 0
	case *Set:
		return len(x.Items) > 0
	case *ErrV:
		return true
	}
	return true
}

func inspectString(s string) string {
	n := len(s)
	if n >= 2 && s[0] == '"' && s[n-1] == '"' && strings.Count(s, "\"") == 2 {
		return "'" + s + "'"
	}
	return fmt.Sprintf("%q", s)
}

// Inspect renders a value the way object.Inspect does. Cyclic or very deep values render with a
// NUL marker, which makes the outcome undecided (the real rendering of cycles is not pinned).
func Inspect(v Value) string { return inspectD(v, 0) }

func inspectD(v Value, depth int) string {
	if depth > 40 {
		return "\x00deep"
	}
	switch x := v.(type) {
	case int64:
		return strconv.FormatInt(x, 10)
	case float64:
		return strconv.FormatFloat(x, 'f', -1, 64)
	case string:
		return inspectString(x)
	case bool:
		if x {
			return "true"
		}
		return "false"
	case NilV:
		return "nil"
	case *List:
		parts := make([]string, len(x.Items))
		for i, e := range x.Items {
			parts[i] = inspectD(e, depth+1)
		}
		return "[" + strings.Join(parts, ", ") + "]"
	case *Map:
		keys := make([]string, 0, len(x.M))
		for k := range x.M {
			keys = append(keys, k)
		}
		sort.Strings(keys)
		parts := make([]string, len(keys))
		for i, k := range keys {
			parts[i] = fmt.Sprintf("%q: %s", k, inspectD(x.M[k], depth+1))
		}
		return "{" + strings.Join(parts, ", ") + "}"
	case *Set:
		items := x.Sorted()
		parts := make([]string, len(items))
		for i, e := range items {
			parts[i] = Inspect(e)
		}
		return "{" + strings.Join(parts, ", ") + "}"
	case *ErrV:
		return fmt.Sprintf("error(%q)", x.Msg)
	case *Closure:
		return "<function>"
	case *BuiltinV:
		return "builtin(" + x.Name + ")"
	case *BoundMethod:
		return "builtin(" + TypeName(x.Recv) + "." + x.Name + ")"
	case *Partial:
		return "<partial>"
	}
	return fmt.Sprintf("<?%T>", v)
}

// Render is the typed rendering used to compare outcomes ("int:8" vs "float:8").
func Render(v Value) string {
	switch v.(type) {
	case *Closure:
		return "function"
	case *BuiltinV, *BoundMethod:
		return "builtin"
	case *Partial:
		return "partial"
	case *ThreadV:
		return "thread"
	}
	return TypeName(v) + ":" + Inspect(v)
}

// PrintArg converts a value to what fmt.Fprintln receives for it in risor's print.
func PrintArg(v Value) any {
	switch x := v.(type) {
	case int64, float64, string, bool:
		return x
	case *ErrV:
		return x.Msg
	case NilV:
		return "nil"
	case *Closure:
		return "<function>"
	}
	return Inspect(v)
}

func hashKey(v Value) (setKey, bool) {
	switch x := v.(type) {
	case int64:
		return setKey{K: "int", I: x}, true
	case float64:
		return setKey{K: "float", F: x}, true
	case string:
		return setKey{K: "string", S: x}, true
	case bool:
		if x {
			return setKey{K: "bool", I: 1}, true
		}
		return setKey{K: "bool"}, true
	case NilV:
		return setKey{K: "nil"}, true
	}
	return setKey{}, false
}

func (s *Set) Sorted() []Value {
	keys := make([]setKey, 0, len(s.Items))
	for k := range s.Items {
		keys = append(keys, k)
	}
	sort.Slice(keys, func(i, j int) bool {
		a, b := keys[i], keys[j]
		if a.K != b.K {
			return a.K < b.K
		}
		if a.I != b.I {
			return a.I < b.I
		}
		if a.S != b.S {
			return a.S < b.S
		}
		return a.F < b.F
	})
	res := make([]Value, len(keys))
	for i, k := range keys {
		res[i] = s.Items[k]
	}
	return res
}

// Equals implements ==.
func Equals(a, b Value) bool { return equalsD(a, b, 0) }

func equalsD(a, b Value, depth int) bool {
	if depth > 100 {
		panic(budgetExceeded{}) // cyclic or absurdly deep data: not decided by the model
	}
	switch x := a.(type) {
	case int64:
		switch y := b.(type) {
		case int64:
			return x == y
		case float64:
			return float64(x) == y
		}
		return false
	case float64:
		switch y := b.(type) {
		case int64:
			return x == float64(y)
		case float64:
			return x == y
		}
		return false
	case string:
		y, ok := b.(string)
		return ok && x == y
	case bool:
		y, ok := b.(bool)
		return ok && x == y
	case NilV:
		_, ok := b.(NilV)
		return ok
	case *List:
		y, ok := b.(*List)
		if !ok || len(x.Items) != len(y.Items) {
			return false
		}
		for i := range x.Items {
			if !equalsD(x.Items[i], y.Items[i], depth+1) {
				return false
			}
		}
		return true
	case *Map:
		y, ok := b.(*Map)
		if !ok || len(x.M) != len(y.M) {
			return false
		}
		for k, v := range x.M {
			w, ok := y.M[k]
			if !ok || !equalsD(v, w, depth+1) {
				return false
			}
		}
		return true
	case *Set:
		y, ok := b.(*Set)
		if !ok || len(x.Items) != len(y.Items) {
			return false
		}
		for k, v := range x.Items {
			w, ok := y.Items[k]
			if !ok || !equalsD(v, w, depth+1) {
				return false
			}
		}
		return true
	case *ErrV:
		y, ok := b.(*ErrV)
		return ok && x.Msg == y.Msg && x.Raised == y.Raised
	case *Closure:
		y, ok := b.(*Closure)
		return ok && x == y
	}
	return false
}

// Compare implements the ordering used by < <= > >= and sorted(); error when not comparable.
func Compare(a, b Value) (int, *RErr) { return compareD(a, b, 0) }

func compareD(a, b Value, depth int) (int, *RErr) {
	if depth > 100 {
		panic(budgetExceeded{})
	}
	c3 := func(lt, gt bool) int {
		if lt {
			return -1
		}
		if gt {
			return 1
		}
		return 0
	}
	switch x := a.(type) {
	case int64:
		switch y := b.(type) {
		case int64:
			return c3(x < y, x > y), nil
		case float64:
			f := float64(x)
			if f == y {
				return 0, nil
			}
			if f > y {
				return 1, nil
			}
			return -1, nil
		}
	case float64:
		var y float64
		switch yy := b.(type) {
		case int64:
			y = float64(yy)
		case float64:
			y = yy
		default:
			return 0, typeErr("unable to compare float and %s", TypeName(b))
		}
		if x == y {
			return 0, nil
		}
		if x > y {
			return 1, nil
		}
		return -1, nil
	case string:
		if y, ok := b.(string); ok {
			return c3(x < y, x > y), nil
		}
	case bool:
		if y, ok := b.(bool); ok {
			if x == y {
				return 0, nil
			}
			if x {
				return 1, nil
			}
			return -1, nil
		}
	case NilV:
		if _, ok := b.(NilV); ok {
			return 0, nil
		}
	case *List:
		if y, ok := b.(*List); ok {
			if len(x.Items) != len(y.Items) {
				return c3(len(x.Items) < len(y.Items), len(x.Items) > len(y.Items)), nil
			}
			for i := range x.Items {
				switch x.Items[i].(type) {
				case *Map, *Set, *Closure, *BuiltinV, *BoundMethod, *Partial:
					return 0, typeErr("%s object is not comparable", TypeName(x.Items[i]))
				}
				c, err := compareD(x.Items[i], y.Items[i], depth+1)
				if err != nil {
					return 0, err
				}
				if c != 0 {
					return c, nil
				}
			}
			return 0, nil
		}
	case *Map, *Set, *Closure, *BuiltinV, *BoundMethod, *Partial:
		return 0, typeErr("expected a comparable object (got %s)", TypeName(a))
	case *ErrV:
		if y, ok := b.(*ErrV); ok {
			if x.Msg == y.Msg && x.Raised == y.Raised {
				return 0, nil
			}
			if x.Msg != y.Msg {
				return c3(x.Msg < y.Msg, x.Msg > y.Msg), nil
			}
			return c3(!x.Raised && y.Raised, x.Raised && !y.Raised), nil
		}
	}
	return 0, typeErr("unable to compare %s and %s", TypeName(a), TypeName(b))
}

// BinaryOp implements the arithmetic operators (not && || and not comparisons).
func BinaryOp(op string, a, b Value) (Value, *RErr) {
	switch x := a.(type) {
	case int64:
		switch y := b.(type) {
		case int64:
			switch op {
			case "+":
				return x + y, nil
			case "-":
				return x - y, nil
			case "*":
				return x * y, nil
			case "/":
				if y == 0 {
					return nil, &RErr{Cat: "panic", Msg: "integer divide by zero"}
				}
				return x / y, nil
			case "%":
				if y == 0 {
					return nil, &RErr{Cat: "panic", Msg: "integer divide by zero"}
				}
				return x % y, nil
			case "**":
				return int64(math.Pow(float64(x), float64(y))), nil
			case "<<":
				return x << uint(y), nil
			case ">>":
				return x >> uint(y), nil
			case "&":
				return x & y, nil
			}
		case float64:
			f := float64(x)
			switch op {
			case "+":
				return f + y, nil
			case "-":
				return f - y, nil
			case "*":
				return f * y, nil
			case "/":
				return f / y, nil
			case "**":
				return int64(math.Pow(f, y)), nil
			}
		}
		return nil, typeErr("unsupported operation for int: %s on type %s", op, TypeName(b))
	case float64:
		var y float64
		switch yy := b.(type) {
		case int64:
			y = float64(yy)
		case float64:
			y = yy
		default:
			return nil, typeErr("unsupported operation for float: %s on type %s", op, TypeName(b))
		}
		switch op {
		case "+":
			return x + y, nil
		case "-":
			return x - y, nil
		case "*":
			return x * y, nil
		case "/":
			return x / y, nil
		case "**":
			return math.Pow(x, y), nil
		}
		return nil, typeErr("unsupported operation for float: %s", op)
	case string:
		if y, ok := b.(string); ok && op == "+" {
			return x + y, nil
		}
		return nil, typeErr("unsupported operation for string: %s on type %s", op, TypeName(b))
	case *List:
		if y, ok := b.(*List); ok && op == "+" {
			items := make([]Value, 0, len(x.Items)+len(y.Items))
			items = append(items, x.Items...)
			items = append(items, y.Items...)
			return &List{Items: items}, nil
		}
		return nil, typeErr("unsupported operation for list: %s on type %s", op, TypeName(b))
	}
	return nil, typeErr("unsupported operation for %s: %s", TypeName(a), op)
}
