package gen

import (
	"fmt"
	"sort"
	"strings"
)

func argsErr(name string) *RErr {
	return &RErr{Cat: "args error", Msg: name + ": wrong argument count", Fatal: true}
}

// callBuiltin implements the modelled subset of the default builtins.
func (in *Interp) callBuiltin(name string, args []Value) Value {
	if in.Host != nil {
		if h, ok := in.Host[name]; ok {
			v, err := h(in, args)
			if err != nil {
				panic(err)
			}
			return v
		}
	}
	switch name {
	case "spawn":
		if len(args) < 1 {
			panic(argsErr("spawn"))
		}
		return in.spawn(args[0], args[1:])
	case "print":
		in.Print(args)
		return NilV{}
	case "len":
		if len(args) != 1 {
			panic(argsErr("len"))
		}
		switch x := args[0].(type) {
		case *List:
			return int64(len(x.Items))
		case *Map:
			return int64(len(x.M))
		case *Set:
			return int64(len(x.Items))
		case string:
			return int64(len([]rune(x)))
		}
		panic(typeErr("len() unsupported argument (%s given)", TypeName(args[0])))
	case "type":
		if len(args) != 1 {
			panic(argsErr("type"))
		}
		return TypeName(args[0])
	case "string":
		if len(args) > 1 {
			panic(argsErr("string"))
		}
		if len(args) == 0 {
			return ""
		}
		switch x := args[0].(type) {
		case string:
			return x
		case *ErrV:
			return x.Msg
		case *Closure, *BuiltinV, *BoundMethod, *Partial:
			in.tag("undecided")
			return ""
		}
		return Inspect(args[0])
	case "keys":
		if len(args) != 1 {
			panic(argsErr("keys"))
		}
		switch x := args[0].(type) {
		case *Map:
			ks := make([]string, 0, len(x.M))
			for k := range x.M {
				ks = append(ks, k)
			}
			sort.Strings(ks)
			items := make([]Value, len(ks))
			for i, k := range ks {
				items[i] = k
			}
			return &List{Items: items}
		case *List:
			items := make([]Value, len(x.Items))
			for i := range x.Items {
				items[i] = int64(i)
			}
			return &List{Items: items}
		}
		in.tag("undecided")
		return NilV{}
	case "sorted":
		if len(args) == 2 {
			// sorted(list, less): a stable sort driven by the script function. The implementation uses
			// sort.SliceStable; the same algorithm on the same data calls the comparator in the same order.
			l, isList := args[0].(*List)
			clo, isFn := args[1].(*Closure)
			if !isList || !isFn {
				in.tag("undecided")
				return NilV{}
			}
			items := append([]Value{}, l.Items...)
			in.cost(len(items) * 4)
			var sortErr *RErr
			sort.SliceStable(items, func(i, j int) bool {
				if sortErr != nil {
					return false
				}
				var res Value
				func() {
					defer func() {
						if r := recover(); r != nil {
							if e, ok := r.(*RErr); ok && e.Cat != "panic" {
								sortErr = e
								return
							}
							panic(r)
						}
					}()
					res = in.callClosure(clo, []Value{items[i], items[j]})
				}()
				if sortErr != nil {
					return false
				}
				return Truthy(res)
			})
			if sortErr != nil {
				panic(sortErr)
			}
			return &List{Items: items}
		}
		if len(args) != 1 {
			panic(argsErr("sorted"))
		}
		var items []Value
		switch x := args[0].(type) {
		case *List:
			items = append(items, x.Items...)
		case *Map:
			for k := range x.M {
				items = append(items, k)
			}
			sort.Slice(items, func(i, j int) bool { return items[i].(string) < items[j].(string) })
		case string:
			for _, r := range x {
				items = append(items, string(r))
			}
		default:
			in.tag("undecided")
			return NilV{}
		}
		in.cost(len(items) * len(items) / 4)
		// object.Sort: stable sort by Compare; any incomparable pair that the sort happens to visit is an
		// error. Which pairs a sort visits is an implementation detail, so a list with an incomparable
		// pair anywhere is "error" only if all pairs are incomparable-free … keep it decidable:
		for i := range items {
			switch items[i].(type) {
			case *Map, *Set, *Closure, *BuiltinV, *BoundMethod, *Partial:
				in.tag("undecided")
				return NilV{}
			}
			for j := i + 1; j < len(items); j++ {
				if _, err := Compare(items[i], items[j]); err != nil {
					if len(items) == 2 {
						panic(err)
					}
					in.tag("undecided")
					return NilV{}
				}
			}
		}
		sort.SliceStable(items, func(i, j int) bool {
			c, _ := Compare(items[i], items[j])
			return c < 0
		})
		return &List{Items: items}
	case "error":
		if len(args) < 1 {
			panic(argsErr("error"))
		}
		switch x := args[0].(type) {
		case *ErrV:
			if strings.HasPrefix(x.Msg, "\x00") {
				panic(&RErr{Cat: x.Msg[1:]})
			}
			panic(userOrCat(x.Msg))
		case string:
			fa := make([]any, len(args)-1)
			for i, a := range args[1:] {
				switch v := a.(type) {
				case int64, float64, string, bool:
					fa[i] = v
				default:
					in.tag("undecided")
					fa[i] = nil
				}
			}
			panic(userOrCat(fmt.Sprintf(x, fa...)))
		}
		panic(typeErr("error() expected a string or error (%s given)", TypeName(args[0])))
	case "try":
		return in.callTry(args)
	case "reversed":
		if len(args) != 1 {
			panic(argsErr("reversed"))
		}
		switch x := args[0].(type) {
		case *List:
			n := len(x.Items)
			items := make([]Value, n)
			for i, e := range x.Items {
				items[n-1-i] = e
			}
			return &List{Items: items}
		case string:
			r := []rune(x)
			for i, j := 0, len(r)-1; i < j; i, j = i+1, j-1 {
				r[i], r[j] = r[j], r[i]
			}
			return string(r)
		}
		in.tag("undecided")
		return NilV{}
	case "any", "all":
		if len(args) != 1 {
			panic(argsErr(name))
		}
		l, ok := args[0].(*List)
		if !ok {
			in.tag("undecided")
			return NilV{}
		}
		for _, e := range l.Items {
			if name == "any" && Truthy(e) {
				return true
			}
			if name == "all" && !Truthy(e) {
				return false
			}
		}
		return name == "all"
	}
	in.tag("undecided")
	return NilV{}
}

// userOrCat classifies a raised message the way the oracle classifies real error texts.
func userOrCat(msg string) *RErr {
	if cat, ok := CategoryOf(msg); ok {
		return &RErr{Cat: cat, Msg: msg}
	}
	return &RErr{Cat: "user", Msg: msg}
}

var categories = []string{"type error", "index error", "slice error", "key error", "args error", "eval error", "value error", "exec error", "import error", "io error", "compile error", "parse error", "syntax error"}

// CategoryOf extracts the error category from a real error text ("type error: ...").
func CategoryOf(msg string) (string, bool) {
	if strings.HasPrefix(msg, "panic:") {
		return "panic", true
	}
	if strings.HasPrefix(msg, "unpack count mismatch") {
		return "unpack", true
	}
	for _, c := range categories {
		if strings.HasPrefix(msg, c+":") {
			return c, true
		}
	}
	return "", false
}

func (in *Interp) callTry(args []Value) Value {
	if len(args) < 1 {
		panic(argsErr("try"))
	}
	var lastErr *ErrV
	for _, a := range args {
		var res Value
		var rerr *RErr
		func() {
			defer func() {
				if r := recover(); r != nil {
					if e, ok := r.(*RErr); ok && e.Cat != "panic" {
						rerr = e
						return
					}
					panic(r)
				}
			}()
			switch f := a.(type) {
			case *Closure:
				var cargs []Value
				if len(f.Fn.Params) > 0 && lastErr != nil {
					cargs = append(cargs, lastErr)
				}
				res = in.callClosure(f, cargs)
			case *BuiltinV, *BoundMethod, *Partial:
				in.tag("undecided")
				res = NilV{}
			default:
				res = a
			}
		}()
		if rerr != nil {
			if rerr.Fatal {
				panic(rerr)
			}
			msg := rerr.Msg
			if rerr.Cat != "user" {
				// the handler sees the real message text, which the model does not know
				lastErr = &ErrV{Msg: "\x00" + rerr.Cat, Raised: false}
			} else {
				lastErr = &ErrV{Msg: msg, Raised: false}
			}
			continue
		}
		return res
	}
	return NilV{}
}

func (in *Interp) callMethod(m *BoundMethod, args []Value) Value {
	switch recv := m.Recv.(type) {
	case *List:
		switch m.Name {
		case "append":
			if len(args) != 1 {
				panic(argsErr("list.append"))
			}
			recv.Items = append(recv.Items, args[0])
			return recv
		case "extend":
			if len(args) != 1 {
				panic(argsErr("list.extend"))
			}
			o, ok := args[0].(*List)
			if !ok {
				in.tag("undecided")
				return NilV{}
			}
			recv.Items = append(recv.Items, o.Items...)
			return recv
		case "copy":
			if len(args) != 0 {
				panic(argsErr("list.copy"))
			}
			return &List{Items: append([]Value{}, recv.Items...)}
		case "count":
			if len(args) != 1 {
				panic(argsErr("list.count"))
			}
			n := int64(0)
			for _, e := range recv.Items {
				if Equals(args[0], e) {
					n++
				}
			}
			return n
		case "index":
			if len(args) != 1 {
				panic(argsErr("list.index"))
			}
			for i, e := range recv.Items {
				if Equals(args[0], e) {
					return int64(i)
				}
			}
			return int64(-1)
		case "reverse":
			if len(args) != 0 {
				panic(argsErr("list.reverse"))
			}
			for i, j := 0, len(recv.Items)-1; i < j; i, j = i+1, j-1 {
				recv.Items[i], recv.Items[j] = recv.Items[j], recv.Items[i]
			}
			return recv
		case "map", "filter", "each":
			if len(args) != 1 {
				panic(argsErr("list." + m.Name))
			}
			clo, ok := args[0].(*Closure)
			if !ok {
				in.tag("undecided")
				return NilV{}
			}
			np := len(clo.Fn.Params)
			if m.Name == "map" && (np < 1 || np > 2) {
				panic(typeErr("list.map() received an incompatible function"))
			}
			items := append([]Value{}, recv.Items...) // the generator never mutates the receiver in the callback
			var result []Value
			for i, v := range items {
				cargs := []Value{v}
				if m.Name == "map" && np == 2 {
					cargs = []Value{int64(i), v}
				}
				var out Value
				func() {
					defer func() {
						if r := recover(); r != nil {
							panic(r) // the builtin passes the callback's error on unchanged
						}
					}()
					out = in.callClosure(clo, cargs)
				}()
				if _, isErr := out.(*ErrV); isErr {
					in.tag("undecided")
					return NilV{}
				}
				// a callback that changes the list it is being applied to: what the builtin then sees
				// depends on slice capacities, which is not pinned
				if len(recv.Items) != len(items) {
					in.tag("undecided")
					return NilV{}
				}
				for k := range items {
					if recv.Items[k] != items[k] {
						in.tag("undecided")
						return NilV{}
					}
				}
				switch m.Name {
				case "map":
					result = append(result, out)
				case "filter":
					if Truthy(out) {
						result = append(result, v)
					}
				}
			}
			if m.Name == "each" {
				return NilV{}
			}
			if result == nil {
				result = []Value{}
			}
			return &List{Items: result}
		}
	case string:
		switch m.Name {
		case "to_upper":
			if len(args) != 0 {
				panic(argsErr("string.to_upper"))
			}
			return strings.ToUpper(recv)
		case "to_lower":
			if len(args) != 0 {
				panic(argsErr("string.to_lower"))
			}
			return strings.ToLower(recv)
		case "contains":
			if len(args) != 1 {
				panic(argsErr("string.contains"))
			}
			s, ok := args[0].(string)
			if !ok {
				return false
			}
			return strings.Contains(recv, s)
		}
	case *Closure:
		if m.Name == "spawn" {
			return in.spawn(recv, args)
		}
	case *ThreadV:
		if m.Name == "wait" {
			if recv.Err != nil {
				// the thread's error is re-raised by wait(); its fatality is lost on the way
				panic(&RErr{Cat: recv.Err.Cat, Msg: recv.Err.Msg})
			}
			return recv.Res
		}
	case *ErrV:
		switch m.Name {
		case "message", "error":
			if strings.HasPrefix(recv.Msg, "\x00") {
				in.tag("undecided") // text of a built-in error message is not modelled
				return ""
			}
			return recv.Msg
		}
	}
	in.tag("undecided")
	return NilV{}
}
