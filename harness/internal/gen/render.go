package gen

import (
	"fmt"
	"strconv"
	"strings"
	"unicode/utf8"
)

// Tok is one source token together with what may be put in the gap BEFORE it.
type Tok struct {
	Text  string
	Space bool // default rendering puts one space before the token
	NL    bool // the grammar accepts line breaks in the gap before this token
	Sep   bool // statement separator (Text is "\n"; may be rendered as newline(s), ";" or a comment + newline)
	Str   bool // string literal token (layout never touches its inside)
}

// precedence levels (see LANGUAGE_RULES.md)
const (
	pLowest = iota
	pPipe
	pCond
	pAssign
	pDeclare
	pTernary
	pEquals
	pLess
	pSum
	pProduct
	pPower
	pMod
	pPrefix
	pCall
	pIndex
	pAtom
)

var binPrec = map[string]int{
	"&&": pCond, "||": pCond, "==": pEquals, "!=": pEquals, "<": pLess, "<=": pLess, ">": pLess, ">=": pLess,
	"+": pSum, "-": pSum, "*": pProduct, "/": pProduct, "&": pProduct, "<<": pProduct, ">>": pProduct, "**": pPower, "%": pMod,
}

func exprPrec(e Expr) int {
	switch x := e.(type) {
	case *Pipe:
		return pPipe
	case *Binary:
		return binPrec[x.Op]
	case *Ternary:
		return pLowest // its last branch is parsed greedily: parenthesised whenever it is an operand
	case *Prefix, *InExpr:
		return pPrefix
	case *Call, *MethodCall:
		return pCall
	case *Index, *SliceE, *Attr:
		return pIndex
	case *IfExpr, *SwitchExpr, *FuncLit:
		return pLowest // complete constructs: parenthesised whenever they are an operand
	}
	return pAtom
}

type renderer struct {
	toks []Tok
}

func (r *renderer) t(text string, space bool) {
	r.toks = append(r.toks, Tok{Text: text, Space: space})
}

func (r *renderer) tnl(text string, space bool) {
	r.toks = append(r.toks, Tok{Text: text, Space: space, NL: true})
}

func (r *renderer) sep() {
	r.toks = append(r.toks, Tok{Text: "\n", Sep: true})
}

// Tokens renders a program to its token stream.
func Tokens(p *Program) []Tok {
	r := &renderer{}
	r.stmts(p.Stmts, false)
	return r.toks
}

// Source renders tokens with the default layout.
func Source(toks []Tok) string {
	var b strings.Builder
	indent := 0
	atLineStart := true
	for i, t := range toks {
		if t.Sep {
			b.WriteString("\n")
			atLineStart = true
			continue
		}
		if t.Text == "}" && indent > 0 {
			indent--
		}
		if atLineStart {
			b.WriteString(strings.Repeat("  ", indent))
		} else if t.Space && i > 0 {
			b.WriteString(" ")
		}
		b.WriteString(t.Text)
		atLineStart = false
		if t.Text == "{" && i+1 < len(toks) && toks[i+1].Sep {
			indent++
		}
	}
	b.WriteString("\n")
	return b.String()
}

// RenderProgram renders a program with the default layout.
func RenderProgram(v *Program) string { return Source(Tokens(v)) }

func (r *renderer) stmts(stmts []Stmt, inBlock bool) {
	for i, s := range stmts {
		if i > 0 {
			r.sep()
		}
		r.stmt(s)
	}
}

func (r *renderer) block(stmts []Stmt) {
	r.t("{", true)
	if len(stmts) > 0 {
		r.sep()
		r.stmts(stmts, true)
		r.sep()
	}
	r.t("}", false)
}

func (r *renderer) stmt(s Stmt) {
	switch x := s.(type) {
	case *ExprStmt:
		r.expr(x.X, pLowest)
	case *VarDecl:
		switch x.Kind {
		case "var":
			r.t("var", true)
			r.t(x.Name, true)
			r.t("=", true)
		case "const":
			r.t("const", true)
			r.t(x.Name, true)
			r.t("=", true)
		default:
			r.t(x.Name, true)
			r.t(":=", true)
		}
		r.expr(x.X, pLowest)
	case *MultiDecl:
		for i, n := range x.Names {
			if i > 0 {
				r.t(",", false)
			}
			r.t(n, true)
		}
		if x.Decl {
			r.t(":=", true)
		} else {
			r.t("=", true)
		}
		r.expr(x.X, pLowest)
	case *Assign:
		switch t := x.Target.(type) {
		case *Ident:
			r.t(t.Name, true)
		case *Index:
			r.expr(t.X, pIndex)
			r.t("[", false)
			r.expr(t.I, pLowest)
			r.t("]", false)
		case *Attr:
			r.expr(t.X, pIndex)
			r.t(".", false)
			r.t(t.Name, false)
		}
		r.t(x.Op, true)
		r.expr(x.X, pLowest)
	case *IncDec:
		r.t(x.Name, true)
		r.t(x.Op, false)
	case *FuncDecl:
		r.funcLit(x.F)
	case *Return:
		r.t("return", true)
		if x.X != nil {
			r.expr(x.X, pLowest)
		}
	case *Break:
		r.t("break", true)
	case *Continue:
		r.t("continue", true)
	case *Defer:
		r.t("defer", true)
		// `defer` must be followed by `func` or an identifier
		if c, ok := x.Call.(*Call); ok {
			if fl, isFn := c.F.(*FuncLit); isFn {
				r.funcLit(fl)
				r.t("(", false)
				r.args(c.Args)
				r.closer(")", len(c.Args) > 0)
				break
			}
		}
		r.expr(x.Call, pPrefix)
	case *For:
		r.t("for", true)
		switch x.Kind {
		case "inf":
		case "cond":
			// `for x in y {` would be read as a for-in loop
			if in, ok := x.Cond.(*InExpr); ok {
				if _, isId := in.X.(*Ident); isId && !in.Not {
					r.t("(", true)
					r.expr(x.Cond, pLowest)
					r.t(")", false)
					break
				}
			}
			r.condExpr(x.Cond)
		case "three":
			if x.Init != nil {
				r.stmt(x.Init)
			}
			r.t(";", false)
			if x.Cond != nil {
				r.condExpr(x.Cond)
			} else {
				r.t(";", false) // an absent condition is written `; ;` (the parser wants a third semicolon)
			}
			r.t(";", false)
			if x.Post != nil {
				r.stmt(x.Post)
			}
		case "range0":
			r.t("range", true)
			r.iterExpr(x.Iter)
		case "range1":
			r.t(x.K, true)
			r.t(":=", true)
			r.t("range", true)
			r.iterExpr(x.Iter)
		case "range2":
			r.t(x.K, true)
			r.t(",", false)
			r.t(x.V, true)
			r.t(":=", true)
			r.t("range", true)
			r.iterExpr(x.Iter)
		case "in":
			r.t(x.V, true)
			r.t("in", true)
			r.condExpr(x.Iter)
		}
		r.block(x.Body)
	default:
		panic(fmt.Sprintf("render: unknown statement %T", s))
	}
}

// condExpr renders an expression that is followed by a block's "{".
func (r *renderer) condExpr(e Expr) {
	if needsCondParens(e) {
		r.t("(", true)
		r.expr(e, pLowest)
		r.t(")", false)
		return
	}
	r.expr(e, pLowest)
}

func (r *renderer) iterExpr(e Expr) {
	if needsCondParens(e) {
		r.t("(", true)
		r.expr(e, pLowest)
		r.t(")", false)
		return
	}
	r.expr(e, pCall)
}

func (r *renderer) funcLit(f *FuncLit) {
	r.t("func", true)
	if f.Name != "" {
		r.t(f.Name, true)
	}
	r.t("(", false)
	for i, p := range f.Params {
		if i > 0 {
			r.t(",", false)
		}
		r.t(p.Name, i > 0)
		if p.Default != nil {
			r.t("=", false)
			r.expr(p.Default, pLowest)
		}
	}
	r.t(")", false)
	r.block(f.Body)
}

// endsWithBrace reports whether the rendering of e ends with a block (so that `if e {` would be
// ambiguous) — conditions and iterables that contain map/set literals or blocks are parenthesised.
func needsCondParens(e Expr) bool {
	switch x := e.(type) {
	case *MapLit, *SetLit, *IfExpr, *SwitchExpr, *FuncLit:
		return true
	case *Binary:
		return needsCondParens(x.L) || needsCondParens(x.R)
	case *Prefix:
		return needsCondParens(x.X)
	case *InExpr:
		return needsCondParens(x.X) || needsCondParens(x.C)
	case *Ternary:
		return needsCondParens(x.C) || needsCondParens(x.A) || needsCondParens(x.B)
	case *Index:
		return needsCondParens(x.X)
	case *SliceE:
		return needsCondParens(x.X)
	case *Attr:
		return needsCondParens(x.X)
	case *MethodCall:
		return needsCondParens(x.X)
	case *Call:
		return needsCondParens(x.F)
	case *Pipe:
		for _, s := range x.Stages {
			if needsCondParens(s) {
				return true
			}
		}
	}
	return false
}

// expr renders e in a context that requires at least precedence min (parenthesised otherwise).
func (r *renderer) expr(e Expr, min int) {
	if exprPrec(e) < min || (min > pLowest && exprPrec(e) == pLowest) {
		r.t("(", true)
		r.exprRaw(e)
		r.t(")", false)
		return
	}
	r.exprRaw(e)
}

func (r *renderer) exprRaw(e Expr) {
	switch x := e.(type) {
	case *IntLit:
		switch x.Form {
		case 1:
			r.t("0x"+strconv.FormatInt(x.V, 16), true)
		case 2:
			if x.V == 0 {
				r.t("0", true)
			} else {
				r.t("0"+strconv.FormatInt(x.V, 8), true)
			}
		default:
			r.t(strconv.FormatInt(x.V, 10), true)
		}
	case *FloatLit:
		s := strconv.FormatFloat(x.V, 'f', -1, 64)
		if !strings.Contains(s, ".") {
			s += ".0"
		}
		r.t(s, true)
	case *StrLit:
		if x.Raw && !strings.Contains(x.V, "`") && utf8.ValidString(x.V) && !strings.Contains(x.V, "\r") {
			r.toks = append(r.toks, Tok{Text: "`" + x.V + "`", Space: true, Str: true})
		} else {
			r.toks = append(r.toks, Tok{Text: quoteDouble(x.V), Space: true, Str: true})
		}
	case *TemplateLit:
		r.toks = append(r.toks, Tok{Text: renderTemplate(x), Space: true, Str: true})
	case *BoolLit:
		if x.V {
			r.t("true", true)
		} else {
			r.t("false", true)
		}
	case *NilLit:
		r.t("nil", true)
	case *Ident:
		r.t(x.Name, true)
	case *Paren:
		r.t("(", true)
		r.exprRaw(x.X)
		r.t(")", false)
	case *Prefix:
		r.t(x.Op, true)
		if _, nested := x.X.(*Prefix); nested {
			r.t("(", false)
			r.exprRaw(x.X)
			r.t(")", false)
		} else {
			n := len(r.toks)
			r.expr(x.X, pCall)
			r.toks[n].Space = false
		}
	case *Binary:
		p := binPrec[x.Op]
		r.expr(x.L, p)
		r.t(x.Op, true)
		n := len(r.toks)
		r.expr(x.R, p+1)
		r.toks[n].NL = true // a line break is accepted after a binary operator
	case *InExpr:
		r.expr(x.X, pCall)
		if x.Not {
			r.t("not", true)
		}
		r.t("in", true)
		r.expr(x.C, pCall)
	case *Ternary:
		r.expr(x.C, pEquals)
		r.t("?", true)
		r.ternBranch(x.A)
		r.t(":", true)
		r.ternBranch(x.B)
	case *Index:
		r.expr(x.X, pCall)
		r.t("[", false)
		n := len(r.toks)
		r.expr(x.I, pLowest)
		r.toks[n].Space = false
		r.t("]", false)
	case *SliceE:
		r.expr(x.X, pCall)
		r.t("[", false)
		if x.Lo != nil {
			n := len(r.toks)
			r.expr(x.Lo, pLowest)
			r.toks[n].Space = false
		}
		r.t(":", false)
		if x.Hi != nil {
			n := len(r.toks)
			r.expr(x.Hi, pLowest)
			r.toks[n].Space = false
		}
		r.t("]", false)
	case *Attr:
		r.expr(x.X, pCall)
		r.t(".", false)
		r.tnl(x.Name, false)
	case *MethodCall:
		r.expr(x.X, pCall)
		r.t(".", false)
		r.tnl(x.Name, false)
		r.t("(", false)
		r.args(x.Args)
		r.closer(")", len(x.Args) > 0)
	case *Call:
		r.expr(x.F, pCall)
		r.t("(", false)
		r.args(x.Args)
		r.closer(")", len(x.Args) > 0)
	case *ListLit:
		r.t("[", true)
		r.args(x.Items)
		r.closer("]", len(x.Items) > 0)
	case *MapLit:
		r.t("{", true)
		for i := range x.Keys {
			if i > 0 {
				r.t(",", false)
			}
			k := Tok{Text: quoteDouble(x.Keys[i]), Space: i > 0, NL: true, Str: true}
			if isPlainIdent(x.Keys[i]) && len(x.Keys[i])%2 == 0 {
				k = Tok{Text: x.Keys[i], Space: i > 0, NL: true}
			}
			r.toks = append(r.toks, k)
			r.t(":", false)
			r.expr(x.Vals[i], pLowest)
		}
		r.tnl("}", false)
	case *SetLit:
		r.t("{", true)
		r.args(x.Items)
		r.t("}", false) // a set literal does not accept a line break before its closing brace
	case *FuncLit:
		r.funcLit(x)
	case *IfExpr:
		r.ifExpr(x)
	case *SwitchExpr:
		r.t("switch", true)
		r.condExpr(x.Subject)
		r.t("{", true)
		r.sep()
		for _, c := range x.Cases {
			if c.Default {
				r.t("default", true)
			} else {
				r.t("case", true)
				for i, v := range c.Values {
					if i > 0 {
						r.t(",", false)
					}
					r.expr(v, pLowest)
				}
			}
			r.t(":", false)
			r.sep()
			if len(c.Body) > 0 {
				r.stmts(c.Body, true)
				r.sep()
			}
		}
		r.t("}", false)
	case *Pipe:
		for i, st := range x.Stages {
			if i > 0 {
				r.t("|", true)
				n := len(r.toks)
				r.expr(st, pCond)
				r.toks[n].NL = true
			} else {
				r.expr(st, pCond)
			}
		}
	default:
		panic(fmt.Sprintf("render: unknown expression %T", e))
	}
}

// closer emits a closing bracket; a line break before it is accepted only when the list is not empty.
func (r *renderer) closer(text string, nonEmpty bool) {
	if nonEmpty {
		r.tnl(text, false)
	} else {
		r.t(text, false)
	}
}

func (r *renderer) args(items []Expr) {
	for i, it := range items {
		if i > 0 {
			r.t(",", false)
		}
		n := len(r.toks)
		r.expr(it, pLowest)
		r.toks[n].NL = true // after "(" / "[" / "," a line break is accepted
		if i == 0 {
			r.toks[n].Space = false
		}
	}
}

// ternBranch: a branch is rendered bare only if it is an atom/call chain; everything else is parenthesised
// (the parser parses a branch with the precedence of its first token).
func (r *renderer) ternBranch(e Expr) {
	switch e.(type) {
	case *IntLit, *FloatLit, *StrLit, *BoolLit, *NilLit, *Ident, *Paren, *TemplateLit:
		r.exprRaw(e)
		return
	}
	r.t("(", true)
	r.exprRaw(e)
	r.t(")", false)
}

func (r *renderer) ifExpr(x *IfExpr) {
	r.t("if", true)
	r.condExpr(x.Cond)
	r.block(x.Then)
	if x.ElseIf != nil {
		r.t("else", true)
		r.ifExpr(x.ElseIf)
	} else if x.HasElse {
		r.t("else", true)
		r.block(x.Else)
	}
}

func isPlainIdent(s string) bool {
	if s == "" {
		return false
	}
	for i, c := range s {
		if !(c == '_' || (c >= 'a' && c <= 'z') || (c >= 'A' && c <= 'Z') || (i > 0 && c >= '0' && c <= '9')) {
			return false
		}
	}
	switch s {
	case "as", "break", "case", "const", "continue", "default", "defer", "else", "false", "for", "from", "func", "go", "if", "import", "in", "nil", "not", "range", "return", "struct", "switch", "true", "var":
		return false
	}
	return true
}

// quoteDouble renders a Go string as a risor "..." literal that lexes back to exactly that value.
func quoteDouble(s string) string {
	var b strings.Builder
	b.WriteByte('"')
	for i := 0; i < len(s); {
		c := s[i]
		if c < utf8.RuneSelf {
			switch c {
			case '"':
				b.WriteString(`\"`)
			case '\\':
				b.WriteString(`\\`)
			case '\n':
				b.WriteString(`\n`)
			case '\t':
				b.WriteString(`\t`)
			case '\r':
				b.WriteString(`\r`)
			default:
				if c < 0x20 || c == 0x7f {
					fmt.Fprintf(&b, `\%03o`, c)
				} else {
					b.WriteByte(c)
				}
			}
			i++
			continue
		}
		rn, size := utf8.DecodeRuneInString(s[i:])
		if rn == utf8.RuneError && size == 1 {
			fmt.Fprintf(&b, `\%03o`, c)
			i++
			continue
		}
		if rn <= 0xFFFF && (i/2)%3 == 0 {
			fmt.Fprintf(&b, `\u%04x`, rn)
		} else {
			b.WriteString(s[i : i+size])
		}
		i += size
	}
	b.WriteByte('"')
	return b.String()
}

// renderTemplate renders a '...' template. Literal text is restricted by the generator to characters
// that need no escaping other than {{ }} \' \\ \n \t.
func renderTemplate(x *TemplateLit) string {
	var b strings.Builder
	b.WriteByte('\'')
	for _, p := range x.Parts {
		if p.X == nil {
			for _, c := range p.Text {
				switch c {
				case '{':
					b.WriteString("{{")
				case '}':
					b.WriteString("}}")
				case '\'':
					b.WriteString(`\'`)
				case '\\':
					b.WriteString(`\\`)
				case '\n':
					b.WriteString(`\n`)
				case '\t':
					b.WriteString(`\t`)
				default:
					b.WriteRune(c)
				}
			}
			continue
		}
		b.WriteByte('{')
		sub := &renderer{}
		sub.expr(p.X, pLowest)
		inner := strings.TrimSuffix(Source(sub.toks), "\n")
		b.WriteString(inner)
		b.WriteByte('}')
	}
	b.WriteByte('\'')
	return b.String()
}
