package gen

import (
	"fmt"
	"sort"
	"strings"
)

// Outcome is what an evaluation is compared on.
type Outcome struct {
	Result  string            `json:"result"`            // typed rendering of the program's value ("" when it failed)
	Err     string            `json:"err,omitempty"`     // "" | category | "user:<message>"
	Out     string            `json:"out"`               // everything printed
	Globals map[string]string `json:"globals,omitempty"` // typed rendering of top-level variables
	Ticks   []string          `json:"ticks,omitempty"`   // host-builtin call log (tick(x) calls)
}

// Interp is the reference interpreter.
type Interp struct {
	Steps    int
	MaxSteps int
	Over     bool            // step budget exceeded
	Tags     map[string]bool // dynamic tags of this run (used to attribute known findings / discard undecided programs)
	out      strings.Builder
	ticks    []string
	depth    int
	MaxDepth int
	globals  *activation
	root     *scope
	// Static visibility: the implementation resolves a name when it compiles the identifier, against the
	// declarations compiled so far. useOrder numbers every identifier use and declOrder every
	// declaration site in compile order; a use sees a declaration only if it was compiled before it.
	useOrder  map[any]int
	declOrder map[any]int
	orderN    int
	// frames mirrors the VM's call-frame stack (frame 0 = main code): used only to compute the dynamic
	// tag of recorded finding D1 (a cell for a variable two or more function levels up is taken from the
	// frame that many positions back on the CALL stack).
	frames []*activation
	// LenientNames: an undefined name makes the run undecided instead of being a harness error (used by
	// the incremental monitor, where a failed piece can skip declarations that later pieces refer to).
	LenientNames bool
	// Host hooks: extra builtins supplied by a monitor (name -> implementation).
	Host map[string]func(in *Interp, args []Value) (Value, *RErr)
}

type cell struct{ v Value }

// unsetV marks a hoisted top-level function name whose declaration has not run yet.
type unsetV struct{}

// activation is one function activation (or the main program): one cell per declaration site.
type activation struct {
	cells  map[any]*cell // key: declaration site (pointer to the declaring node, or param key)
	defers []*Partial
	fn     *Closure
	level  int // lexical function nesting level (0 = main program)
}

type scope struct {
	names  map[string]any // name -> declaration site key
	consts map[string]bool
	parent *scope
	act    *activation
}

type paramKey struct {
	fn   *FuncLit
	name string
}

type ctl int

const (
	ctlNone ctl = iota
	ctlBreak
	ctlContinue
	ctlReturn
)

type budgetExceeded struct{}

func NewInterp() *Interp {
	return &Interp{MaxSteps: 200000, MaxDepth: 200, Tags: map[string]bool{}}
}

func (in *Interp) step() {
	in.Steps++
	if in.Steps > in.MaxSteps {
		in.Over = true
		panic(budgetExceeded{})
	}
}

func (in *Interp) tag(t string) { in.Tags[t] = true }

// cost charges n steps (work done inside builtins and operators on containers) and rejects
// values that grow beyond what the generator is meant to produce.
func (in *Interp) cost(n int) {
	in.Steps += n
	if in.Steps > in.MaxSteps || n > 4000 {
		in.Over = true
		panic(budgetExceeded{})
	}
}

func (in *Interp) sizeOf(v Value) int {
	switch x := v.(type) {
	case *List:
		return len(x.Items)
	case *Map:
		return len(x.M)
	case *Set:
		return len(x.Items)
	case string:
		return len(x) / 8
	}
	return 0
}

func newScope(parent *scope, act *activation) *scope {
	return &scope{names: map[string]any{}, consts: map[string]bool{}, parent: parent, act: act}
}

func (s *scope) lookup(name string) (*scope, any, bool) {
	for c := s; c != nil; c = c.parent {
		if k, ok := c.names[name]; ok {
			return c, k, true
		}
	}
	return nil, nil, false
}

// lookupAt resolves a name as the compiler does for the identifier use `use`: declarations that were
// compiled after that use are invisible (an enclosing scope may declare the name later in the text).
func (in *Interp) lookupAt(s *scope, name string, use any) (*scope, any, bool) {
	uo, known := in.useOrder[use]
	for c := s; c != nil; c = c.parent {
		if k, ok := c.names[name]; ok {
			if known {
				if do, has := in.declOrder[k]; has && do > uo {
					continue
				}
			}
			return c, k, true
		}
	}
	return nil, nil, false
}

func (in *Interp) cellAt(s *scope, name string, use any) (*cell, bool) {
	sc, k, ok := in.lookupAt(s, name, use)
	if !ok {
		return nil, false
	}
	c := sc.act.cells[k]
	if c == nil {
		c = &cell{v: NilV{}}
		sc.act.cells[k] = c
	}
	return c, true
}

func (s *scope) declare(name string, site any, v Value) {
	s.names[name] = site
	c := s.act.cells[site]
	if c == nil {
		c = &cell{}
		s.act.cells[site] = c
	}
	c.v = v
}

func (s *scope) cellOf(name string) (*cell, bool) {
	sc, k, ok := s.lookup(name)
	if !ok {
		return nil, false
	}
	c := sc.act.cells[k]
	if c == nil {
		c = &cell{v: NilV{}}
		sc.act.cells[k] = c
	}
	return c, true
}

var builtinNames = map[string]bool{
	"spawn": true,
	"print": true, "len": true, "type": true, "keys": true, "sorted": true, "try": true, "error": true,
	"string": true, "reversed": true, "any": true, "all": true,
}

// Run evaluates a program and returns its outcome. ok=false means the model could not decide the
// program (step budget exceeded or an undecided construct was hit) and it must be discarded.
func (in *Interp) Run(p *Program) (out Outcome, ok bool) {
	in.Start()
	return in.RunPiece(p.Stmts)
}

// Start prepares an empty global environment (for incremental evaluation with RunPiece).
func (in *Interp) Start() {
	act := &activation{cells: map[any]*cell{}}
	in.globals = act
	in.root = newScope(nil, act)
	in.frames = []*activation{act}
	in.useOrder = map[any]int{}
	in.declOrder = map[any]int{}
	in.orderN = 0
}

// RunPiece evaluates more top-level statements in the environment left by earlier pieces (the way a
// REPL feeds one compiler and one VM). Out is the output printed by this piece only; a failing piece
// keeps the effects it had before failing.
func (in *Interp) RunPiece(stmts []Stmt) (out Outcome, ok bool) {
	act := in.globals
	in.number(stmts)
	// hoist the piece's top-level named functions (name exists, value nil until the declaration runs)
	for _, st := range stmts {
		if fd, isFd := st.(*FuncDecl); isFd {
			if _, exists := in.root.names[fd.F.Name]; !exists {
				in.root.declare(fd.F.Name, fd, unsetV{})
			}
			in.declOrder[fd] = -1 // hoisted: visible to everything in this and later pieces
			in.root.consts[fd.F.Name] = true
		}
	}
	outStart := in.out.Len()
	var result Value = NilV{}
	var rerr *RErr
	func() {
		defer func() {
			if r := recover(); r != nil {
				switch e := r.(type) {
				case *RErr:
					rerr = e
				case budgetExceeded:
					in.Over = true
				default:
					panic(r)
				}
			}
		}()
		v, c := in.execBlock(stmts, in.root, false)
		if c == ctlNone {
			result = v
		}
	}()
	if in.Over || in.Tags["undecided"] {
		return Outcome{}, false
	}
	out.Out = in.out.String()[outStart:]
	out.Ticks = in.ticks
	if rerr != nil {
		out.Err = rerr.Cat
		if rerr.Cat == "user" {
			out.Err = "user:" + rerr.Msg
		}
	} else {
		out.Result = Render(result)
	}
	out.Globals = map[string]string{}
	for name, site := range in.root.names {
		if c := act.cells[site]; c != nil && c.v != nil {
			out.Globals[name] = Render(c.v)
		}
	}
	// the text of built-in error messages is not modelled: a run that made one observable is undecided
	if strings.Contains(out.Out, "\x00") || strings.Contains(out.Result, "\x00") || strings.Contains(out.Err, "\x00") {
		return Outcome{}, false
	}
	for _, g := range out.Globals {
		if strings.Contains(g, "\x00") {
			return Outcome{}, false
		}
	}
	return out, true
}

// execBlock runs statements in the given scope (the caller creates the scope). Returns the value
// of the block (last statement if it is an expression, else nil) and a control signal.
func (in *Interp) execBlock(stmts []Stmt, sc *scope, _ bool) (Value, ctl) {
	var last Value = NilV{}
	for i, st := range stmts {
		v, c := in.exec(st, sc)
		if c != ctlNone {
			return v, c
		}
		if i == len(stmts)-1 {
			if _, isExpr := st.(*ExprStmt); isExpr {
				last = v
			} else {
				last = NilV{}
			}
		}
	}
	return last, ctlNone
}

func (in *Interp) exec(st Stmt, sc *scope) (Value, ctl) {
	in.step()
	switch s := st.(type) {
	case *ExprStmt:
		v, c := in.evalCtl(s.X, sc)
		return v, c
	case *VarDecl:
		v, c := in.evalCtl(s.X, sc)
		if c != ctlNone {
			return v, c
		}
		sc.declare(s.Name, s, v)
		if s.Kind == "const" {
			sc.consts[s.Name] = true
		}
		return NilV{}, ctlNone
	case *MultiDecl:
		v, c := in.evalCtl(s.X, sc)
		if c != ctlNone {
			return v, c
		}
		items := in.unpack(v, len(s.Names))
		for i, name := range s.Names {
			if s.Decl {
				sc.declare(name, multiSite{s, i}, items[i])
			} else {
				cl, ok := in.cellAt(sc, name, multiSite{s, i})
				if !ok {
					if in.LenientNames {
						in.tag("undecided")
						return NilV{}, ctlNone
					}
					panic(fmt.Sprintf("model: undefined %q", name))
				}
				cl.v = items[i]
			}
		}
		return NilV{}, ctlNone
	case *Assign:
		return in.execAssign(s, sc)
	case *IncDec:
		cl, ok := in.cellAt(sc, s.Name, s)
		if !ok {
			if in.LenientNames {
				in.tag("undecided")
				return NilV{}, ctlNone
			}
			panic(fmt.Sprintf("model: undefined %q", s.Name))
		}
		d := int64(1)
		if s.Op == "--" {
			d = -1
		}
		nv, err := BinaryOp("+", cl.v, d)
		if err != nil {
			panic(err)
		}
		cl.v = nv
		return NilV{}, ctlNone
	case *FuncDecl:
		in.checkDeepCapture(s.F, sc)
		clo := &Closure{Fn: s.F, Env: sc}
		if sc == in.root {
			cl, _ := sc.cellOf(s.F.Name)
			cl.v = clo
		} else {
			sc.declare(s.F.Name, s, clo)
			sc.consts[s.F.Name] = true
		}
		return NilV{}, ctlNone
	case *Return:
		if s.X == nil {
			return NilV{}, ctlReturn
		}
		v, c := in.evalCtl(s.X, sc)
		if c != ctlNone {
			return v, c
		}
		return v, ctlReturn
	case *Break:
		return NilV{}, ctlBreak
	case *Continue:
		return NilV{}, ctlContinue
	case *For:
		return in.execFor(s, sc)
	case *Defer:
		var f Value
		var args []Value
		switch c := s.Call.(type) {
		case *Call:
			f = in.eval(c.F, sc)
			for _, a := range c.Args {
				args = append(args, in.eval(a, sc))
			}
		case *MethodCall:
			recv := in.eval(c.X, sc)
			f = in.getAttr(recv, c.Name)
			for _, a := range c.Args {
				args = append(args, in.eval(a, sc))
			}
		default:
			panic("model: bad defer")
		}
		sc.act.defers = append([]*Partial{{F: f, Args: args}}, sc.act.defers...)
		return NilV{}, ctlNone
	}
	panic(fmt.Sprintf("model: unknown statement %T", st))
}

type multiSite struct {
	s *MultiDecl
	i int
}

func (in *Interp) unpack(v Value, n int) []Value {
	var items []Value
	switch x := v.(type) {
	case *List:
		items = x.Items
	case string:
		for _, r := range x {
			items = append(items, string(r))
		}
	case *Map:
		keys := make([]string, 0, len(x.M))
		for k := range x.M {
			keys = append(keys, k)
		}
		sort.Strings(keys)
		for _, k := range keys {
			items = append(items, k)
		}
	case *Set:
		items = x.Sorted()
	default:
		panic(typeErr("object is not a container (got %s)", TypeName(v)))
	}
	if len(items) != n {
		panic(&RErr{Cat: "unpack", Msg: "unpack count mismatch"})
	}
	return items
}

func (in *Interp) execAssign(s *Assign, sc *scope) (Value, ctl) {
	binop := strings.TrimSuffix(s.Op, "=")
	switch t := s.Target.(type) {
	case *Ident:
		cl, ok := in.cellAt(sc, t.Name, t)
		if !ok {
			if in.LenientNames {
				in.tag("undecided")
				return NilV{}, ctlNone
			}
			panic(fmt.Sprintf("model: assignment to undefined %q", t.Name))
		}
		if s.Op == "=" {
			v, c := in.evalCtl(s.X, sc)
			if c != ctlNone {
				return v, c
			}
			cl.v = v
			return NilV{}, ctlNone
		}
		left := cl.v
		right, c := in.evalCtl(s.X, sc)
		if c != ctlNone {
			return right, c
		}
		in.cost(in.sizeOf(left) + in.sizeOf(right))
		nv, err := BinaryOp(binop, left, right)
		if err != nil {
			panic(err)
		}
		cl.v = nv
		return NilV{}, ctlNone
	case *Index:
		var nv Value
		if s.Op == "=" {
			v, c := in.evalCtl(s.X, sc)
			if c != ctlNone {
				return v, c
			}
			nv = v
		} else {
			// compound assignment: the target (container and index) is evaluated once
			cont := in.eval(t.X, sc)
			idx := in.eval(t.I, sc)
			cur := in.getItem(cont, idx)
			right, c := in.evalCtl(s.X, sc)
			if c != ctlNone {
				return right, c
			}
			r, err := BinaryOp(binop, cur, right)
			if err != nil {
				panic(err)
			}
			in.setItem(cont, idx, r)
			return NilV{}, ctlNone
		}
		cont := in.eval(t.X, sc)
		idx := in.eval(t.I, sc)
		in.setItem(cont, idx, nv)
		return NilV{}, ctlNone
	case *Attr:
		var nv Value
		if s.Op == "=" {
			v, c := in.evalCtl(s.X, sc)
			if c != ctlNone {
				return v, c
			}
			nv = v
		} else {
			obj := in.eval(t.X, sc)
			cur := in.getAttr(obj, t.Name)
			right, c := in.evalCtl(s.X, sc)
			if c != ctlNone {
				return right, c
			}
			r, err := BinaryOp(binop, cur, right)
			if err != nil {
				panic(err)
			}
			m, ok := obj.(*Map)
			if !ok {
				panic(typeErr("cannot set attribute on %s", TypeName(obj)))
			}
			m.M[t.Name] = r
			return NilV{}, ctlNone
		}
		obj := in.eval(t.X, sc)
		m, ok := obj.(*Map)
		if !ok {
			panic(typeErr("cannot set attribute on %s", TypeName(obj)))
		}
		m.M[t.Name] = nv
		return NilV{}, ctlNone
	}
	panic("model: bad assignment target")
}

func (in *Interp) execFor(s *For, sc *scope) (Value, ctl) {
	ls := newScope(sc, sc.act)
	body := func() (Value, ctl) {
		bs := newScope(ls, ls.act)
		return in.execBlock(s.Body, bs, false)
	}
	switch s.Kind {
	case "inf":
		for {
			in.step()
			v, c := body()
			if c == ctlBreak {
				break
			}
			if c == ctlReturn {
				return v, ctlReturn
			}
		}
	case "cond":
		for {
			in.step()
			if !Truthy(in.eval(s.Cond, ls)) {
				break
			}
			v, c := body()
			if c == ctlBreak {
				break
			}
			if c == ctlReturn {
				return v, ctlReturn
			}
		}
	case "three":
		if s.Init != nil {
			in.exec(s.Init, ls)
		}
		for {
			in.step()
			if s.Cond != nil && !Truthy(in.eval(s.Cond, ls)) {
				break
			}
			v, c := body()
			if c == ctlBreak {
				break
			}
			if c == ctlReturn {
				return v, ctlReturn
			}
			if s.Post != nil {
				in.exec(s.Post, ls)
			}
		}
	default: // range0, range1, range2, in
		itv := in.eval(s.Iter, sc)
		var keys, vals []Value
		live, isList := itv.(*List)
		if !isList {
			keys, vals = in.iterate(itv)
		}
		for i := 0; ; i++ {
			if isList {
				// the list iterator reads the live list: elements appended during the loop are visited
				if i >= len(live.Items) {
					break
				}
				keys = append(keys[:0], make([]Value, i+1)...)
				vals = append(vals[:0], make([]Value, i+1)...)
				keys[i], vals[i] = int64(i), live.Items[i]
			} else if i >= len(keys) {
				break
			}
			if m, isMap := itv.(*Map); isMap {
				// what a loop over a map yields for a key whose value was replaced (or that was deleted) by an
				// earlier pass of the same loop is not pinned by the statement: undecided
				if k, ok := keys[i].(string); ok {
					if cur, present := m.M[k]; !present || !Equals(cur, vals[i]) {
						in.tag("undecided")
					}
				}
			}
			in.step()
			switch s.Kind {
			case "range1":
				ls.declare(s.K, forSite{s, 0}, keys[i])
			case "range2":
				ls.declare(s.K, forSite{s, 0}, keys[i])
				ls.declare(s.V, forSite{s, 1}, vals[i])
			case "in":
				ls.declare(s.V, forSite{s, 1}, vals[i])
			}
			v, c := body()
			if c == ctlBreak {
				break
			}
			if c == ctlReturn {
				return v, ctlReturn
			}
		}
	}
	return NilV{}, ctlNone
}

type forSite struct {
	s *For
	i int
}

// iterate returns the (key, value) pairs that range yields.
func (in *Interp) iterate(v Value) (keys, vals []Value) {
	switch x := v.(type) {
	case *List:
		// the real iterator reads the live list; the generator never mutates a list while ranging it
		for i, e := range append([]Value{}, x.Items...) {
			keys = append(keys, int64(i))
			vals = append(vals, e)
		}
	case string:
		i := 0
		for _, r := range x {
			keys = append(keys, int64(i))
			vals = append(vals, string(r))
			i++
		}
	case int64:
		// ranging over a huge int is not materialised: it is beyond the step budget anyway
		if x > 4000 {
			in.cost(4001)
		}
		if x < -4000 {
			in.cost(4001)
		}
		for i := int64(0); i < x; i++ {
			keys = append(keys, i)
			vals = append(vals, i)
		}
		// a negative int yields |x| entries: positions 0, 1, 2, … with values 0, -1, -2, …
		for i := int64(0); i < -x; i++ {
			keys = append(keys, i)
			vals = append(vals, -i)
		}
	case *Map:
		ks := make([]string, 0, len(x.M))
		for k := range x.M {
			ks = append(ks, k)
		}
		sort.Strings(ks)
		for _, k := range ks {
			keys = append(keys, k)
			vals = append(vals, x.M[k])
		}
	case *Set:
		for _, e := range x.Sorted() {
			keys = append(keys, e)
			vals = append(vals, true)
		}
	default:
		panic(typeErr("object is not iterable (got %s)", TypeName(v)))
	}
	return
}

// evalCtl evaluates an expression that may contain control flow (if/switch blocks with
// break/continue/return inside).
func (in *Interp) evalCtl(e Expr, sc *scope) (Value, ctl) {
	switch x := e.(type) {
	case *IfExpr:
		return in.evalIf(x, sc)
	case *SwitchExpr:
		return in.evalSwitch(x, sc)
	case *Paren:
		return in.evalCtl(x.X, sc)
	}
	return in.eval(e, sc), ctlNone
}

func (in *Interp) evalIf(x *IfExpr, sc *scope) (Value, ctl) {
	cond := in.eval(x.Cond, sc)
	if Truthy(cond) {
		return in.blockValue(x.Then, sc)
	}
	if x.ElseIf != nil {
		return in.evalIf(x.ElseIf, sc)
	}
	if x.HasElse {
		return in.blockValue(x.Else, sc)
	}
	return NilV{}, ctlNone
}

func (in *Interp) blockValue(stmts []Stmt, sc *scope) (Value, ctl) {
	bs := newScope(sc, sc.act)
	return in.execBlock(stmts, bs, false)
}

func (in *Interp) evalSwitch(x *SwitchExpr, sc *scope) (Value, ctl) {
	subj := in.eval(x.Subject, sc)
	def := -1
	for i, c := range x.Cases {
		if c.Default {
			def = i
			continue
		}
		for _, ve := range c.Values {
			v := in.eval(ve, sc)
			if Equals(subj, v) {
				if len(c.Body) == 0 {
					return NilV{}, ctlNone
				}
				return in.blockValue(c.Body, sc)
			}
		}
	}
	if def >= 0 {
		return in.blockValue(x.Cases[def].Body, sc)
	}
	return NilV{}, ctlNone
}

func (in *Interp) eval(e Expr, sc *scope) Value {
	in.step()
	switch x := e.(type) {
	case *IntLit:
		return x.V
	case *FloatLit:
		return x.V
	case *StrLit:
		return x.V
	case *BoolLit:
		return x.V
	case *NilLit:
		return NilV{}
	case *Paren:
		return in.eval(x.X, sc)
	case *TemplateLit:
		var b strings.Builder
		for _, p := range x.Parts {
			if p.X == nil {
				b.WriteString(p.Text)
				continue
			}
			v := in.eval(p.X, sc)
			switch vv := v.(type) {
			case string:
				b.WriteString(vv)
			case *ErrV:
				if vv.Raised {
					panic(&RErr{Cat: "user", Msg: vv.Msg})
				}
				b.WriteString(vv.Msg)
			default:
				b.WriteString(Inspect(v))
			}
			in.cost(b.Len() / 8) // templates can double a string per evaluation
		}
		return b.String()
	case *Ident:
		if cl, ok := in.cellAt(sc, x.Name, x); ok {
			if _, unset := cl.v.(unsetV); unset {
				// a hoisted function name read before its declaration ran (possible after a failed REPL
				// piece): the implementation holds an uninitialised slot there; not pinned
				in.tag("undecided")
				return NilV{}
			}
			return cl.v
		}
		if in.Host != nil {
			if _, ok := in.Host[x.Name]; ok {
				return &BuiltinV{Name: x.Name}
			}
		}
		if builtinNames[x.Name] {
			return &BuiltinV{Name: x.Name}
		}
		if in.LenientNames {
			// a name whose declaration was skipped by a failed piece: not pinned
			in.tag("undecided")
			return NilV{}
		}
		panic(fmt.Sprintf("model: undefined variable %q", x.Name))
	case *Prefix:
		v := in.eval(x.X, sc)
		if x.Op == "!" {
			return !Truthy(v)
		}
		switch n := v.(type) {
		case int64:
			return -n
		case float64:
			return -n
		}
		panic(typeErr("object is not a number (got %s)", TypeName(v)))
	case *Binary:
		return in.evalBinary(x, sc)
	case *InExpr:
		// pinned rule: operands left to right (the generator keeps at most one side effectful)
		needle := in.eval(x.X, sc)
		cont := in.eval(x.C, sc)
		r := in.contains(cont, needle)
		if x.Not {
			return !r
		}
		return r
	case *Ternary:
		if Truthy(in.eval(x.C, sc)) {
			return in.eval(x.A, sc)
		}
		return in.eval(x.B, sc)
	case *Index:
		c := in.eval(x.X, sc)
		i := in.eval(x.I, sc)
		return in.getItem(c, i)
	case *SliceE:
		c := in.eval(x.X, sc)
		var hi, lo Value
		if x.Hi != nil {
			hi = in.eval(x.Hi, sc)
		}
		if x.Lo != nil {
			lo = in.eval(x.Lo, sc)
		}
		return in.getSlice(c, lo, hi)
	case *Attr:
		obj := in.eval(x.X, sc)
		return in.getAttr(obj, x.Name)
	case *MethodCall:
		recv := in.eval(x.X, sc)
		m := in.getAttr(recv, x.Name)
		args := make([]Value, len(x.Args))
		for i, a := range x.Args {
			args[i] = in.eval(a, sc)
		}
		return in.call(m, args)
	case *Call:
		f := in.eval(x.F, sc)
		args := make([]Value, len(x.Args))
		for i, a := range x.Args {
			args[i] = in.eval(a, sc)
		}
		return in.call(f, args)
	case *ListLit:
		items := make([]Value, len(x.Items))
		for i, it := range x.Items {
			items[i] = in.eval(it, sc)
		}
		return &List{Items: items}
	case *MapLit:
		m := &Map{M: map[string]Value{}}
		vals := make([]Value, len(x.Vals))
		for i := range x.Keys {
			vals[i] = in.eval(x.Vals[i], sc)
		}
		// the first of duplicate keys wins (entries are stored from the last to the first)
		for i := len(x.Keys) - 1; i >= 0; i-- {
			m.M[x.Keys[i]] = vals[i]
		}
		return m
	case *SetLit:
		s := &Set{Items: map[setKey]Value{}}
		vals := make([]Value, len(x.Items))
		for i, it := range x.Items {
			vals[i] = in.eval(it, sc)
		}
		for i := len(vals) - 1; i >= 0; i-- {
			k, ok := hashKey(vals[i])
			if !ok {
				in.tag("undecided") // set literal with an unhashable member: not pinned
				return NilV{}
			}
			s.Items[k] = vals[i]
		}
		return s
	case *FuncLit:
		in.checkDeepCapture(x, sc)
		return &Closure{Fn: x, Env: sc}
	case *IfExpr:
		v, c := in.evalIf(x, sc)
		if c != ctlNone {
			// control flow escaping from an expression position is not generated
			in.tag("undecided")
		}
		return v
	case *SwitchExpr:
		v, c := in.evalSwitch(x, sc)
		if c != ctlNone {
			in.tag("undecided")
		}
		return v
	case *Pipe:
		v := in.eval(x.Stages[0], sc)
		for _, st := range x.Stages[1:] {
			var f Value
			switch s := st.(type) {
			case *Call:
				fn := in.eval(s.F, sc)
				args := make([]Value, len(s.Args))
				for i, a := range s.Args {
					args[i] = in.eval(a, sc)
				}
				f = &Partial{F: fn, Args: args}
			case *MethodCall:
				recv := in.eval(s.X, sc)
				fn := in.getAttr(recv, s.Name)
				args := make([]Value, len(s.Args))
				for i, a := range s.Args {
					args[i] = in.eval(a, sc)
				}
				f = &Partial{F: fn, Args: args}
			default:
				f = in.eval(st, sc)
			}
			v = in.call(f, []Value{v})
		}
		return v
	}
	panic(fmt.Sprintf("model: unknown expression %T", e))
}

func (in *Interp) evalBinary(x *Binary, sc *scope) Value {
	switch x.Op {
	case "&&":
		l := in.eval(x.L, sc)
		if !Truthy(l) {
			return l
		}
		return in.eval(x.R, sc)
	case "||":
		l := in.eval(x.L, sc)
		if Truthy(l) {
			return l
		}
		return in.eval(x.R, sc)
	}
	l := in.eval(x.L, sc)
	r := in.eval(x.R, sc)
	in.cost(in.sizeOf(l))
	switch x.Op {
	case "==":
		return Equals(l, r)
	case "!=":
		return !Equals(l, r)
	case "<", "<=", ">", ">=":
		c, err := Compare(l, r)
		if err != nil {
			panic(err)
		}
		switch x.Op {
		case "<":
			return c < 0
		case "<=":
			return c <= 0
		case ">":
			return c > 0
		default:
			return c >= 0
		}
	}
	in.cost(in.sizeOf(l) + in.sizeOf(r))
	v, err := BinaryOp(x.Op, l, r)
	if err != nil {
		panic(err)
	}
	return v
}

func (in *Interp) contains(cont, needle Value) bool {
	switch c := cont.(type) {
	case *List:
		for _, e := range c.Items {
			if Equals(e, needle) {
				return true
			}
		}
		return false
	case *Map:
		k, ok := needle.(string)
		if !ok {
			return false
		}
		_, found := c.M[k]
		return found
	case *Set:
		k, ok := hashKey(needle)
		if !ok {
			return false
		}
		_, found := c.Items[k]
		return found
	case string:
		s, ok := needle.(string)
		if !ok {
			return false
		}
		return strings.Contains(c, s)
	}
	panic(typeErr("object is not a container (got %s)", TypeName(cont)))
}

func resolveIndex(idx, size int64) (int64, *RErr) {
	if idx > size-1 {
		return 0, &RErr{Cat: "index error", Msg: "index out of range"}
	}
	if idx >= 0 {
		return idx, nil
	}
	r := idx + size
	if r < 0 || r > size-1 {
		return 0, &RErr{Cat: "index error", Msg: "index out of range"}
	}
	return r, nil
}

func (in *Interp) getItem(c, i Value) Value {
	switch x := c.(type) {
	case *List:
		n, ok := i.(int64)
		if !ok {
			panic(typeErr("list index must be an int (got %s)", TypeName(i)))
		}
		idx, err := resolveIndex(n, int64(len(x.Items)))
		if err != nil {
			panic(err)
		}
		return x.Items[idx]
	case string:
		n, ok := i.(int64)
		if !ok {
			panic(typeErr("string index must be an int (got %s)", TypeName(i)))
		}
		runes := []rune(x)
		idx, err := resolveIndex(n, int64(len(runes)))
		if err != nil {
			panic(err)
		}
		return string(runes[idx])
	case *Map:
		k, ok := i.(string)
		if !ok {
			panic(typeErr("map key must be a string (got %s)", TypeName(i)))
		}
		v, found := x.M[k]
		if !found {
			panic(&RErr{Cat: "key error", Msg: "key not found"})
		}
		return v
	case *Set:
		// set[x] semantics are not pinned
		in.tag("undecided")
		return NilV{}
	}
	panic(typeErr("object is not a container (got %s)", TypeName(c)))
}

func (in *Interp) setItem(c, i, v Value) {
	switch x := c.(type) {
	case *List:
		n, ok := i.(int64)
		if !ok {
			panic(typeErr("list index must be an int (got %s)", TypeName(i)))
		}
		idx, err := resolveIndex(n, int64(len(x.Items)))
		if err != nil {
			panic(err)
		}
		x.Items[idx] = v
		return
	case *Map:
		k, ok := i.(string)
		if !ok {
			panic(typeErr("map key must be a string (got %s)", TypeName(i)))
		}
		x.M[k] = v
		return
	case string:
		panic(typeErr("set item is unsupported for string"))
	case *Set:
		in.tag("undecided")
		return
	}
	panic(typeErr("object is not a container (got %s)", TypeName(c)))
}

func (in *Interp) getSlice(c, lo, hi Value) Value {
	var size int64
	var runes []rune
	switch x := c.(type) {
	case *List:
		size = int64(len(x.Items))
	case string:
		runes = []rune(x)
		size = int64(len(runes))
	case *Map, *Set:
		in.tag("undecided")
		return NilV{}
	default:
		panic(typeErr("object is not a container (got %s)", TypeName(c)))
	}
	var start, stop int64
	// the real code receives stop = len(container) when omitted and start = 0 when omitted
	if lo != nil {
		n, ok := lo.(int64)
		if !ok {
			panic(typeErr("slice start index must be an int (got %s)", TypeName(lo)))
		}
		start = n
	}
	if hi != nil {
		n, ok := hi.(int64)
		if !ok {
			panic(typeErr("slice stop index must be an int (got %s)", TypeName(hi)))
		}
		stop = n
	} else {
		stop = size
	}
	serr := func() { panic(&RErr{Cat: "slice error", Msg: "slice out of range"}) }
	if start < 0 {
		start += size
		if start < 0 {
			serr()
		}
	}
	if stop < 0 {
		stop += size
		if stop < 0 {
			serr()
		}
	}
	if start > stop {
		serr()
	}
	if start > size-1 {
		// a slice starting exactly at len (incl. any slice of an empty container): the statement
		// does not say whether that is empty or an error
		if start == size {
			in.tag("undecided")
			return NilV{}
		}
		serr()
	}
	if stop > size {
		serr()
	}
	if runes != nil || size == 0 {
		if _, isStr := c.(string); isStr {
			return string(runes[start:stop])
		}
	}
	l := c.(*List)
	return &List{Items: append([]Value{}, l.Items[start:stop]...)}
}

func (in *Interp) getAttr(obj Value, name string) Value {
	switch x := obj.(type) {
	case *Map:
		if v, ok := x.M[name]; ok {
			return v
		}
		switch name {
		case "keys", "values", "get", "clear", "copy", "items", "pop", "setdefault", "update":
			return &BoundMethod{Recv: obj, Name: name}
		}
	case *List:
		switch name {
		case "append", "clear", "copy", "count", "extend", "index", "insert", "pop", "remove", "reverse", "sort", "map", "filter", "each":
			return &BoundMethod{Recv: obj, Name: name}
		}
	case *Set:
		switch name {
		case "add", "clear", "remove", "union", "intersection":
			return &BoundMethod{Recv: obj, Name: name}
		}
	case string:
		switch name {
		case "contains", "has_prefix", "has_suffix", "count", "join", "split", "fields", "index", "last_index", "replace_all", "to_lower", "to_upper", "trim", "trim_prefix", "trim_space", "trim_suffix":
			return &BoundMethod{Recv: obj, Name: name}
		}
	case *ErrV:
		switch name {
		case "error", "message":
			return &BoundMethod{Recv: obj, Name: name}
		}
	case *Closure:
		if name == "spawn" {
			return &BoundMethod{Recv: obj, Name: name}
		}
	case *ThreadV:
		if name == "wait" {
			return &BoundMethod{Recv: obj, Name: name}
		}
	}
	panic(typeErr("attribute %q not found on %s object", name, TypeName(obj)))
}

func (in *Interp) call(f Value, args []Value) Value {
	in.step()
	for _, a := range args {
		in.cost(in.sizeOf(a))
	}
	if bm, ok := f.(*BoundMethod); ok {
		in.cost(in.sizeOf(bm.Recv))
	}
	switch fn := f.(type) {
	case *Closure:
		return in.callClosure(fn, args)
	case *BuiltinV:
		return in.callBuiltin(fn.Name, args)
	case *BoundMethod:
		return in.callMethod(fn, args)
	case *Partial:
		all := append(append([]Value{}, args...), fn.Args...)
		return in.call(fn.F, all)
	}
	panic(typeErr("object is not callable (got %s)", TypeName(f)))
}

func requiredCount(fn *FuncLit) int {
	n := 0
	for _, p := range fn.Params {
		if p.Default == nil {
			n++
		}
	}
	return n
}

func (in *Interp) callClosure(clo *Closure, args []Value) (result Value) {
	fn := clo.Fn
	if len(args) > len(fn.Params) || len(args) < requiredCount(fn) {
		panic(&RErr{Cat: "args error", Msg: "wrong argument count", Fatal: true})
	}
	in.depth++
	if in.depth > in.MaxDepth {
		// deep recursion: the real VM has its own limits; not modelled
		in.Over = true
		panic(budgetExceeded{})
	}
	defer func() { in.depth-- }()
	act := &activation{cells: map[any]*cell{}, fn: clo, level: clo.Env.act.level + 1}
	in.frames = append(in.frames, act)
	framePopped := false
	popFrame := func() {
		if !framePopped {
			framePopped = true
			in.frames = in.frames[:len(in.frames)-1]
		}
	}
	defer popFrame()
	fs := newScope(clo.Env, act)
	for i, p := range fn.Params {
		var v Value
		if i < len(args) {
			v = args[i]
		} else {
			v = in.eval(p.Default, fs)
		}
		fs.declare(p.Name, paramKey{fn, p.Name}, v)
	}
	if fn.Name != "" {
		fs.declare(fn.Name, paramKey{fn, "\x00self"}, clo)
		fs.consts[fn.Name] = true
	}
	bs := newScope(fs, act)
	var rerr *RErr
	func() {
		defer func() {
			if r := recover(); r != nil {
				if e, ok := r.(*RErr); ok {
					rerr = e
					return
				}
				panic(r)
			}
		}()
		v, c := in.execFuncBody(fn.Body, bs)
		_ = c
		result = v
	}()
	// deferred calls run LIFO, also when the body failed; a failing deferred call replaces the outcome.
	// (After a normal return the VM has already left the callee's frame when they run; after a failure
	// it has not.)
	if rerr == nil {
		popFrame()
	}
	for di, p := range act.defers {
		func() {
			defer func() {
				if r := recover(); r != nil {
					if e, ok := r.(*RErr); ok {
						if e.Cat == "panic" && di < len(act.defers)-1 {
							// a Go panic (integer division by zero) out of a deferred call: the VM's loop over
							// the remaining deferred calls of this frame is abandoned, which the statement
							// does not pin either way
							in.tag("undecided")
						}
						if rerr != nil && rerr.Cat == "panic" && e.Cat != "panic" {
							// a deferred call failing while a Go panic (integer division by zero) unwinds:
							// which of the two the caller sees is not pinned by the statement
							in.tag("undecided")
						}
						rerr = e
						result = nil
						return
					}
					panic(r)
				}
			}()
			in.call(p.F, p.Args)
		}()
	}
	if rerr != nil {
		panic(rerr)
	}
	return result
}

// execFuncBody: statements up to the first top-level return; implicit return of the last
// expression statement's value.
func (in *Interp) execFuncBody(stmts []Stmt, sc *scope) (Value, ctl) {
	var last Value = NilV{}
	for i, st := range stmts {
		v, c := in.exec(st, sc)
		switch c {
		case ctlReturn:
			return v, ctlNone
		case ctlBreak, ctlContinue:
			panic("model: break/continue escaped a function body")
		}
		if i == len(stmts)-1 {
			switch s := st.(type) {
			case *ExprStmt:
				last = v
			case *FuncDecl:
				// a named function declaration as the last statement is returned (it is an expression
				// node for the implicit return)
				cl, _ := sc.cellOf(s.F.Name)
				last = cl.v
			default:
				last = NilV{}
			}
		}
	}
	return last, ctlNone
}

func (in *Interp) Print(args []Value) {
	ifs := make([]any, len(args))
	for i, a := range args {
		ifs[i] = PrintArg(a)
	}
	in.out.WriteString(fmt.Sprintln(ifs...))
}

// Globals returns the typed rendering of every global variable of the current environment.
func (in *Interp) Globals() map[string]string {
	res := map[string]string{}
	if in.root == nil {
		return res
	}
	for name, site := range in.root.names {
		if c := in.globals.cells[site]; c != nil && c.v != nil {
			res[name] = Render(c.v)
		}
	}
	return res
}

// checkDeepCapture sets the dynamic tag "deep-capture-off-stack" when creating this closure needs a
// variable that lives two or more function levels up while the frame that many positions back on the
// call stack is not the activation that owns the variable (recorded finding D1: the implementation
// takes the cell from the call stack, not from the lexical environment).
func (in *Interp) checkDeepCapture(fl *FuncLit, sc *scope) {
	newLevel := sc.act.level + 1
	if newLevel < 2 {
		return
	}
	for _, name := range FreeNames(fl) {
		dsc, _, ok := in.lookupAt(sc, name, fl)
		if !ok || dsc.act == in.globals {
			continue
		}
		d := newLevel - dsc.act.level
		if d < 2 {
			continue
		}
		in.tag("deep-capture")
		idx := len(in.frames) - 1 - (d - 1)
		if idx < 0 || in.frames[idx] != dsc.act {
			in.tag("deep-capture-off-stack")
		}
	}
}

// CallValue calls a function value from the host after the program has run (vm.Call).
func (in *Interp) CallValue(f Value, args []Value) (res Value, rerr *RErr, ok bool) {
	defer func() {
		if r := recover(); r != nil {
			switch e := r.(type) {
			case *RErr:
				rerr = e
				ok = true
			case budgetExceeded:
				in.Over = true
				ok = false
			default:
				panic(r)
			}
		}
	}()
	res = in.call(f, args)
	return res, nil, !in.Tags["undecided"]
}

// GlobalValue returns the current value of a global variable.
func (in *Interp) GlobalValue(name string) (Value, bool) {
	if in.root == nil {
		return nil, false
	}
	site, ok := in.root.names[name]
	if !ok {
		return nil, false
	}
	c := in.globals.cells[site]
	if c == nil {
		return nil, false
	}
	return c.v, true
}

// WithFreshStack runs f as a spawned goroutine's VM would: on a call stack of its own.
func (in *Interp) WithFreshStack(f func()) {
	saved := in.frames
	in.frames = []*activation{{cells: map[any]*cell{}, level: -1}}
	defer func() { in.frames = saved }()
	f()
}

// spawn models spawn(f, args...): the call runs to completion on a call stack of its own.
func (in *Interp) spawn(f Value, args []Value) *ThreadV {
	t := &ThreadV{}
	if _, ok := f.(*Closure); !ok {
		in.tag("undecided")
		return t
	}
	in.WithFreshStack(func() {
		defer func() {
			if r := recover(); r != nil {
				if e, ok := r.(*RErr); ok && e.Cat != "panic" {
					t.Err = e
					return
				}
				if e, ok := r.(*RErr); ok && e.Cat == "panic" {
					// a Go panic inside a spawned goroutine: recovered there; what wait() then yields is not pinned
					in.tag("undecided")
					t.Err = e
					return
				}
				panic(r)
			}
		}()
		t.Res = in.call(f, args)
	})
	return t
}

// number assigns compile-order numbers to identifier uses and declaration sites of more statements.
// The order follows the compiler: an initialiser is compiled before its variable is declared; the
// target name of an assignment is resolved before its value is compiled; range variables are declared
// after the iterable and before the body; a nested named function's name is declared in the enclosing
// scope after its body (inside the body its own name is a local of the function).
func (in *Interp) number(stmts []Stmt) {
	next := func() int { in.orderN++; return in.orderN }
	var ws func(s Stmt)
	var we func(e Expr)
	wl := func(l []Stmt) {
		for _, s := range l {
			ws(s)
		}
	}
	fn := func(f *FuncLit) {
		// the literal as a whole is a "use" for the deep-capture check: everything declared before it is visible
		in.useOrder[f] = next()
		for _, p := range f.Params {
			in.declOrder[paramKey{f, p.Name}] = next()
			if p.Default != nil {
				we(p.Default)
			}
		}
		if f.Name != "" {
			in.declOrder[paramKey{f, "\x00self"}] = next()
		}
		wl(f.Body)
		// free-variable uses inside nested literals were numbered above; the deep-capture check looks names
		// up as of the END of the literal's own text, so that names used anywhere inside it resolve
		in.useOrder[f] = next()
	}
	we = func(e Expr) {
		switch x := e.(type) {
		case nil:
		case *Ident:
			in.useOrder[x] = next()
		case *TemplateLit:
			for _, p := range x.Parts {
				if p.X != nil {
					we(p.X)
				}
			}
		case *Prefix:
			we(x.X)
		case *Paren:
			we(x.X)
		case *Binary:
			we(x.L)
			we(x.R)
		case *InExpr:
			we(x.X)
			we(x.C)
		case *Ternary:
			we(x.C)
			we(x.A)
			we(x.B)
		case *Index:
			we(x.X)
			we(x.I)
		case *SliceE:
			we(x.X)
			we(x.Hi)
			we(x.Lo)
		case *Attr:
			we(x.X)
		case *MethodCall:
			we(x.X)
			for _, a := range x.Args {
				we(a)
			}
		case *Call:
			we(x.F)
			for _, a := range x.Args {
				we(a)
			}
		case *ListLit:
			for _, a := range x.Items {
				we(a)
			}
		case *MapLit:
			for _, a := range x.Vals {
				we(a)
			}
		case *SetLit:
			for _, a := range x.Items {
				we(a)
			}
		case *FuncLit:
			fn(x)
		case *IfExpr:
			we(x.Cond)
			wl(x.Then)
			if x.ElseIf != nil {
				we(x.ElseIf)
			}
			wl(x.Else)
		case *SwitchExpr:
			we(x.Subject)
			// all case expressions are compiled before any case body
			for _, c := range x.Cases {
				for _, v := range c.Values {
					we(v)
				}
			}
			for _, c := range x.Cases {
				if !c.Default {
					wl(c.Body)
				}
			}
			for _, c := range x.Cases {
				if c.Default {
					wl(c.Body)
				}
			}
		case *Pipe:
			for _, s := range x.Stages {
				we(s)
			}
		}
	}
	ws = func(s Stmt) {
		switch x := s.(type) {
		case *ExprStmt:
			we(x.X)
		case *VarDecl:
			we(x.X)
			in.declOrder[x] = next()
		case *MultiDecl:
			we(x.X)
			for i := len(x.Names) - 1; i >= 0; i-- {
				if x.Decl {
					in.declOrder[multiSite{x, i}] = next()
				} else {
					in.useOrder[multiSite{x, i}] = next()
				}
			}
		case *Assign:
			switch t := x.Target.(type) {
			case *Ident:
				in.useOrder[t] = next()
				we(x.X)
			default:
				// index / attribute targets: compound forms read the target first, plain forms compile the value first
				if x.Op != "=" {
					we(x.Target)
					we(x.X)
				} else {
					we(x.X)
				}
				we(x.Target)
			}
		case *IncDec:
			in.useOrder[x] = next()
		case *FuncDecl:
			fn(x.F)
			if _, hoisted := in.declOrder[x]; !hoisted {
				in.declOrder[x] = next()
			}
		case *Return:
			we(x.X)
		case *For:
			switch x.Kind {
			case "three":
				if x.Init != nil {
					ws(x.Init)
				}
				we(x.Cond)
				wl(x.Body)
				if x.Post != nil {
					ws(x.Post)
				}
			case "cond":
				we(x.Cond)
				wl(x.Body)
			case "inf":
				wl(x.Body)
			default:
				we(x.Iter)
				if x.K != "" {
					in.declOrder[forSite{x, 0}] = next()
				}
				if x.V != "" {
					in.declOrder[forSite{x, 1}] = next()
				}
				wl(x.Body)
			}
		case *Defer:
			we(x.Call)
		}
	}
	// top-level function declarations of this piece are hoisted before anything is compiled
	for _, s := range stmts {
		if fd, ok := s.(*FuncDecl); ok {
			if _, exists := in.declOrder[fd]; !exists {
				in.declOrder[fd] = -1
			}
		}
	}
	wl(stmts)
}
