package main

import (
	"context"
	"fmt"
	"io"
	"os"
	"runtime"
	"time"

	"github.com/risor-io/risor"
	"github.com/risor-io/risor/object"
)

func main() {
	b, _ := io.ReadAll(os.Stdin)
	ctx, cancel := context.WithTimeout(context.Background(), 10*time.Second)
	defer cancel()
	yield := object.NewBuiltin("yield", func(ctx context.Context, args ...object.Object) object.Object {
		runtime.Gosched()
		return object.Nil
	})
	res, err := risor.Eval(ctx, string(b), risor.WithConcurrency(), risor.WithGlobal("yield", yield))
	if err != nil {
		fmt.Println("ERR:", err)
		os.Exit(1)
	}
	fmt.Println(res.Inspect())
}
