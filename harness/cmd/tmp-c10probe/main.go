package main

import (
	"fmt"
	"os"
	"strconv"

	"verif/internal/props/c10"
)

func main() {
	seed, _ := strconv.Atoi(os.Args[1])
	lo, _ := strconv.Atoi(os.Args[2])
	hi, _ := strconv.Atoi(os.Args[3])
	show := len(os.Args) > 4
	for i := lo; i < hi; i++ {
		src, out := c10.DebugRun(uint64(seed), i, false, 1)
		if show {
			fmt.Println(src)
		}
		for _, o := range out {
			fmt.Println(i, o)
		}
	}
}
