// vshow is a development tool: print program i of an engine batch (the programs C01/C17/C18/C20/C04/C05 share).
package main

import (
	"flag"
	"fmt"

	"verif/internal/eng"
	"verif/internal/gen"
)

func main() {
	seed := flag.Uint64("seed", 1, "batch seed")
	i := flag.Int("i", 0, "program index")
	mix := flag.Int("mix", -1, "mix")
	size := flag.Int("size", 0, "size")
	model := flag.Bool("model", false, "also run the reference interpreter")
	flag.Parse()
	b := eng.Batch{Seed: *seed, From: *i, N: 1, Size: *size, Mix: *mix}
	p, _ := b.Program(*i)
	fmt.Print(gen.RenderProgram(p))
	if *model {
		w, steps, ok, err := eng.Model(p)
		fmt.Printf("--- model: ok=%v err=%v steps=%d outcome=%+v\n", ok, err, steps, w)
	}
}
