package main

import (
	"context"
	"fmt"
	"os"
	"runtime/debug"
	"strconv"
	"time"

	"github.com/risor-io/risor"
	ros "github.com/risor-io/risor/os"
)

func main() {
	if len(os.Args) > 2 {
		n, _ := strconv.Atoi(os.Args[2])
		if n > 0 {
			debug.SetMaxStack(n << 20)
		}
	}
	ctx, cancel := context.WithTimeout(context.Background(), 10*time.Second)
	defer cancel()
	vos := ros.NewVirtualOS(ctx)
	t0 := time.Now()
	res, err := risor.Eval(ctx, os.Args[1], risor.WithOS(vos), risor.WithConcurrency())
	fmt.Println("took", time.Since(t0))
	if err != nil {
		fmt.Println("ERR:", err)
		os.Exit(1)
	}
	s := res.Inspect()
	if len(s) > 200 {
		s = s[:200]
	}
	fmt.Println(s)
}
