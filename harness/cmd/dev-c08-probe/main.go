package main

import (
	"context"
	"errors"
	"fmt"
	"time"

	"github.com/risor-io/risor"
	"github.com/risor-io/risor/object"
)

type Inner struct{ X int8 }
type S struct {
	D   time.Duration
	T   time.Time
	E   error
	A   any
	I   Inner
	P   *Inner
	U8  uint8
	I8  int8
	Sl  []int8
	F32 float32
}

func (s *S) TakeVar(a string, rest ...int) int { return len(rest) }
func (s *S) TakeI8(a int8) int8               { return a }
func (s *S) RetErr() error                     { return errors.New("boom") }
func (s *S) RetAny() any                       { return s.D }

func try(name, src string, opts ...risor.Option) {
	defer func() {
		if r := recover(); r != nil {
			fmt.Printf("%-28s PANIC %v\n", name, r)
		}
	}()
	opts = append(opts, risor.WithoutDefaultGlobals())
	res, err := risor.Eval(context.Background(), src, opts...)
	if err != nil {
		fmt.Printf("%-28s ERR %v\n", name, err)
		return
	}
	fmt.Printf("%-28s OK %s %s iface=%#v\n", name, res.Type(), res.Inspect(), res.Interface())
}

func main() {
	s := &S{D: time.Second, E: errors.New("e1"), A: int8(3), P: &Inner{4}, T: time.Unix(5, 0)}
	g := risor.WithGlobal("s", s)
	try("global dur", "x", risor.WithGlobal("x", time.Second))
	try("global nil", "x", risor.WithGlobal("x", nil))
	try("global u64", "x", risor.WithGlobal("x", uint64(1<<63+5)))
	try("global chan", "x", risor.WithGlobal("x", make(chan int)))
	try("global err", "x", risor.WithGlobal("x", errors.New("zz")))
	try("global struct", "x", risor.WithGlobal("x", Inner{3}))
	try("global []int8", "x", risor.WithGlobal("x", []int8{1, 2}))
	try("global *int", "x", risor.WithGlobal("x", new(int)))
	try("global nil *int", "x", risor.WithGlobal("x", (*int)(nil)))
	try("global nil *Inner", "x", risor.WithGlobal("x", (*Inner)(nil)))
	try("global u8", "x", risor.WithGlobal("x", uint8(200)))
	try("global time", "x", risor.WithGlobal("x", time.Unix(5, 0)))
	try("field D", "s.D", g)
	try("field T", "s.T", g)
	try("field E", "s.E", g)
	try("field E nil", "s.E", risor.WithGlobal("s", &S{}))
	try("field A", "s.A", g)
	try("field A nil", "s.A", risor.WithGlobal("s", &S{}))
	try("field I", "s.I", g)
	try("field I.X", "s.I.X", g)
	try("field P", "s.P", g)
	try("field U8", "s.U8", g)
	try("set I8 300", "s.I8 = 300; s.I8", g)
	try("set D", "s.D = 5; s.D", g)
	try("set Sl", "s.Sl = [1,2,300]; s.Sl", g)
	try("set F32", "s.F32 = 0.1; s.F32", g)
	try("set A", "s.A = [1,2]; s.A", g)
	try("set I.X", "s.I.X = 7; s.I.X", g)
	try("set P nil", "s.P = nil; s.P", g)
	try("set E str", "s.E = 'abc'; s.E", g)
	try("TakeVar list", "s.TakeVar('a', [1,2])", g)
	try("TakeVar spread", "s.TakeVar('a', 1, 2)", g)
	try("TakeVar none", "s.TakeVar('a')", g)
	try("TakeI8 300", "s.TakeI8(300)", g)
	try("TakeI8 1.5", "s.TakeI8(1.5)", g)
	try("TakeI8 too many", "s.TakeI8(1, 2)", g)
	try("RetErr", "s.RetErr()", g)
	try("RetAny", "s.RetAny()", g)
	fmt.Println(s.I8, s.D, s.Sl, s.F32, s.A, s.I.X)
	_ = object.Nil
}
