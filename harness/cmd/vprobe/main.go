// vprobe evaluates a risor source (argument or stdin) against /repo and prints the outcome.
package main

import (
	"context"
	"fmt"
	"io"
	"os"

	"github.com/risor-io/risor"
)

func main() {
	var src string
	if len(os.Args) > 1 {
		src = os.Args[1]
	} else {
		b, _ := io.ReadAll(os.Stdin)
		src = string(b)
	}
	res, err := risor.Eval(context.Background(), src)
	if err != nil {
		fmt.Println("ERR:", err)
		os.Exit(1)
	}
	fmt.Println(res.Inspect())
}
