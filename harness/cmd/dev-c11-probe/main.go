package main

import (
	"context"
	"fmt"

	"github.com/risor-io/risor"
	"github.com/risor-io/risor/object"
	ros "github.com/risor-io/risor/os"
)

func ev(src string, opts ...risor.Option) {
	ctx := context.Background()
	opts = append(opts, risor.WithOS(ros.NewVirtualOS(ctx)), risor.WithConcurrency())
	r, err := risor.Eval(ctx, src, opts...)
	if err != nil {
		fmt.Printf("%-60q ERR %v\n", src, err)
		return
	}
	fmt.Printf("%-60q OK %T %s\n", src, r, r.Inspect())
}

func nested() map[string]any {
	f := object.NewBuiltin("f", func(ctx context.Context, args ...object.Object) object.Object { return object.NewString("F-CALLED") })
	c := object.NewBuiltinsModule("c", map[string]object.Object{"f": f})
	b := object.NewBuiltinsModule("b", map[string]object.Object{"c": c, "g": object.NewString("g")})
	a := object.NewBuiltinsModule("a", map[string]object.Object{"b": b})
	return map[string]any{"a": a}
}

func main() {
	ev(`x := os.getenv; x`)
	ev(`x := os.getenv; x`, risor.WithoutGlobal("os.getenv"))
	ev(`import os; os.getenv`, risor.WithoutGlobal("os"))
	ev(`import os`, risor.WithoutGlobal("os"))
	ev(`from os import getenv; getenv`, risor.WithoutGlobal("os.getenv"))
	ev(`from os import getenv as zz; zz`)
	ev(`getattr(os, "getenv")`, risor.WithoutGlobal("os.getenv"))
	ev(`os.exit.__module__.getenv`)
	ev(`os.exit.__module__.getenv`, risor.WithoutGlobal("os.getenv"))
	ev(`try(func(){ return os.getenv }, "FB")`, risor.WithoutGlobal("os.getenv"))
	ev(`try(func(){ return os.getenv }, "FB")`)
	ev(`spawn(func(){ return os.getenv }).wait()`)
	ev(`spawn(func(){ return os.getenv }).wait()`, risor.WithoutGlobal("os.getenv"))
	ev(`func f(){ return os.err_closed }; f()`)
	ev(`try(func(){ return os.err_closed }, "FB")`)
	ev(`spawn(func(){ return os.err_closed }).wait()`)
	ev(`os.stdout`)
	ev(`getattr(os, "stdout")`)
	ev(`from os import stdout; stdout`)
	ev(`os.getenv`, risor.WithGlobalOverride("os.getenv", object.NewString("SENT")))
	ev(`import os; os`, risor.WithGlobalOverride("os", object.NewString("SENT")))
	ev(`os`, risor.WithGlobalOverride("os", object.NewString("SENT")))
	ev(`os`, risor.WithoutDefaultGlobals())
	ev(`import os`, risor.WithoutDefaultGlobals())
	ev(`1`, risor.WithoutDefaultGlobals())
	fmt.Println("--- nested")
	ev(`a.b.c.f`, risor.WithoutDefaultGlobals(), risor.WithGlobals(nested()))
	ev(`a.b.c.f`, risor.WithoutDefaultGlobals(), risor.WithGlobals(nested()), risor.WithoutGlobal("a.b.c.f"))
	ev(`a.b.c`, risor.WithoutDefaultGlobals(), risor.WithGlobals(nested()), risor.WithoutGlobal("a.b.c"))
	ev(`a.b.g`, risor.WithoutDefaultGlobals(), risor.WithGlobals(nested()), risor.WithoutGlobal("a.b.g"))
	ev(`a.b.c.f`, risor.WithoutDefaultGlobals(), risor.WithGlobals(nested()), risor.WithGlobalOverride("a.b.c.f", "SENT"))
	ev(`a.b.g`, risor.WithoutDefaultGlobals(), risor.WithGlobals(nested()), risor.WithGlobalOverride("a.b.g", "SENT"))
}
