// vcheck is the driver and the worker of every /verif check.
//
//	vcheck drive <ID> <quick|thorough>      run the check (VERIF_SEED picks the case list)
//	vcheck replay <ID> <file>               re-run the case stored in a replay file
//	vcheck worker <ID> <in> <out> <log>     (internal) execute a batch of cases
package main

import (
	"fmt"
	"os"
	"strconv"

	"verif/internal/mon"
	"verif/internal/props"
)

func main() {
	if len(os.Args) < 3 {
		fmt.Fprintln(os.Stderr, "usage: vcheck drive|replay|worker <ID> ...")
		os.Exit(2)
	}
	props.RegisterAll()
	switch os.Args[1] {
	case "worker":
		os.Exit(mon.WorkerMain(os.Args[2:]))
	case "drive", "replay":
		id := os.Args[2]
		p := mon.Lookup(id)
		if p == nil {
			fmt.Fprintln(os.Stderr, "unknown property", id)
			os.Exit(2)
		}
		tier := os.Getenv("VERIF_TIER")
		replay := ""
		if os.Args[1] == "replay" {
			if len(os.Args) < 4 {
				fmt.Fprintln(os.Stderr, "usage: vcheck replay <ID> <file>")
				os.Exit(2)
			}
			replay = os.Args[3]
			if tier == "" {
				tier = "quick"
			}
		} else if len(os.Args) > 3 {
			tier = os.Args[3]
		}
		if tier != "thorough" {
			tier = "quick"
		}
		seed := int64(1)
		if s := os.Getenv("VERIF_SEED"); s != "" {
			if v, err := strconv.ParseInt(s, 10, 64); err == nil {
				seed = v
			}
		}
		verifDir := os.Getenv("VERIF_DIR")
		if verifDir == "" {
			verifDir = "/verif"
		}
		d, err := mon.NewDriver(id, tier, seed, verifDir)
		if err != nil {
			fmt.Fprintln(os.Stderr, err)
			os.Exit(2)
		}
		d.IsReplay = replay != ""
		os.Exit(p.Drive(d, replay))
	default:
		fmt.Fprintln(os.Stderr, "unknown mode", os.Args[1])
		os.Exit(2)
	}
}
