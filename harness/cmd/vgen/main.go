// vgen is a development tool: generate programs, run model and real implementation, show disagreements.
package main

import (
	"flag"
	"fmt"
	"os"
	"sort"

	"verif/internal/gen"
	"verif/internal/mon"
	"verif/internal/rz"
)

func main() {
	seed := flag.Uint64("seed", 1, "seed")
	n := flag.Int("n", 100, "programs")
	size := flag.Int("size", 60, "size budget")
	mix := flag.Int("mix", -1, "mix (-1 = rotate)")
	show := flag.Int("show", 3, "disagreements to show")
	dump := flag.Bool("dump", false, "print every program")
	flag.Parse()
	base := mon.NewRand(*seed)
	stats := map[string]int{}
	feats := map[string]int{}
	shown := 0
	for i := 0; i < *n; i++ {
		r := base.SplitN(i)
		m := gen.Mix(i % 4)
		if *mix >= 0 {
			m = gen.Mix(*mix)
		}
		g := gen.NewGen(r, m)
		p := g.Program(*size)
		src := gen.RenderProgram(p)
		if *dump {
			fmt.Printf("--- #%d\n%s", i, src)
		}
		in := gen.NewInterp()
		var want gen.Outcome
		var ok bool
		func() {
			defer func() {
				if rec := recover(); rec != nil {
					fmt.Printf("MODEL PANIC #%d: %v\n%s\n", i, rec, src)
					stats["model-panic"]++
					ok = false
				}
			}()
			want, ok = in.Run(p)
		}()
		if !ok {
			stats["discarded"]++
			continue
		}
		var names []string
		for k := range want.Globals {
			names = append(names, k)
		}
		got := rz.Run(src, rz.Opts{GlobalNames: names})
		for f := range g.Feats {
			feats[f]++
		}
		if want.Err != "" {
			stats["model-error:"+want.Err[:min(len(want.Err), 12)]]++
		}
		if d := rz.Diff(want, got); d != "" {
			stats["DISAGREE"]++
			if shown < *show {
				shown++
				fmt.Printf("=== DISAGREEMENT #%d (seed %d)\n%s\n--- diff:\n%s\n--- model: %+v\n--- real: result=%q err=%q stage=%s\n\n", i, *seed, src, d, want, got.Result, got.ErrText, got.Stage)
			}
		} else {
			stats["agree"]++
		}
	}
	keys := make([]string, 0)
	for k := range stats {
		keys = append(keys, k)
	}
	sort.Strings(keys)
	for _, k := range keys {
		fmt.Printf("%-30s %d\n", k, stats[k])
	}
	fmt.Printf("features: %d distinct\n", len(feats))
	if stats["DISAGREE"] > 0 {
		os.Exit(1)
	}
}
